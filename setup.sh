#!/bin/bash
# MANIFEST setup_cmd: build everything from files on disk, offline.
set -u
cd "$(dirname "$0")"
export PYTHONHASHSEED=0 PYTHONDONTWRITEBYTECODE=1
mkdir -p .work evidence/replays
python3 harness/build.py || { echo "setup: build reported problems (see above)"; }
# hygiene gate: no admitted proofs, no declared axioms, no disabled checks
if grep -rnE '\b(Admitted|admit|Axiom|Axioms|Parameter|Parameters|Conjecture|Abort All)\b|Unset Guard|bypass_check|type-in-type|impredicative-set|Admit Obligations' coq --include='*.v' | grep -v '^coq/Gen/.*(\*' ; then
  echo "setup: FORBIDDEN construct found in the Coq development"; exit 1
fi
test -x ocaml/oracle || { echo "setup: oracle missing"; exit 1; }
echo "setup ok"
