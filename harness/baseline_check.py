"""Run the pinned baseline command on a repo tree and verify every stable_pass test passes.
usage: baseline_check.py [repo_dir]"""
import json, sys, subprocess, os, xml.etree.ElementTree as ET, tempfile
repo = sys.argv[1] if len(sys.argv) > 1 else '/repo'
base = json.load(open('/root/.vp/BASELINE.json'))
out = tempfile.mktemp(suffix='.xml')
env = dict(os.environ); env.pop('MOPEPGEN_VERIF', None)
subprocess.run(['/venv/bin/python', '-m', 'pytest', '-ra', '-q', '-p', 'no:cacheprovider', '--timeout=900',
                '--continue-on-collection-errors', '--junitxml=' + out], cwd=repo, env=env,
               stdout=subprocess.DEVNULL, stderr=subprocess.DEVNULL)
passed = set()
for tc in ET.parse(out).getroot().iter('testcase'):
    if not any(ch.tag in ('failure', 'error', 'skipped') for ch in tc):
        passed.add('%s::%s' % (tc.get('classname'), tc.get('name')))
os.remove(out)
missing = [t for t in base['stable_pass'] if t not in passed]
if missing and len(missing) <= 25:
    # the sandbox is shared with other heavy jobs: re-run apparent failures once, serially
    ids = []
    for t in missing:
        cls, name = t.split('::')
        parts = cls.split('.')
        ids.append('/'.join(parts[:-1]) + '.py::' + parts[-1] + '::' + name)
    out2 = tempfile.mktemp(suffix='.xml')
    subprocess.run(['/venv/bin/python', '-m', 'pytest', '-q', '-p', 'no:cacheprovider', '--timeout=900', '--junitxml=' + out2] + ids,
                   cwd=repo, env=env, stdout=subprocess.DEVNULL, stderr=subprocess.DEVNULL)
    for tc in ET.parse(out2).getroot().iter('testcase'):
        if not any(ch.tag in ('failure', 'error', 'skipped') for ch in tc):
            passed.add('%s::%s' % (tc.get('classname'), tc.get('name')))
    os.remove(out2)
    print('re-ran %d apparent failures serially' % len(missing))
    missing = [t for t in base['stable_pass'] if t not in passed]
print('baseline stable_pass=%d passing_now=%d missing=%d total_passed=%d' % (len(base['stable_pass']), len(base['stable_pass']) - len(missing), len(missing), len(passed)))
for m in missing:
    print('MISSING', m)
sys.exit(1 if missing else 0)
