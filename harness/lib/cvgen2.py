"""Generators for the two record families added to the C01/C02 specification:

  gen_as_case(rng)     world + 1-3 alternative-splicing records (<DEL>/<INS>/<SUB>, as parseRMATS writes them)
                       on one multi-exon transcript + SNV/INDEL/MNV records clustered at the event boundaries
                       and inside the donor segments (intronic for the transcript)
  as_inputs(case, tx)  the oracle's asrec list (Model/SpecAS.v) by the generator's own ground truth
  gen_circ_case(rng)   world + 1-2 circRNA records (exon / retained-intron fragments) + small records
  circ_input(...)      the oracle's circ input (Model/SpecCirc.v)

cvgen.py is imported, never edited.  All coordinates 0-based half-open unless a name ends in 1."""
from harness.lib import gen_reference as G, cvgen as CG

NT = 'ACGT'

# ------------------------------------------------------------------ geometry
def tx_exons(gene, tx):
    """exons in transcription order as gene-coordinate half-open intervals"""
    out = []
    for a, b in (tx['exons'] if gene['strand'] == 1 else list(reversed(tx['exons']))):
        g0 = G.g2gene(gene, a if gene['strand'] == 1 else b - 1)
        out.append((g0, g0 + (b - a)))
    return out

def tx2gene(gene, tx, ti):
    return G.g2gene(gene, G.tx2g(gene, tx, ti))

def gene2tx(gene, tx, gi):
    return G.g2tx(gene, tx, G.gene2g(gene, gi))

def _small(rng, gseq, gs):
    """one SNV / insertion / deletion / MNV at gene position gs -> (ref, alt)"""
    ref = gseq[gs]
    x = rng.random()
    if x < 0.55:
        return ref, CG._mut_base(rng, ref)
    if x < 0.72:
        return ref, ref + ''.join(rng.choice(NT) for _ in range(rng.choice([1, 1, 2, 3])))
    if x < 0.9:
        k = rng.choice([1, 1, 2, 3])
        return gseq[gs:gs + 1 + k], ref
    k = rng.choice([2, 2, 3])
    r = gseq[gs:gs + k]
    return r, ''.join(CG._mut_base(rng, c) if (i in (0, k - 1) or rng.random() < 0.5) else c for i, c in enumerate(r))

# ------------------------------------------------------------------ alternative splicing
def _as_candidates(rng, world, gene, tx):
    """AS events on tx as dicts {kind, a, b (transcript interval replaced), ds, de (donor, gene coords), tag}"""
    ex = tx_exons(gene, tx)
    n = len(ex)
    L = G.tx_len(tx)
    offs = [0]
    for a, b in ex:
        offs.append(offs[-1] + (b - a))
    introns = [(ex[i][1], ex[i + 1][0], i) for i in range(n - 1) if ex[i + 1][0] - ex[i][1] >= 3]
    out = []
    # deletions: a whole internal exon (SE), the tail of an exon (A5SS), the head of an exon (A3SS), or an
    # interval that crosses an exon junction
    for i in range(n):
        a, b = offs[i], offs[i + 1]
        if 0 < i < n - 1:
            out.append(dict(kind='DEL', a=a, b=b, tag='SE'))
        if i < n - 1 and b - a >= 2:
            out.append(dict(kind='DEL', a=b - rng.randint(1, b - a - 1), b=b, tag='A5SS'))
        if i > 0 and b - a >= 2:
            out.append(dict(kind='DEL', a=a, b=a + rng.randint(1, b - a - 1), tag='A3SS'))
        if 0 < i < n - 1 and b - a >= 2 and offs[i + 2] - b >= 2 and rng.random() < 0.3:
            out.append(dict(kind='DEL', a=rng.randint(a + 1, b - 1), b=rng.randint(b + 1, offs[i + 2] - 1), tag='cross'))
    # insertions behind the last base of an exon: whole intron (RI), its head (A5SS), its tail (A3SS), a middle piece (SE)
    for s, e, i in introns:
        p = offs[i + 1] - 1                      # anchor (transcript coordinate)
        ln = e - s
        out.append(dict(kind='INS', a=p + 1, b=p + 1, ds=s, de=e, tag='RI'))
        k = rng.randint(1, ln)
        out.append(dict(kind='INS', a=p + 1, b=p + 1, ds=s, de=s + k, tag='A5SS'))
        k = rng.randint(1, ln)
        out.append(dict(kind='INS', a=p + 1, b=p + 1, ds=e - k, de=e, tag='A3SS'))
        if ln >= 5:
            u = rng.randint(s + 1, e - 3); w = rng.randint(u + 1, e - 1)
            out.append(dict(kind='INS', a=p + 1, b=p + 1, ds=u, de=w, tag='SE'))
    # substitutions: an internal exon (or its tail) replaced by a piece of an intron (MXE)
    for i in range(1, n - 1):
        a, b = offs[i], offs[i + 1]
        for s, e, j in introns:
            u = rng.randint(s, e - 2); w = rng.randint(u + 1, e)
            out.append(dict(kind='SUB', a=a, b=b, ds=u, de=w, tag='MXE'))
            if b - a >= 3 and rng.random() < 0.3:
                out.append(dict(kind='SUB', a=rng.randint(a + 1, b - 1), b=b, ds=u, de=w, tag='MXEtail'))
    return [o for o in out if o['a'] >= 1 and o['b'] <= L]

ID_PREFIX = {'cross': 'A3SS', 'MXEtail': 'MXE'}

def _as_row(world, gene, tx, ev):
    """the GVF fields of one event (gene coordinates, 1-based POS/START/DONOR_START, END/DONOR_END as written);
    ids carry an rMATS type prefix as parseRMATS writes them (VariantRecord.is_alternative_splicing tests it)"""
    gseq = G.gene_seq(world, gene)
    ev = dict(ev, tag=ID_PREFIX.get(ev['tag'], ev['tag']))
    if ev['kind'] == 'INS':
        anchor = tx2gene(gene, tx, ev['a'] - 1)
        return dict(gene_id=gene['id'], pos1=anchor + 1, id='%s_%d_%d_%d' % (ev['tag'], anchor + 1, ev['ds'] + 1, ev['de']),
                    ref=gseq[anchor], alt='<INS>', tx_id=tx['id'], gene_name=gene['name'],
                    attrs='DONOR_GENE_ID=%s;DONOR_START=%d;DONOR_END=%d' % (gene['id'], ev['ds'] + 1, ev['de']))
    ga = tx2gene(gene, tx, ev['a']); gb = tx2gene(gene, tx, ev['b'] - 1) + 1
    if ev['kind'] == 'DEL':
        return dict(gene_id=gene['id'], pos1=ga + 1, id='%s_%d_%d' % (ev['tag'], ga + 1, gb), ref=gseq[ga], alt='<DEL>',
                    tx_id=tx['id'], gene_name=gene['name'], attrs='START=%d;END=%d' % (ga + 1, gb))
    return dict(gene_id=gene['id'], pos1=ga + 1, id='%s_%d_%d_%d_%d' % (ev['tag'], ga + 1, gb, ev['ds'] + 1, ev['de']),
                ref=gseq[ga], alt='<SUB>', tx_id=tx['id'], gene_name=gene['name'],
                attrs='START=%d;END=%d;DONOR_GENE_ID=%s;DONOR_START=%d;DONOR_END=%d' % (ga + 1, gb, gene['id'], ev['ds'] + 1, ev['de']))

def gen_as_case(rng, n_as=None, nvar=None, coding_p=0.8, donor_records=None):
    """case['as_records'] = [{tx, kind, a, b, ds, de, tag, row}] sorted by (a, b); case['gvf'] = small records"""
    if donor_records is None:
        donor_records = rng.random() < 0.5
    for _ in range(400):
        world = G.gen_world(rng, n_chrom=1, max_genes=2, coding_p=coding_p, small=True, sec_p=0.2, nf_p=0.15)
        cands = [(g, t) for g in world['genes'] for t in g['transcripts'] if len(t['exons']) >= 2 and G.tx_len(t) >= 40]
        if not cands:
            continue
        gene, tx = rng.choice(cands)
        evs = _as_candidates(rng, world, gene, tx)
        if tx['cds'] and rng.random() < 0.85:
            evs2 = [e for e in evs if e['a'] >= tx['cds'][0] + 3]        # mostly behind the start codon
            evs = evs2 or evs
        if not evs:
            continue
        k = n_as or rng.choice([1, 1, 1, 2, 2, 3])
        kinds = sorted(set(e['kind'] for e in evs))
        chosen = []
        for _k in range(k):
            kind = rng.choice(kinds)
            e = rng.choice([x for x in evs if x['kind'] == kind])
            if not any((e['kind'], e['a'], e['b'], e.get('ds'), e.get('de')) == (c['kind'], c['a'], c['b'], c.get('ds'), c.get('de')) for c in chosen):
                chosen.append(e)
        chosen.sort(key=lambda e: (e['a'], e['b'], e['kind'], e.get('ds', 0), e.get('de', 0)))
        gseq = G.gene_seq(world, gene)
        # small records: clustered at the event boundaries (transcript side) and inside the donor segments
        centres = []
        for e in chosen:
            for tp in (e['a'] - 2, e['a'] - 1, e['a'], e['b'] - 1, e['b'], e['b'] + 1):
                if 0 <= tp < G.tx_len(tx):
                    centres.append(tx2gene(gene, tx, tp))
            if e['kind'] != 'DEL' and donor_records:
                centres += [rng.randint(e['ds'], e['de'] - 1) for _j in range(4)] + [e['ds'], e['de'] - 1]
        n = nvar if nvar is not None else rng.choice([0, 1, 2, 2, 3, 3, 4, 5])
        seen, recs = set(), []
        tries = 0
        while len(recs) < n and tries < 100:
            tries += 1
            gs = rng.choice(centres) + int(round(rng.gauss(0, 4)))
            if not (0 <= gs < len(gseq) - 6):
                continue
            ref, alt = _small(rng, gseq, gs)
            if not ref or ref == alt or gs + len(ref) > len(gseq) or (gs, ref, alt) in seen:
                continue
            if not donor_records and any(e['kind'] != 'DEL' and gs < e['de'] and e['ds'] < gs + len(ref) for e in chosen):
                continue            # keep the donor segments free of small records
            seen.add((gs, ref, alt)); recs.append((gs, ref, alt))
        rows = []
        for gs, ref, alt in sorted(recs):
            for t in gene['transcripts']:
                kind, _, _ = CG.map_record(gene, t, gs, gs + len(ref))
                if kind != 'outside':
                    rows.append([gene['id'], gs + 1, CG.var_id(gs, ref, alt), ref, alt, t['id'], gene['name']])
        as_records = [dict(e, tx=tx['id'], row=_as_row(world, gene, tx, e)) for e in chosen]
        return {'world': world, 'gvf': rows, 'gene': gene['id'], 'target': tx['id'], 'tag': 'as:' + '+'.join(e['kind'] for e in chosen),
                'as_records': as_records, 'donor_records': bool(donor_records)}
    raise RuntimeError('AS generator failed')

def as_inputs(case, tx_id):
    """[[a_s, a_e, donor, [[s, e, alt, ok] ...]] ...] for the AS records of tx_id (ground truth of the generator:
    donor = gene[ds, de); donor records = every small record row of this transcript whose gene interval lies in
    [ds, de], in donor coordinates)"""
    world = case['world']
    out = []
    for r in case.get('as_records', []):
        if r['tx'] != tx_id:
            continue
        gene = next(g for g in world['genes'] if any(t['id'] == tx_id for t in g['transcripts']))
        gseq = G.gene_seq(world, gene)
        donor, dv = '', []
        if r['kind'] != 'DEL':
            donor = gseq[r['ds']:r['de']]
            seen = set()
            for gene_id, pos1, vid, ref, alt, t_id, _ in case['gvf']:
                if t_id != tx_id or gene_id != gene['id'] or vid in seen:
                    continue
                gs = pos1 - 1
                if r['ds'] <= gs and gs + len(ref) <= r['de']:
                    seen.add(vid)
                    dv.append([gs - r['ds'], gs - r['ds'] + len(ref), alt, True])
            dv.sort(key=lambda v: (v[0], v[1], v[2]))
        out.append([r['a'], r['b'], donor, dv])
    return out

# ------------------------------------------------------------------ circRNA
def gen_circ_case(rng, nvar=None, coding_p=0.7, n_circ=None):
    """case['circ_records'] = [{tx, frags: [[s, e] ...] gene coordinates ascending, row}]: back-spliced exons i..j of one
    transcript, with probability 0.3 together with a retained intron between two of them (INTRON index list);
    small records clustered at fragment starts (the excluded first 3 nt and just behind), fragment ends, the
    back-splice junction, ATG codons of the circle"""
    for _ in range(400):
        world = G.gen_world(rng, n_chrom=1, max_genes=2, coding_p=coding_p, small=True, sec_p=0.1, nf_p=0.1)
        cands = [(g, t) for g in world['genes'] for t in g['transcripts'] if G.tx_len(t) >= 40]
        if not cands:
            continue
        gene, tx = rng.choice(cands)
        ex = tx_exons(gene, tx)
        gseq = G.gene_seq(world, gene)
        recs = []
        for _k in range(n_circ or rng.choice([1, 1, 1, 2])):
            i = rng.randrange(len(ex)); j = rng.randrange(i, len(ex))
            if j == i and len(ex) > 1 and rng.random() < 0.6:
                i = rng.randrange(len(ex) - 1); j = rng.randrange(i + 1, len(ex))       # prefer several fragments
            if j - i > 3:
                j = i + 3
            frags = [list(f) for f in ex[i:j + 1]]
            introns = []
            order = None
            if j > i and rng.random() < 0.3:
                q = rng.randrange(i, j)                      # intron between exon q and q+1 retained
                if ex[q + 1][0] - ex[q][1] >= 1:
                    iv = [ex[q][1], ex[q + 1][0]]
                    if rng.random() < 0.5:
                        order = frags + [iv]                 # row lists the exons first, the intron last (unsorted)
                    frags.append(iv)
                    frags.sort()
                    introns = [(order or frags).index(iv) + 1]
            L = sum(b - a for a, b in frags)
            if L < 12 or L > 260:
                continue
            start = frags[0][0]
            rowfr = order or frags
            cid = 'CIRC-%s-%d:%d' % (tx['id'], frags[0][0], frags[-1][1])
            if any(r['row']['id'] == cid and r['frags'] == frags for r in recs):
                continue
            if any(r['row']['id'] == cid for r in recs):
                cid += 'b'
            recs.append({'tx': tx['id'], 'frags': frags,
                         'row': dict(gene_id=gene['id'], start=start, id=cid, offsets=[a - start for a, _ in rowfr],
                                     lengths=[b - a for a, b in rowfr], introns=introns, tx_id=tx['id'], gene_name=gene['name'])})
        if not recs:
            continue
        centres = []
        for r in recs:
            turn = ''.join(gseq[a:b] for a, b in r['frags'])
            for a, b in r['frags']:
                centres += [a, a + 1, a + 3, a + 4, a + 5, b - 2, b - 1, (a + b) // 2]
            pos = [g for a, b in r['frags'] for g in range(a, b)]
            import re as _re
            for m in _re.finditer('ATG', turn + turn[:2]):
                centres += [pos[(m.start() + d) % len(pos)] for d in (0, 3, 6)]
        n = nvar if nvar is not None else rng.choice([0, 1, 1, 2, 2, 3, 3, 4])
        seen, small = set(), []
        tries = 0
        while len(small) < n and tries < 100:
            tries += 1
            gs = rng.choice(centres) + int(round(rng.gauss(0, 3)))
            if not (0 <= gs < len(gseq) - 6):
                continue
            ref, alt = _small(rng, gseq, gs)
            if not ref or ref == alt or gs + len(ref) > len(gseq) or (gs, ref, alt) in seen:
                continue
            seen.add((gs, ref, alt)); small.append((gs, ref, alt))
        rows = []
        for gs, ref, alt in sorted(small):
            for t in gene['transcripts']:
                kind, _, _ = CG.map_record(gene, t, gs, gs + len(ref))
                if kind != 'outside':
                    rows.append([gene['id'], gs + 1, CG.var_id(gs, ref, alt), ref, alt, t['id'], gene['name']])
        nindel = len(set(r[2] for r in rows if len(r[3]) != len(r[4])))
        def dense(r):
            Lc = sum(b - a for a, b in r['frags'])
            inside = len(set(row[2] for row in rows if any(a <= row[1] - 1 < b for a, b in r['frags'])))
            return inside > max(2, Lc // 15) or (nindel >= 2 and Lc < 60)
        if any(dense(r) for r in recs):
            continue      # a tiny circle dense with records: the engine's four-copy graph explodes (19-nt circle with 2
                          # deletions: 130 s; 15-nt circle with 5 records: > 11 min, 2.6 GB, even with
                          # --max-variants-per-node 7): at most max(2, L/15) records inside a circle; not a property matter
        return {'world': world, 'gvf': rows, 'gene': gene['id'], 'target': tx['id'],
                'tag': 'circ:%d' % len(recs), 'circ_records': recs}
    raise RuntimeError('circRNA generator failed')

def circ_inputs(case, tx_id, run, prots=None):
    """oracle inputs (Model/SpecCirc.v cv_circ) of the circRNA records of tx_id:
    [gene sequence, fragments, small record rows of this transcript in GENE coordinates (ok = exonic for it), rule, exc, limits, proteome]"""
    world = case['world']
    out = []
    for r in case.get('circ_records', []):
        if r['tx'] != tx_id:
            continue
        gene = next(g for g in world['genes'] if any(t['id'] == tx_id for t in g['transcripts']))
        tx = next(t for t in gene['transcripts'] if t['id'] == tx_id)
        vs, seen = [], set()
        for gene_id, pos1, vid, ref, alt, t_id, _ in case.get('gvf', []):
            if t_id != tx_id or gene_id != gene['id'] or vid in seen:
                continue
            seen.add(vid)
            gs = pos1 - 1
            kind, _, _ = CG.map_record(gene, tx, gs, gs + len(ref))
            vs.append([gs, gs + len(ref), alt, kind == 'exonic'])
        vs.sort(key=lambda v: (v[0], v[1], v[2]))
        out.append([G.gene_seq(world, gene), [list(f) for f in r['frags']], vs, run['rule'],
                    (run['exc'] if run['exc'] != 'None' else None), [run['k'], run['mw4'], run['min_len'], run['max_len']],
                    prots if prots is not None else CG.proteome(world)])
    return out

# ------------------------------------------------------------------ designed geometries (round-3 seeds C01-7, C02-7, C02-8, C05-6)
def _rows_for(gene, recs):
    rows = []
    for gs, ref, alt in sorted(set(recs)):
        for t in gene['transcripts']:
            kind, _, _ = CG.map_record(gene, t, gs, gs + len(ref))
            if kind != 'outside':
                rows.append([gene['id'], gs + 1, CG.var_id(gs, ref, alt), ref, alt, t['id'], gene['name']])
    return rows

def gen_as_design_case(rng, mode=None, coding_p=0.85):
    """ONE <INS>/<SUB> record on a multi-exon transcript with small records placed by design:
      shift     a frameshifting insertion / deletion strictly INSIDE the donor segment + a record on the transcript
                3-20 nt behind the event (read in the shifted frame) + sometimes one in front of it
      straddle  the donor segment is a proper piece of an intron; a 2-5 base deletion / MNV starts inside the donor
                segment and runs past its end (or starts in front of it and runs into it), staying intronic: it
                cannot be applied to the inserted piece; no other record inside the donor segment
      abut      records on the first / last base of the donor segment, and directly behind / in front of it
    """
    mode = mode or rng.choice(['shift', 'shift', 'straddle', 'straddle', 'abut'])
    for _ in range(600):
        world = G.gen_world(rng, n_chrom=1, max_genes=2, coding_p=coding_p, small=True, sec_p=0.1, nf_p=0.1)
        cands = [(g, t) for g in world['genes'] for t in g['transcripts'] if len(t['exons']) >= 2 and G.tx_len(t) >= 50]
        if not cands:
            continue
        gene, tx = rng.choice(cands)
        evs = [e for e in _as_candidates(rng, world, gene, tx) if e['kind'] != 'DEL' and e['de'] - e['ds'] >= 4]
        if tx['cds']:
            evs = [e for e in evs if tx['cds'][0] + 6 <= e['a'] <= tx['cds'][1] + 3] or evs
        if mode == 'straddle':
            ex = tx_exons(gene, tx)
            intr = [(ex[i][1], ex[i + 1][0]) for i in range(len(ex) - 1)]
            def room(e):
                s, t_ = next((s, t_) for s, t_ in intr if s <= e['ds'] and e['de'] <= t_)
                return (t_ - e['de'] >= 4) or (e['ds'] - s >= 4)
            evs = [e for e in evs if e['kind'] == 'INS' and any(s <= e['ds'] and e['de'] <= t_ for s, t_ in intr) and room(e)]
        if not evs:
            continue
        e = rng.choice(evs)
        gseq = G.gene_seq(world, gene)
        L = G.tx_len(tx)
        recs = []
        if mode == 'shift':
            if e['de'] - e['ds'] < 5:
                continue
            gs = rng.randint(e['ds'] + 1, e['de'] - 3)
            if rng.random() < 0.5:
                recs.append((gs, gseq[gs], gseq[gs] + ''.join(rng.choice(NT) for _ in range(rng.choice([1, 1, 2, 4])))))
            else:
                k = rng.choice([1, 1, 2]) if gs + 3 < e['de'] else 1
                recs.append((gs, gseq[gs:gs + 1 + k], gseq[gs]))
            for _k in range(rng.choice([1, 1, 2])):                       # behind the event, in the shifted frame
                tp = e['b'] + rng.randint(2, 20)
                if tp < L - 2:
                    g2 = tx2gene(gene, tx, tp)
                    recs.append((g2, gseq[g2], CG._mut_base(rng, gseq[g2])))
            if rng.random() < 0.4 and e['a'] - 8 > 3:
                g2 = tx2gene(gene, tx, e['a'] - rng.randint(3, 8))
                recs.append((g2, gseq[g2], CG._mut_base(rng, gseq[g2])))
            if rng.random() < 0.3:                                         # a second, in-frame-restoring record in the donor
                g3 = rng.randint(e['ds'] + 1, e['de'] - 2)
                recs.append((g3, gseq[g3], CG._mut_base(rng, gseq[g3])))
        elif mode == 'straddle':
            ex = tx_exons(gene, tx)
            s, t_ = next((s, t_) for s, t_ in ((ex[i][1], ex[i + 1][0]) for i in range(len(ex) - 1)) if s <= e['ds'] and e['de'] <= t_)
            opts = []
            if t_ - e['de'] >= 4:
                opts.append('end')
            if e['ds'] - s >= 4:
                opts.append('start')
            side = rng.choice(opts)
            k = rng.choice([2, 3, 4])
            if side == 'end':
                gs = e['de'] - rng.randint(1, min(k, e['de'] - e['ds'] - 1))       # starts inside, ends behind de
                if gs + k + 1 > t_ or gs + k + 1 <= e['de']:
                    k = e['de'] - gs + 1
                    if gs + k + 1 > t_:
                        continue
            else:
                gs = e['ds'] - rng.randint(1, k)                                   # starts in front of ds, ends inside
                if gs < s or gs + k + 1 <= e['ds']:
                    continue
            if rng.random() < 0.7:
                recs.append((gs, gseq[gs:gs + 1 + k], gseq[gs]))                   # deletion
            else:
                r = gseq[gs:gs + 1 + k]
                recs.append((gs, r, ''.join(CG._mut_base(rng, ch) for ch in r)))   # MNV
            for _k in range(rng.choice([0, 1, 1])):
                tp = e['b'] + rng.randint(1, 12)
                if tp < L - 2:
                    g2 = tx2gene(gene, tx, tp)
                    recs.append((g2, gseq[g2], CG._mut_base(rng, gseq[g2])))
        else:
            for gs in rng.sample([e['ds'], e['de'] - 1, e['de'], e['ds'] - 1], rng.choice([1, 2, 2, 3])):
                if 0 <= gs < len(gseq) - 4:
                    ref, alt = _small(rng, gseq, gs)
                    recs.append((gs, ref, alt))
        recs = [r for r in recs if r[1] and r[1] != r[2] and r[0] + len(r[1]) <= len(gseq)]
        if not recs:
            continue
        return {'world': world, 'gvf': _rows_for(gene, recs), 'gene': gene['id'], 'target': tx['id'],
                'tag': 'asd:%s:%s' % (mode, e['kind']), 'as_records': [dict(e, tx=tx['id'], row=_as_row(world, gene, tx, e))],
                'donor_records': True, 'design': mode}
    raise RuntimeError('AS design generator failed')

_NOSTOP_NOM = 'ACDEFGHIKLNPQRSTVWYKRKR'

def gen_circ_design_case(rng, mode=None):
    """circRNA whose circle sequence is WRITTEN into consecutive exons of a non-coding gene:
      onlyatg   the circle holds exactly ONE ATG (also across the back-splice junction), in 70 % directly behind a
                K/R codon (the cleavage-graph node begins with M), no stop codon in its frame: translation passes the
                site again in every turn; an SNV on the A / T / G of that ATG, in 40 % a second allele on the same base
      starts    1-3 ATG codons behind K/R codons; SNVs on the bases of the start codons and two alleles at one site
                downstream of a start
    plus, in half of the onlyatg cases, an SNV elsewhere in the circle"""
    import re as _re
    mode = mode or rng.choice(['onlyatg', 'onlyatg', 'starts'])
    for _ in range(800):
        world = G.gen_world(rng, n_chrom=1, max_genes=3, coding_p=0.5, small=True, sec_p=0.0, nf_p=0.1)
        nc = [g for g in world['genes'] if g['biotype'] != 'protein_coding']
        if not nc or len(nc) == len(world['genes']):
            continue
        gene = rng.choice(nc)
        tx = rng.choice(gene['transcripts'])
        ex = tx_exons(gene, tx)
        i = rng.randrange(len(ex)); j = min(len(ex) - 1, i + rng.choice([0, 0, 1, 2]))
        frags = [list(f) for f in ex[i:j + 1]]
        L = sum(b - a for a, b in frags)
        if L < 24 or L > (75 if mode == 'starts' else 150):
            continue      # 'starts' circles have no stop codon in the designed frame: kept short (engine time grows with 4 turns x ORFs)
        if rng.random() < 0.5 and L % 3 and L - (L % 3) >= 24 and len(frags) == 1:
            pass
        n = L // 3
        text = None
        for _t in range(60):
            prot = [rng.choice(_NOSTOP_NOM) for _k in range(n)]
            cod = [rng.choice(G.BACK[a]) for a in prot]
            qs = sorted(rng.sample(range(2, n - 1), 1 if mode == 'onlyatg' else rng.choice([1, 2, 3]))) if n > 5 else [2]
            for q in qs:
                cod[q] = 'ATG'
                if rng.random() < 0.7:
                    cod[q - 1] = rng.choice(G.BACK[rng.choice('KR')])
            s = ''.join(cod) + ''.join(rng.choice('CT') for _k in range(L % 3))
            cnt = len(_re.findall('(?=ATG)', s + s[:2]))
            if (mode == 'onlyatg' and cnt == 1) or (mode != 'onlyatg' and cnt >= len(qs)):
                text = s; break
        if text is None:
            continue
        offs = [0]
        for a, b in ex:
            offs.append(offs[-1] + (b - a))
        chrom = list(world['chroms'][gene['chrom']])
        G._write_into(chrom, gene, tx['exons'], offs[i], text)
        world['chroms'][gene['chrom']] = ''.join(chrom)
        gseq = G.gene_seq(world, gene)
        assert ''.join(gseq[a:b] for a, b in frags) == text
        pos = [g for a, b in frags for g in range(a, b)]                  # circle index -> gene coordinate
        recs = []
        q = rng.choice(qs)
        base = rng.choice([0, 0, 0, 1, 2]) if mode == 'onlyatg' else rng.choice([0, 1, 2])
        g0 = pos[3 * q + base]
        alts = rng.sample([c for c in NT if c != gseq[g0]], 2 if rng.random() < 0.4 else 1)
        recs += [(g0, gseq[g0], a) for a in alts]
        if mode != 'onlyatg':
            k = (3 * q + rng.randint(4, 30)) % L                          # two alleles at one site behind a start
            g1 = pos[k]
            for a in rng.sample([c for c in NT if c != gseq[g1]], 2):
                recs.append((g1, gseq[g1], a))
        if rng.random() < 0.5 and mode == 'onlyatg':
            g2 = pos[rng.randrange(L)]
            recs.append((g2, gseq[g2], CG._mut_base(rng, gseq[g2])))
        start = frags[0][0]
        cid = 'CIRC-%s-%d:%d' % (tx['id'], frags[0][0], frags[-1][1])
        rec = {'tx': tx['id'], 'frags': frags,
               'row': dict(gene_id=gene['id'], start=start, id=cid, offsets=[a - start for a, _ in frags],
                           lengths=[b - a for a, b in frags], introns=[], tx_id=tx['id'], gene_name=gene['name'])}
        return {'world': world, 'gvf': _rows_for(gene, recs), 'gene': gene['id'], 'target': tx['id'],
                'tag': 'circd:%s' % mode, 'circ_records': [rec], 'design': mode}
    raise RuntimeError('circRNA design generator failed')
