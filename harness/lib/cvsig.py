"""Executable signatures of the known callVariant findings (C01/C02/C03).

Each signature recognises ONE defect by its mechanism, from the oracle's derivations (witnesses) of
the offending peptide; a disagreement that matches no signature is a violation.

  stoploss  (C01)  a variant alters the annotated stop codon and translation reads through in frame:
                   the engine's traversal loses the "stop lost" attribution for peptides further
                   downstream (a node reached both through the reference path behind the stop and
                   through the read-through path keeps one cursor).  A missing peptide matches iff
                   EVERY obliged derivation of it lies wholly behind the annotated stop codon and at
                   least one of them carries no variant in its own nucleotides.
  exception (C01/C02, D14)  cleavage exception evaluated node-locally: see explained_by_exception.
"""
from harness.lib import oracle as O

def shift(H, q):
    return q + sum(len(r['alt']) - (r['e'] - r['s']) for r in H if r['e'] <= q)

def bounds_of(x, aas, oracle_sites):
    return [0] + list(oracle_sites) + [len(aas)]

def sites_req(x, aas):
    return ('sites', [x[7], x[8], aas])

def raw_sites_req(x, aas):
    return ('sites', [x[7], None, aas])

def decode_wits(ws, recs):
    out = []
    for mask, st, aas, stopped, a, b, form in ws:
        H = [recs[i] for i, m in enumerate(mask) if m]
        out.append({'H': H, 'start': st, 'aas': O.U(aas), 'stopped': bool(stopped), 'a': a, 'b': b, 'form': form})
    return out

def hap_interval(H, r):
    """interval of record r (a member of H) in the haplotype sequence"""
    a = shift([v for v in H if v is not r], r['s'])
    return a, a + len(r['alt'])

def behind_stop(w, cds_end):
    """the derivation lies wholly behind the (mapped) annotated stop codon: read-through into the 3'UTR"""
    if cds_end is None:
        return False
    return w['start'] + 3 * w['a'] >= shift(w['H'], cds_end) + 3

def carries_no_variant(w):
    H = w['H']
    lo, hi = w['start'] + 3 * w['a'], w['start'] + 3 * w['b']
    for r in H:
        a, b = hap_interval(H, r)
        if a < hi and lo < max(b, a + 1):
            return False
    return True

def stoploss_witness(w, cds_end, sites=None):
    return behind_stop(w, cds_end) and carries_no_variant(w)

def explained_by_stoploss(x, recs, cds_end, wits):
    """wits: decoded must-witnesses of a missing peptide.  Matches iff EVERY obliged derivation lies wholly
    behind the annotated stop codon (the haplotype reads through it: stop-altering record or frameshift)
    and at least one derivation carries no variant in its own nucleotides (others may carry silent ones)."""
    if not wits:
        return False
    return all(behind_stop(w, cds_end) for w in wits) and any(carries_no_variant(w) for w in wits)

def _sup(raw, hard):
    return [e for e in raw if e not in hard]

def explained_by_exception_missing(x, recs, wits):
    """D14 (cleavage exception evaluated per graph node).  A missing peptide matches iff EVERY obliged
    derivation (H, a, b) has a span whose endpoint is adjacent to, or which contains, a position that
    the exception suppresses in the translation of H or of a sub-haplotype of H (a stale suppressed
    site: the variant removed the motif).  Positions of a sub-haplotype that lacks indels of H are
    compared with a tolerance of the residues those indels insert or delete."""
    if not wits or x[8] is None:
        return False
    for w in wits:
        H = w['H']
        idx = [i for i, r in enumerate(recs) if any(r is h for h in H)]
        masks, tols = [], []
        for m in range(0, 2 ** len(idx)):
            chosen = [i for k, i in enumerate(idx) if (m >> k) & 1]
            dropped = [recs[i] for i in idx if i not in chosen]
            tols.append(sum((abs(len(r['alt']) - (r['e'] - r['s'])) + 2) // 3 for r in dropped))
            masks.append([1 if i in chosen else 0 for i in range(len(recs))])
        trs = O.call_many([('cv_translate_at', [x, mk, w['start']]) for mk in masks])
        trs = [O.U(t) for t in trs]
        raws = O.call_many([raw_sites_req(x, t) for t in trs])
        hards = O.call_many([sites_req(x, t) for t in trs])
        ok = False
        for r, h, tol in zip(raws, hards, tols):
            if any(w['a'] - 1 - tol <= e <= w['b'] + 1 + tol for e in _sup(r, h)):
                ok = True
        if not ok:
            return False
    return True

def explained_by_adjacent_sites(x, wits):
    """C01-nola-adjacent-sites (rules with an alternative WITHOUT look-ahead only): two cleavage sites one
    residue apart give a single-residue node; since db08c8d a site on the end of a node is not split, and
    joins across such nodes are occasionally (order dependent) lost.  A missing peptide matches iff EVERY
    obliged derivation has two sites at distance 1 inside or bordering its span."""
    if not wits:
        return False
    ss = O.call_many([sites_req(x, w['aas']) for w in wits])
    for w, sites in zip(wits, ss):
        S = sorted(set([0] + list(sites) + [len(w['aas'])]))
        if not any(t == s + 1 and w['a'] - 1 <= s and t <= w['b'] + 1 for s, t in zip(S, S[1:])):
            return False
    return True

def explained_by_softsite_missing(x, wits, recs=None):
    """D14b (rule look-behind evaluated per graph node, on the whole reading frame): a missing peptide matches
    iff EVERY obliged derivation has an endpoint at, or contains, a SOFT site: a rule site that exists only
    through an alternative with look-behind (e.g. trypsin's (?<=W)K(?=P)), including sites that appear only
    when the residues upstream of the translation start are visible to the look-behind."""
    if not wits:
        return False
    if recs is not None:
        masks = [[1 if any(r is h for h in w['H']) else 0 for r in recs] for w in wits]
        softs = O.call_many([('cv_soft_sites', [x, m, w['start']]) for m, w in zip(masks, wits)])
    else:
        alls = O.call_many([sites_req(x, w['aas']) for w in wits])
        firms = O.call_many([('cv_firm_sites', [x, w['aas']]) for w in wits])
        softs = [[e for e in a if e not in f] for a, f in zip(alls, firms)]
    for w, soft in zip(wits, softs):
        if not any(w['a'] <= e <= w['b'] for e in soft):
            return False
    return True

def substring_realizable(x, p):
    return bool(O.call('cv_substring', [x, p]))
