"""Shared reference-world generator (genome + GENCODE-style GTF + proteome) with ground truth.

A world is a plain JSON-serialisable dict:
  chroms: {name: seq}
  genes: [ {id, name, chrom, strand(+1/-1), biotype, start, end (0-based half-open, genomic),
            transcripts: [ {id, protein_id, exons: [[s,e],...] ascending genomic,
                             cds: [cs, ce] transcript coords (ce excludes the stop codon) or None,
                             frame: 0..2 (cds_start_NF only), tags: [...], sec: [tx positions of TGA read as U],
                             utr: bool (emit UTR features), biotype} ] } ]
Ground truth helpers (tx_seq, tx2g, translate_cds ...) use only this module's own tables.
"""
import random

COMP = {'A': 'T', 'C': 'G', 'G': 'C', 'T': 'A', 'N': 'N'}
CODON = {}
_b = 'TCAG'
_aa = 'FFLLSSSSYY**CC*WLLLLPPPPHHQQRRRRIIIMTTTTNNKKSSRRVVVVAAAADDEEGGGG'
for i, a in enumerate(_b):
    for j, b in enumerate(_b):
        for k, c in enumerate(_b):
            CODON[a + b + c] = _aa[i * 16 + j * 4 + k]
BACK = {}
for cod, aa in CODON.items():
    BACK.setdefault(aa, []).append(cod)

def revcomp(s):
    return ''.join(COMP[c] for c in reversed(s))

def translate(dna, sec_positions=(), offset=0):
    """translate dna codon by codon to the first stop (not included) or the last complete codon;
    sec_positions: nucleotide indices (in the coordinates of dna+offset) of TGA codons read as U"""
    out = []
    for i in range(0, len(dna) - 2, 3):
        cod = dna[i:i + 3]
        aa = CODON.get(cod, 'X')
        if aa == '*':
            if (i + offset) in sec_positions and cod == 'TGA':
                aa = 'U'
            else:
                break
        out.append(aa)
    return ''.join(out)

def rand_dna(rng, n):
    return ''.join(rng.choice('ACGT') for _ in range(n))

def rand_protein(rng, n, bias='KRKRPMWDEFLC', p=0.4):
    aa20 = 'ACDEFGHIKLMNPQRSTVWY'
    return ''.join(rng.choice(bias) if rng.random() < p else rng.choice(aa20) for _ in range(n))

def backtranslate(rng, prot):
    return ''.join(rng.choice(BACK[a]) for a in prot)

def tx_len(tx):
    return sum(e - s for s, e in tx['exons'])

def tx_seq(world, gene, tx):
    chrom = world['chroms'][gene['chrom']]
    s = ''.join(chrom[a:b] for a, b in tx['exons'])
    return s if gene['strand'] == 1 else revcomp(s)

def gene_seq(world, gene):
    chrom = world['chroms'][gene['chrom']]
    s = chrom[gene['start']:gene['end']]
    return s if gene['strand'] == 1 else revcomp(s)

def tx2g(gene, tx, i):
    """transcript index -> genomic index (ground truth)"""
    if gene['strand'] == 1:
        for s, e in tx['exons']:
            if i < e - s:
                return s + i
            i -= e - s
    else:
        for s, e in reversed(tx['exons']):
            if i < e - s:
                return e - 1 - i
            i -= e - s
    raise IndexError

def g2tx(gene, tx, g):
    """genomic index -> transcript index or None when intronic/outside"""
    off = 0
    exs = tx['exons'] if gene['strand'] == 1 else list(reversed(tx['exons']))
    for s, e in exs:
        if s <= g < e:
            return off + (g - s if gene['strand'] == 1 else e - 1 - g)
        off += e - s
    return None

def g2gene(gene, g):
    return g - gene['start'] if gene['strand'] == 1 else gene['end'] - 1 - g

def gene2g(gene, i):
    return gene['start'] + i if gene['strand'] == 1 else gene['end'] - 1 - i

def protein_of(world, gene, tx):
    if not tx.get('cds'):
        return None
    s = tx_seq(world, gene, tx)
    cs, ce = tx['cds']
    return translate(s[cs:], set(tx.get('sec', [])), offset=cs)

def _write_into(chrom_list, gene, exons, tx_pos, text):
    """write text at transcript position tx_pos of a transcript with these exons (strand aware)"""
    fake_tx = {'exons': exons}
    for k, ch in enumerate(text):
        g = tx2g(gene, fake_tx, tx_pos + k)
        chrom_list[g] = ch if gene['strand'] == 1 else COMP[ch]

def gen_world(rng, n_chrom=None, max_genes=4, coding_p=0.7, bias='KRKRPMWDEFLC', small=False, sec_p=0.2,
              nf_p=0.15, multi_iso_p=0.6):
    world = {'chroms': {}, 'genes': []}
    n_chrom = n_chrom or rng.choice([1, 1, 2])
    gid = 0
    for ci in range(n_chrom):
        cname = 'chr%d' % (ci + 1)
        pos = rng.randint(5, 40)
        genes = []
        chrom = []
        for _ in range(rng.randint(1, max_genes)):
            gid += 1
            glen = rng.randint(120, 400) if small else rng.randint(200, 900)
            strand = rng.choice([1, -1])
            gstart = pos
            # exon blocks inside [gstart, gstart+glen)
            nblocks = rng.choice([1, 2, 3, 3, 4, 5, 6])
            cuts = sorted(rng.sample(range(gstart + 10, gstart + glen - 10), min(2 * nblocks - 2, max(0, glen - 30))))
            cuts = [c for i, c in enumerate(cuts) if i == 0 or c - cuts[i - 1] >= 4]
            if len(cuts) % 2:
                cuts = cuts[:-1]
            pts = [gstart] + cuts + [gstart + glen]
            blocks = [[pts[i], pts[i + 1]] for i in range(0, len(pts), 2)]
            gene = {'id': 'ENSG%011d.%d' % (gid, rng.randint(1, 9)), 'name': 'GENE%d' % gid, 'chrom': cname,
                    'strand': strand, 'transcripts': []}
            coding = rng.random() < coding_p
            gene['biotype'] = 'protein_coding' if coding else rng.choice(['lncRNA', 'processed_pseudogene', 'lncRNA'])
            n_iso = rng.choice([2, 3, 4]) if rng.random() < multi_iso_p else 1
            seen = set()
            for ti in range(n_iso):
                if ti == 0 or len(blocks) == 1:
                    exons = [list(b) for b in blocks]
                else:
                    keep = [b for b in blocks if rng.random() < 0.7]
                    if not keep:
                        keep = [rng.choice(blocks)]
                    exons = [list(b) for b in keep]
                    # alternative splice sites
                    for e in exons:
                        if rng.random() < 0.25 and e[1] - e[0] > 12:
                            if rng.random() < 0.5:
                                e[0] += rng.randint(1, 5)
                            else:
                                e[1] -= rng.randint(1, 5)
                key = tuple(map(tuple, exons))
                if key in seen:
                    continue
                seen.add(key)
                tid = 'ENST%011d.%d' % (gid * 10 + ti, rng.randint(1, 9))
                tx = {'id': tid, 'protein_id': None, 'exons': exons, 'cds': None, 'frame': 0, 'tags': [],
                      'sec': [], 'utr': rng.random() < 0.5, 'biotype': gene['biotype']}
                gene['transcripts'].append(tx)
            gene['start'] = min(t['exons'][0][0] for t in gene['transcripts'])
            gene['end'] = max(t['exons'][-1][1] for t in gene['transcripts'])
            genes.append(gene)
            pos = gstart + glen + rng.randint(5, 60)
        chrom = list(rand_dna(rng, pos + rng.randint(5, 30)))
        # design CDS for coding genes: write a protein into the first isoform, others inherit what they get
        for gene in genes:
            if gene['biotype'] != 'protein_coding':
                continue
            for ti, tx in enumerate(gene['transcripts']):
                L = tx_len(tx)
                if L < 40:
                    continue
                nf = rng.random() < nf_p
                end_nf = rng.random() < nf_p
                cs = 0 if nf else rng.randint(0, max(0, min(30, L - 36)))
                frame = rng.choice([0, 1, 2]) if nf else 0
                avail = L - cs - frame
                ncod = avail // 3 if end_nf else rng.randint(8, max(8, (avail - 3) // 3))
                if ncod * 3 + (0 if end_nf else 3) > avail:
                    ncod = (avail - 3) // 3
                if ncod < 4:
                    continue
                if ti == 0:
                    prot = rand_protein(rng, ncod, bias)
                    if not nf:
                        prot = 'M' + prot[1:]
                    dna = backtranslate(rng, prot)
                    sec = []
                    if rng.random() < sec_p and ncod > 6:
                        for _k in range(rng.choice([1, 1, 2])):
                            k = rng.randint(2, ncod - 2)
                            p0 = cs + frame + 3 * k
                            gpos = [tx2g(gene, tx, p0 + d) for d in range(3)]
                            if abs(gpos[2] - gpos[0]) != 2:
                                continue      # a Sec codon split by an exon junction is not generated
                            dna = dna[:3 * k] + 'TGA' + dna[3 * k + 3:]
                            sec.append(p0)
                    if not end_nf:
                        dna += rng.choice(['TAA', 'TAG', 'TGA'])
                    _write_into(chrom, gene, tx['exons'], cs + frame, dna)
                    if not nf:
                        pass
                    tx['sec'] = sorted(set(sec))
                else:
                    # secondary isoform: find an ATG-initiated ORF in whatever sequence it has
                    world_tmp = {'chroms': {gene['chrom']: ''.join(chrom)}}
                    s = tx_seq(world_tmp, gene, tx)
                    if nf:
                        pass
                    else:
                        p = s.find('ATG')
                        if p < 0 or p > L - 30:
                            continue
                        cs = p
                        frame = 0
                    prot_t = translate(s[cs + frame:])
                    ncod = len(prot_t)
                    end_nf = (cs + frame + 3 * ncod + 3 > L)
                    if ncod < 4:
                        continue
                tx['cds'] = [cs + frame, cs + frame + 3 * ncod]
                tx['frame'] = frame
                tx['cds_feature_start'] = cs       # transcript coord where the CDS feature starts (frame bases included)
                if nf:
                    tx['tags'].append('cds_start_NF')
                if end_nf:
                    tx['tags'].append('mRNA_end_NF')
                tx['protein_id'] = 'ENSP' + tx['id'][4:]
            for tx in gene['transcripts']:
                tx['biotype'] = 'protein_coding' if tx['cds'] else rng.choice(['retained_intron', 'processed_transcript'])
        world['chroms'][cname] = ''.join(chrom)
        world['genes'] += genes
    # recompute sec lists for secondary isoforms: none (only designed ones carry Sec)
    return world

# ---------------------------------------------------------------- writers
def _attrs(gene, tx=None, extra=()):
    a = ['gene_id "%s"' % gene['id']]
    if tx:
        a.append('transcript_id "%s"' % tx['id'])
    a.append('gene_type "%s"' % gene['biotype'])
    a.append('gene_name "%s"' % gene['name'])
    if tx:
        a.append('transcript_type "%s"' % tx['biotype'])
        a.append('transcript_name "%s-%s"' % (gene['name'], tx['id'][-5:]))
        if tx.get('protein_id'):
            a.append('protein_id "%s"' % tx['protein_id'])
        for t in tx['tags']:
            a.append('tag "%s"' % t)
    a += list(extra)
    return '; '.join(a) + ';'

def _segments(gene, tx, a, b):
    """genomic segments [(s,e)] ascending covering transcript interval [a,b)"""
    if b <= a:
        return []
    gs = sorted(tx2g(gene, tx, i) for i in (a, b - 1))
    lo, hi = gs[0], gs[1] + 1
    out = []
    for s, e in tx['exons']:
        s2, e2 = max(s, lo), min(e, hi)
        if s2 < e2:
            out.append((s2, e2))
    return out

def gtf_lines(world):
    L = []
    for gene in world['genes']:
        st = '+' if gene['strand'] == 1 else '-'
        L.append('\t'.join([gene['chrom'], 'HAVANA', 'gene', str(gene['start'] + 1), str(gene['end']), '.', st, '.', _attrs(gene)]))
        for tx in gene['transcripts']:
            s0, e0 = tx['exons'][0][0], tx['exons'][-1][1]
            L.append('\t'.join([gene['chrom'], 'HAVANA', 'transcript', str(s0 + 1), str(e0), '.', st, '.', _attrs(gene, tx)]))
            n = tx_len(tx)
            for p in tx.get('sec', []):
                for s, e in _segments(gene, tx, p, p + 3)[:1]:
                    L.append('\t'.join([gene['chrom'], 'HAVANA', 'Selenocysteine', str(s + 1), str(e), '.', st, '.', _attrs(gene, tx)]))
            exs = tx['exons'] if gene['strand'] == 1 else list(reversed(tx['exons']))
            cds_segs = []
            if tx['cds']:
                cfs = tx.get('cds_feature_start', tx['cds'][0])
                cds_segs = _segments(gene, tx, cfs, tx['cds'][1])
            for k, (s, e) in enumerate(exs):
                L.append('\t'.join([gene['chrom'], 'HAVANA', 'exon', str(s + 1), str(e), '.', st, '.', _attrs(gene, tx, ['exon_number %d' % (k + 1)])]))
                for cs_, ce_ in cds_segs:
                    if s <= cs_ and ce_ <= e:
                        # phase: bases to skip to reach the next codon start
                        first_tx = g2tx(gene, tx, cs_ if gene['strand'] == 1 else ce_ - 1)
                        ph = (tx['cds'][0] - first_tx) % 3
                        L.append('\t'.join([gene['chrom'], 'HAVANA', 'CDS', str(cs_ + 1), str(ce_), '.', st, str(ph), _attrs(gene, tx, ['exon_number %d' % (k + 1)])]))
            if tx['cds'] and tx.get('utr'):
                cfs = tx.get('cds_feature_start', tx['cds'][0])
                for a, b in ((0, cfs), (tx['cds'][1], n)):
                    for s, e in _segments(gene, tx, a, b):
                        L.append('\t'.join([gene['chrom'], 'HAVANA', 'UTR', str(s + 1), str(e), '.', st, '.', _attrs(gene, tx)]))
    return L

def write_world(world, d, prefix=''):
    import os
    g = os.path.join(d, prefix + 'genome.fasta')
    with open(g, 'w') as f:
        for k, s in world['chroms'].items():
            f.write('>%s\n' % k)
            for i in range(0, len(s), 60):
                f.write(s[i:i + 60] + '\n')
    a = os.path.join(d, prefix + 'annotation.gtf')
    with open(a, 'w') as f:
        f.write('\n'.join(gtf_lines(world)) + '\n')
    p = os.path.join(d, prefix + 'proteome.fasta')
    with open(p, 'w') as f:
        for gene in world['genes']:
            for tx in gene['transcripts']:
                if tx['cds']:
                    prot = protein_of(world, gene, tx)
                    f.write('>%s|%s|%s|-|-|%s|%d\n%s\n' % (tx['protein_id'], tx['id'], gene['id'], gene['name'], len(prot), prot))
    return g, a, p
