"""Shared machinery of the C01/C02/C03 correspondence (callVariant vs Model/Spec.v).

  gen_case(rng, ...)      reference world + dense variant cluster in GENE coordinates + GVF rows
  tx_inputs(case, run)    per transcript: the oracle input x (records mapped gene -> transcript
                          with the generator's own ground truth, never with the repo's code)
  parse_header(h)         FASTA header -> entries (tx id, variant ids, orf id, index)
"""
import re
from harness.lib import gen_reference as G

NT = 'ACGT'
INTERESTING = set('KRPM*')

# ------------------------------------------------------------------ geometry (ground truth)
def tx_gene_span(gene, tx):
    """[a,b) of the transcript in gene coordinates"""
    s0, e0 = tx['exons'][0][0], tx['exons'][-1][1]
    if gene['strand'] == 1:
        return s0 - gene['start'], e0 - gene['start']
    return gene['end'] - e0, gene['end'] - s0

def map_record(gene, tx, gs, ge):
    """gene interval [gs,ge) -> ('exonic'|'bridging', ts, te) | ('intronic'|'spanning'|'outside', None, None)"""
    a, b = tx_gene_span(gene, tx)
    if gs < a or ge > b:
        return ('outside', None, None)
    t0 = G.g2tx(gene, tx, G.gene2g(gene, gs))
    t1 = G.g2tx(gene, tx, G.gene2g(gene, ge - 1))
    if t0 is None and t1 is None:
        return ('intronic', None, None)
    if t0 is None or t1 is None:
        return ('spanning', None, None)
    ts, te = t0, t1 + 1
    if te - ts == ge - gs:
        return ('exonic', ts, te)
    return ('bridging', ts, te)

# ------------------------------------------------------------------ variant clusters
def _centres(world, gene, tx):
    """interesting transcript positions with a tag"""
    s = G.tx_seq(world, gene, tx)
    L = len(s)
    out = []
    if tx['cds']:
        cs, ce = tx['cds']
        out += [('start', cs + d) for d in (-3, 0, 1, 3, 4, 6)]
        out += [('stop', ce + d) for d in (-4, -1, 0, 1, 2, 4)]
        for p in tx.get('sec', []):
            out += [('sec', p + d) for d in (-2, 0, 1, 2, 4)]
        prot = G.translate(s[cs:], set(tx.get('sec', [])), offset=cs)
        for i, a in enumerate(prot):
            if a in 'KRP':
                out += [('krp', cs + 3 * i + 1)] * 2
            elif a in 'MWDEFLC':
                out.append(('other', cs + 3 * i + 1))
    else:
        for m in re.finditer('ATG', s):
            out += [('atg', m.start() + d) for d in (0, 3, 6, 12)]
        out += [('nc', p) for p in range(3, L, 7)]
    # exon junctions (transcript coordinate of the first base of each later exon)
    off = 0
    exs = tx['exons'] if gene['strand'] == 1 else list(reversed(tx['exons']))
    for (a, b) in exs[:-1]:
        off += b - a
        out += [('junction', off + d) for d in (-2, -1, 0, 1)] * 2
    return [(t, p) for t, p in out if 0 <= p < L]

def _mut_base(rng, ref):
    return rng.choice([c for c in NT if c != ref])

def gen_variants(rng, world, gene, tx, n, spread=15):
    """n records in gene coordinates clustered around an interesting position of tx.
    returns (tag, [ (gs, ref, alt) ]) ; kinds SNV / MNV / insertion / deletion"""
    gseq = G.gene_seq(world, gene)
    glen = len(gseq)
    cents = _centres(world, gene, tx)
    tags = sorted(set(t for t, _ in cents))
    tag = rng.choice(tags)
    tag, tp = rng.choice([c for c in cents if c[0] == tag])
    gc = G.g2gene(gene, G.tx2g(gene, tx, tp))
    a, b = tx_gene_span(gene, tx)
    seen = set()
    out = []
    tries = 0
    while len(out) < n and tries < 200:
        tries += 1
        if rng.random() < 0.08:
            gs = rng.randrange(a, b)
        else:
            gs = gc + int(round(rng.gauss(0, spread / 2.0)))
        if not (0 <= gs < glen - 6):
            continue
        x = rng.random()
        if x < 0.5:
            ref = gseq[gs]; alt = _mut_base(rng, ref)
        elif x < 0.65:
            ref = gseq[gs]; alt = ref + ''.join(rng.choice(NT) for _ in range(rng.choice([1, 1, 2, 3, 4])))
        elif x < 0.82:
            k = rng.choice([1, 1, 2, 3, 4])
            ref = gseq[gs:gs + 1 + k]; alt = ref[0]
        else:
            k = rng.choice([2, 2, 3])
            ref = gseq[gs:gs + k]
            alt = ''.join(_mut_base(rng, c) if (i in (0, k - 1) or rng.random() < 0.5) else c for i, c in enumerate(ref))
        if not ref or gs + len(ref) > glen or ref == alt:
            continue
        key = (gs, ref, alt)
        if key in seen:
            continue
        seen.add(key)
        out.append(key)
    return tag, sorted(out)

def var_id(gs, ref, alt):
    kind = 'SNV' if len(ref) == len(alt) == 1 else ('INDEL' if (len(ref) == 1 or len(alt) == 1) else 'MNV')
    return '%s-%d-%s-%s' % (kind, gs + 1, ref, alt)

# ------------------------------------------------------------------ cases
def gen_case(rng, nvar=None, coding_p=0.75, max_genes=2):
    """one world, one clustered variant set on one gene (all isoforms that contain the records get a row)"""
    for _ in range(50):
        world = G.gen_world(rng, n_chrom=1, max_genes=max_genes, coding_p=coding_p, small=True,
                            sec_p=0.3, nf_p=0.2)
        cands = [(g, t) for g in world['genes'] for t in g['transcripts']
                 if G.tx_len(t) >= 40]
        if not cands:
            continue
        gene, tx = rng.choice(cands)
        n = nvar or rng.choice([1, 2, 2, 3, 3, 4, 4, 5, 5, 6, 7])
        tag, vs = gen_variants(rng, world, gene, tx, n)
        if not vs:
            continue
        rows = []
        for gs, ref, alt in vs:
            for t in gene['transcripts']:
                kind, _, _ = map_record(gene, t, gs, gs + len(ref))
                if kind == 'outside':
                    continue
                rows.append([gene['id'], gs + 1, var_id(gs, ref, alt), ref, alt, t['id'], gene['name']])
        if not rows:
            continue
        return {'world': world, 'gvf': rows, 'gene': gene['id'], 'target': tx['id'], 'tag': tag}
    raise RuntimeError('generator failed')

def gen_adjpair_case(rng, coding_p=0.85):
    """two SNVs on ADJACENT bases (p, p+1) -- obliged together, the tool merges them into an MNV under
    --max-adjacent-as-mnv 2 -- plus one or two more records STARTING at p (a second / third allele, or an indel
    anchored on p), plus 0-2 records nearby.  The extra alleles overlap the first SNV, so the pair's haplotype
    does not carry them, but they sit between the pair in the tool's sorted record list."""
    for _ in range(100):
        c = gen_case(rng, nvar=rng.choice([1, 1, 2]), coding_p=coding_p)
        world = c['world']; gene = find_gene(world, c['gene'])
        tx = next(t for t in gene['transcripts'] if t['id'] == c['target'])
        L = G.tx_len(tx)
        lo = (tx['cds'][0] + 4) if tx['cds'] else 4
        hi = (min(tx['cds'][1], L) - 4) if tx['cds'] else L - 6
        if hi - lo < 6:
            continue
        tp = rng.randint(lo, hi)
        g0 = G.g2gene(gene, G.tx2g(gene, tx, tp)); g1 = G.g2gene(gene, G.tx2g(gene, tx, tp + 1))
        if g1 != g0 + 1:
            continue
        gseq = G.gene_seq(world, gene)
        alts = [b for b in NT if b != gseq[g0]]
        rng.shuffle(alts)
        recs = [(g0, gseq[g0], alts[0]), (g1, gseq[g1], _mut_base(rng, gseq[g1])), (g0, gseq[g0], alts[1])]
        x = rng.random()
        if x < 0.35:
            recs.append((g0, gseq[g0], alts[2]))
        elif x < 0.7:
            recs.append((g0, gseq[g0], gseq[g0] + rng.choice(NT) * rng.choice([1, 2, 3])))
        elif g0 + 3 < len(gseq):
            recs.append((g0, gseq[g0:g0 + 3], gseq[g0]))
        have = set((r[1], r[3], r[4]) for r in c['gvf'])
        for gs, ref, alt in recs:
            if (gs + 1, ref, alt) in have:
                continue
            have.add((gs + 1, ref, alt))
            for t in gene['transcripts']:
                kind, _, _ = map_record(gene, t, gs, gs + len(ref))
                if kind != 'outside':
                    c['gvf'].append([gene['id'], gs + 1, var_id(gs, ref, alt), ref, alt, t['id'], gene['name']])
        c['tag'] = 'adjpair'
        return c
    raise RuntimeError('adjacent-pair generator failed')

def off_grid_mw(rng, bases=(0, 300, 500, 500, 700)):
    base = rng.choice(bases)
    min_mw = base + rng.randrange(0, 1000) / 1000.0 + 0.00005
    return min_mw, int(round((min_mw - 0.00005) * 10000))

def gen_run(rng, rule='trypsin', exc_on=False, sect=False, w2f=False):
    min_mw, mw4 = off_grid_mw(rng)
    extra = (['--selenocysteine-termination'] if sect else []) + (['--w2f-reassignment'] if w2f else [])
    return {'sect': bool(sect), 'w2f': bool(w2f), 'extra': extra, 'rule': rule, 'exc': ('trypsin_exception' if (exc_on and rule == 'trypsin') else 'None'),
            'k': rng.choice([0, 1, 2, 2, 3]), 'min_mw': min_mw, 'mw4': mw4,
            'min_len': rng.choice([4, 5, 7, 7]), 'max_len': rng.choice([15, 25, 25, 40]),
            'mvpn': -1, 'avpm': -1, 'mnc': 30, 'naa': 5}

# ------------------------------------------------------------------ fusion cases (exonic breakpoints)
def _snv_like(rng, gseq, gs):
    ref = gseq[gs]
    x = rng.random()
    if x < 0.6:
        return ref, _mut_base(rng, ref)
    if x < 0.8:
        return ref, ref + ''.join(rng.choice(NT) for _ in range(rng.choice([1, 2, 3])))
    k = rng.choice([1, 2, 3])
    return gseq[gs:gs + 1 + k], ref

def gen_fusion_case(rng, coding_p=0.8):
    """world with >= 2 genes, one fusion (donor transcript upstream part + acceptor transcript downstream
    part, both breakpoints exonic) and 0-5 SNV/INDEL records near the junction on either partner.
    case['fusions'] = [{id, donor_gene, donor_tx, bp, acc_gene, acc_tx, abp, row}]  (bp: donor bases kept,
    abp: first acceptor base kept, transcript coordinates); row = the GVF fields for the repo's writer"""
    for _ in range(200):
        world = G.gen_world(rng, n_chrom=1, max_genes=3, coding_p=coding_p, small=True, sec_p=0.2, nf_p=0.15)
        if len(world['genes']) < 2:
            continue
        gd, ga = rng.sample(world['genes'], 2)
        td = rng.choice(gd['transcripts']); ta = rng.choice(ga['transcripts'])
        Ld, La = G.tx_len(td), G.tx_len(ta)
        if Ld < 40 or La < 30:
            continue
        if td['cds']:
            lo = td['cds'][0] + 6
            hi = min(Ld - 1, td['cds'][1] + 6)
            if lo >= hi:
                continue
            bp = rng.randint(lo, hi)
        else:
            bp = rng.randint(12, Ld - 1)
        abp = rng.randint(1, La - 12)
        g_last = G.g2gene(gd, G.tx2g(gd, td, bp - 1))         # last donor base kept (gene coordinate)
        a_first = G.g2gene(ga, G.tx2g(ga, ta, abp))           # first acceptor base kept
        dseq = G.gene_seq(world, gd)
        if g_last + 1 >= len(dseq):
            continue
        pos0 = g_last + 1
        fid = 'FUSION-%s:%d-%s:%d' % (td['id'], pos0 + 1, ta['id'], a_first + 1)
        row = {'gene_id': gd['id'], 'start0': pos0, 'id': fid, 'ref': dseq[pos0], 'tx_id': td['id'], 'gene_symbol': gd['name'],
               'acc_gene_id': ga['id'], 'acc_tx_id': ta['id'], 'acc_pos0': a_first, 'acc_gene_symbol': ga['name']}
        rows = []
        seen = set()
        for gene, tx, centre in ((gd, td, bp - 1), (ga, ta, abp)):
            gseq = G.gene_seq(world, gene)
            for _k in range(rng.choice([0, 1, 1, 2, 3])):
                tp = centre + int(round(rng.gauss(0, 6)))
                if not (0 <= tp < G.tx_len(tx)):
                    continue
                gs = G.g2gene(gene, G.tx2g(gene, tx, tp))
                if gs + 5 >= len(gseq):
                    continue
                ref, alt = _snv_like(rng, gseq, gs)
                if (gene['id'], gs, ref, alt) in seen or ref == alt:
                    continue
                seen.add((gene['id'], gs, ref, alt))
                for t in gene['transcripts']:
                    kind, _, _ = map_record(gene, t, gs, gs + len(ref))
                    if kind != 'outside':
                        rows.append([gene['id'], gs + 1, var_id(gs, ref, alt), ref, alt, t['id'], gene['name']])
        return {'world': world, 'gvf': rows, 'gene': gd['id'], 'target': td['id'], 'tag': 'fusion',
                'fusions': [{'id': fid, 'donor_gene': gd['id'], 'donor_tx': td['id'], 'bp': bp,
                             'acc_gene': ga['id'], 'acc_tx': ta['id'], 'abp': abp, 'row': row}]}
    raise RuntimeError('fusion generator failed')

# ------------------------------------------------------------------ two Sec codons in one uncleaved stretch
def gen_twosec_case(rng):
    """single-isoform coding gene whose CDS is rewritten to carry TWO annotated Sec codons 3-6 residues apart
    with no K/R/P between them, plus an in-frame insertion / deletion between the two (and 0-2 SNVs nearby):
    the geometry in which a Sec truncation offset of one allele can leak to the other"""
    for _ in range(300):
        world = G.gen_world(rng, n_chrom=1, max_genes=2, coding_p=1.0, small=True, sec_p=0.0, nf_p=0.0, multi_iso_p=0.0)
        cands = [(g, g['transcripts'][0]) for g in world['genes']
                 if len(g['transcripts']) == 1 and g['transcripts'][0]['cds'] and not g['transcripts'][0]['tags']
                 and (g['transcripts'][0]['cds'][1] - g['transcripts'][0]['cds'][0]) // 3 >= 22]
        if not cands:
            continue
        gene, tx = rng.choice(cands)
        cs, ce = tx['cds']
        ncod = (ce - cs) // 3
        i = rng.randint(3, ncod - 14)
        gap = rng.choice([3, 4, 5, 6])
        j = i + gap + 1
        res = [rng.choice('ADEFGHILMNQSTVWY') for _ in range(gap + 8)]
        dna = [rng.choice(G.BACK[a]) for a in res]
        dna[2] = 'TGA'; dna[2 + gap + 1] = 'TGA'
        first = i - 2
        chrom = list(world['chroms'][gene['chrom']])
        G._write_into(chrom, gene, tx['exons'], cs + 3 * first, ''.join(dna))
        world['chroms'][gene['chrom']] = ''.join(chrom)
        secs = [cs + 3 * i, cs + 3 * j]
        if any(len(G._segments(gene, tx, p, p + 3)) != 1 for p in secs):
            continue
        tx['sec'] = secs
        if 'U' not in (G.protein_of(world, gene, tx) or ''):
            continue
        gseq = G.gene_seq(world, gene)
        rows, seen = [], set()
        tp = rng.randint(cs + 3 * i + 3, cs + 3 * j - 2)
        gs = G.g2gene(gene, G.tx2g(gene, tx, tp))
        if rng.random() < 0.5:
            ref, alt = gseq[gs], gseq[gs] + rng.choice(G.BACK[rng.choice('ADEFGHILMNQSTVWY')])
        else:
            ref, alt = gseq[gs:gs + 4], gseq[gs]
        if len(ref) == 4 and map_record(gene, tx, gs, gs + 4)[0] != 'exonic':
            continue
        recs = [(gs, ref, alt)]
        for _k in range(rng.choice([0, 1, 2])):
            tq = rng.randint(max(cs + 3, cs + 3 * i - 12), min(ce - 1, cs + 3 * j + 14))
            g2 = G.g2gene(gene, G.tx2g(gene, tx, tq))
            recs.append((g2, gseq[g2], _mut_base(rng, gseq[g2])))
        for gs_, ref_, alt_ in sorted(set(recs)):
            if map_record(gene, tx, gs_, gs_ + len(ref_))[0] != 'outside':
                rows.append([gene['id'], gs_ + 1, var_id(gs_, ref_, alt_), ref_, alt_, tx['id'], gene['name']])
        if rows:
            return {'world': world, 'gvf': rows, 'gene': gene['id'], 'target': tx['id'], 'tag': 'twosec'}
    raise RuntimeError('two-Sec generator failed')

# ------------------------------------------------------------------ oracle inputs
def find_gene(world, gid):
    return next(g for g in world['genes'] if g['id'] == gid)

def proteome(world):
    out = []
    for g in world['genes']:
        for t in g['transcripts']:
            if t['cds']:
                out.append([G.protein_of(world, g, t), 'cds_start_NF' in t['tags']])
    return out

def tx_records(case):
    """{tx_id: [ {id, s, e, alt, ok, kind} sorted by (s,e,id) ]} for the records mapped onto the transcript,
    plus {tx_id: [dropped ids]}"""
    world = case['world']
    by_tx, dropped = {}, {}
    for gene_id, pos1, vid, ref, alt, tx_id, _ in case['gvf']:
        gene = find_gene(world, gene_id)
        tx = next(t for t in gene['transcripts'] if t['id'] == tx_id)
        gs = pos1 - 1
        kind, ts, te = map_record(gene, tx, gs, gs + len(ref))
        if ts is None:
            dropped.setdefault(tx_id, []).append(vid)
            by_tx.setdefault(tx_id, [])
            continue
        by_tx.setdefault(tx_id, []).append({'id': vid, 's': ts, 'e': te, 'alt': alt, 'ok': kind == 'exonic', 'kind': kind})
    for k in by_tx:
        by_tx[k].sort(key=lambda r: (r['s'], r['e'], r['id']))
    return by_tx, dropped

def tx_input(case, tx_id, recs, run, prots=None):
    world = case['world']
    gene = next(g for g in world['genes'] if any(t['id'] == tx_id for t in g['transcripts']))
    tx = next(t for t in gene['transcripts'] if t['id'] == tx_id)
    s = G.tx_seq(world, gene, tx)
    coding = bool(tx['cds'])
    return [s, coding, tx['cds'][0] if coding else 0, 'cds_start_NF' in tx['tags'], 'mRNA_end_NF' in tx['tags'],
            list(tx.get('sec', [])) if coding else [],
            [[r['s'], r['e'], r['alt'], r['ok']] for r in recs],
            run['rule'], (run['exc'] if run['exc'] != 'None' else None),
            [run['k'], run['mw4'], run['min_len'], run['max_len']],
            prots if prots is not None else proteome(world)]

# ------------------------------------------------------------------ headers
def parse_header(h):
    """'<tx>|<var>|...|<index>' entries separated by one space -> list of dicts"""
    out = []
    for ent in h.split(' '):
        f = ent.split('|')
        idx = None
        if f and re.fullmatch(r'\d+', f[-1]):
            idx = int(f[-1]); f = f[:-1]
        tx = f[0] if f else ''
        ids, orf, other, alts = [], None, [], []
        for x in f[1:]:
            if re.fullmatch(r'ORF\d+', x):
                orf = x
            elif re.match(r'(SNV|INDEL|MNV|RES)-', x):
                ids.append(x)
            elif re.fullmatch(r'(SECT|W2F)-\d+', x):
                alts.append(x)          # generated alt-translation identifiers
            else:
                other.append(x)
        out.append({'entry': ent, 'tx': tx, 'ids': ids, 'orf': orf, 'index': idx, 'other': other, 'alts': alts})
    return out
