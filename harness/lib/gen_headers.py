"""Generator of variant-peptide FASTA header entries of every label kind, with ground truth.

An entry is a dict:
  text   : the entry as written in the FASTA header
  kind   : 'base' | 'novel' | 'circ' | 'fusion'
  txs    : transcript ids the entry is about (fusion: donor, accepter; circ: the host transcript)
  gene   : gene id of the first transcript
  vars   : list of (gene_id, variant_id) the entry carries (incl. the fusion / circRNA id itself)
  splice : True iff it carries an alternative-splicing (rMATS type) variant
  orf    : ORF id or None
  emitted_form : True iff the fields are in the order the callers emit them (ORF id after the variant
           ids); False only for circRNA/fusion entries written with the ORF id first
Used by C18 and C19.
"""

NUC = 'ACGT'
SPLICE_TYPES = ['SE', 'RI', 'A3SS', 'A5SS', 'MXE']

def world_txs(world):
    """[(tx_id, gene_id, is_coding)]"""
    out = []
    for g in world['genes']:
        for t in g['transcripts']:
            out.append((t['id'], g['id'], bool(t['cds'])))
    return out

def gen_variant_id(rng, kind=None):
    """Variant ids in the shapes the parsers really produce:
         VEPParser            f'{_type}-{alt_start + 1}-{ref}-{alt}'   (SNV / INDEL / MNV)
         REDItoolsParser      f'RES-{position + 1}-{ref}-{alt}'
         RMATSParser          SE_{uee}-{es}-{ee}-{des}, A5SS_{a}-{b}-{c} (A3SSRecord prints the A5SS_ prefix too),
                              MXE_{6 numbers}, RI_{start}-{end}
         VariantRecord        SECT-{n}, W2F-{n}
    """
    kind = kind or rng.choice(['SNV', 'SNV', 'INDEL', 'MNV', 'RES', 'SE', 'RI', 'A5SS', 'MXE', 'W2F', 'SECT'])
    p = rng.randint(1, 3000)
    if kind == 'SNV':
        a = rng.choice(NUC); b = rng.choice([x for x in NUC if x != a])
        return 'SNV-%d-%s-%s' % (p, a, b)
    if kind == 'RES':
        return 'RES-%d-A-G' % p
    if kind == 'INDEL':
        a = rng.choice(NUC)
        ins = ''.join(rng.choice(NUC) for _ in range(rng.randint(1, 4)))
        return 'INDEL-%d-%s-%s' % ((p, a + ins, a) if rng.random() < 0.5 else (p, a, a + ins))
    if kind == 'MNV':
        n = rng.randint(2, 3)
        return 'MNV-%d-%s-%s' % (p, ''.join(rng.choice(NUC) for _ in range(n)), ''.join(rng.choice(NUC) for _ in range(n)))
    if kind == 'SE':
        return 'SE_%d-%d-%d-%d' % (p, p + 40, p + 90, p + 150)
    if kind == 'RI':
        return 'RI_%d-%d' % (p, p + rng.randint(5, 80))
    if kind in ('A3SS', 'A5SS'):
        return 'A5SS_%d-%d-%d' % (p, p + rng.randint(3, 30), p + 100)
    if kind == 'MXE':
        return 'MXE_%d-%d-%d-%d-%d-%d' % (p, p + 40, p + 80, p + 120, p + 160, p + 200)
    if kind == 'W2F':
        return 'W2F-%d' % rng.randint(1, 300)
    if kind == 'SECT':
        return 'SECT-%d' % rng.randint(1, 300)
    raise ValueError(kind)

def is_splice_id(v):
    return v.split('_')[0] in SPLICE_TYPES and '_' in v

def gen_entry(rng, txs, kinds=None, orf_order='mixed', allow_alt=True, var_kinds=None):
    """txs: world_txs(world).  orf_order: 'emitted' (ORF id appended after the variant ids, as the callers
    emit it), 'first' (circRNA/fusion: ORF id right after the backbone id) or 'mixed'."""
    kinds = kinds or ['base', 'base', 'base', 'base_orf', 'novel', 'alt', 'circ', 'circ', 'fusion', 'fusion']
    kind = rng.choice(kinds)
    tx, gene, coding = rng.choice(txs)
    idx = rng.choice([1, 1, 2, 3, 5, 9, 10, 11, 12, 21, 25, 113])
    def vids(n_lo, n_hi, alt_ok=True):
        ks = var_kinds or ['SNV', 'SNV', 'INDEL', 'MNV', 'RES', 'SE', 'RI', 'A5SS', 'MXE']
        out = [gen_variant_id(rng, rng.choice(ks)) for _ in range(rng.randint(n_lo, n_hi))]
        alts = []
        if alt_ok and allow_alt and rng.random() < 0.25:
            alts = [gen_variant_id(rng, rng.choice(['W2F', 'SECT']))]
        return out, alts
    emitted = (orf_order == 'emitted') or (orf_order == 'mixed' and rng.random() < 0.5)
    if kind in ('base', 'base_orf'):
        vs, alts = vids(1, 3)
        orf = 'ORF%d' % rng.randint(1, 5) if kind == 'base_orf' else None
        fields = [tx] + vs + alts + ([orf] if orf else []) + [str(idx)]
        return dict(text='|'.join(fields), kind='base', txs=[tx], gene=gene, vars=[(gene, v) for v in vs + alts],
                    splice=any(is_splice_id(v) for v in vs), orf=orf, emitted_form=True)
    if kind == 'alt':
        # callAltTranslation: only alt-translation ids on a coding transcript
        alts = [gen_variant_id(rng, rng.choice(['W2F', 'SECT'])) for _ in range(rng.randint(1, 2))]
        fields = [tx] + alts + [str(idx)]
        return dict(text='|'.join(fields), kind='base', txs=[tx], gene=gene, vars=[(gene, v) for v in alts],
                    splice=False, orf=None, emitted_form=True)
    if kind == 'novel':
        alts = [gen_variant_id(rng, rng.choice(['W2F', 'SECT']))] if (allow_alt and rng.random() < 0.3) else []
        orf = 'ORF%d' % rng.randint(1, 9)
        fields = [tx, gene] + alts + [orf, str(idx)]
        return dict(text='|'.join(fields), kind='novel', txs=[tx], gene=gene, vars=[(gene, v) for v in alts],
                    splice=False, orf=orf, emitted_form=True)
    if kind == 'circ':
        # CIRCexplorerParser: f"CIRC-{tx_id}-{start_gene}:{end_gene}"; the circRNA caller never assigns ORF ids
        a = rng.randint(0, 500)
        if rng.random() < 0.7:
            cid = 'CIRC-%s-%d:%d' % (tx, a, a + rng.randint(20, 400))
        else:
            # circularised intron (intron lariat): VariantPrefix.CI, 'CI-<tx>-I<n>' (moPepGen/fake.py, is_circ_rna())
            cid = 'CI-%s-I%d' % (tx, rng.randint(1, 6))
        vs, alts = vids(0, 2) if rng.random() < 0.6 else ([], [])
        vs = [v for v in vs if not is_splice_id(v)]
        body = vs + alts
        fields = [cid] + body + [str(idx)]
        return dict(text='|'.join(fields), kind='circ', txs=[tx], gene=gene, vars=[(gene, cid)] + [(gene, v) for v in body],
                    splice=False, orf=None, emitted_form=True)
    if kind == 'fusion':
        tx2, gene2, _ = rng.choice(txs)
        fid = 'FUSION-%s:%d-%s:%d' % (tx, rng.randint(1, 900), tx2, rng.randint(1, 900))
        v1, _a = vids(0, 2, alt_ok=False) if rng.random() < 0.6 else ([], [])
        v2, _a = vids(0, 1, alt_ok=False) if rng.random() < 0.4 else ([], [])
        v1 = [v for v in v1 if not is_splice_id(v)]
        v2 = [v for v in v2 if not is_splice_id(v)]
        v0 = [gen_variant_id(rng, rng.choice(['W2F', 'SECT']))] if (allow_alt and rng.random() < 0.2) else []
        orf = 'ORF%d' % rng.randint(1, 5) if rng.random() < 0.4 else None
        body = ['1-' + v for v in v1] + ['2-' + v for v in v2] + v0
        if orf and emitted:
            fields = [fid] + body + [orf, str(idx)]
        else:
            fields = [fid] + ([orf] if orf else []) + body + [str(idx)]
        em = bool(emitted or not (orf and body))
        return dict(text='|'.join(fields), kind='fusion', txs=[tx, tx2], gene=gene, gene2=gene2,
                    vars=[(gene, fid)] + [(gene, v) for v in v1 + v0] + [(gene2, v) for v in v2],
                    v1=v1, v2=v2, v0=v0, fusion_id=fid,
                    splice=False, orf=orf, emitted_form=em)
    raise ValueError(kind)

def gen_header(rng, txs, n=None, **kw):
    """a header: 1-4 distinct entries"""
    n = n or rng.choice([1, 1, 2, 2, 3, 4])
    out, seen = [], set()
    for _ in range(n * 3):
        e = gen_entry(rng, txs, **kw)
        if e['text'] in seen:
            continue
        seen.add(e['text'])
        out.append(e)
        if len(out) == n:
            break
    return out


def near_duplicate(rng, e):
    """an entry textually related to e: the same label with the index cut to its first digit (|11 -> |1: a
    substring of e's text), the same label with a longer index (e's text is a substring of it), or e itself"""
    d = dict(e)
    head, _, idx = e['text'].rpartition('|')
    r = rng.random()
    if len(idx) >= 2 and r < 0.6:
        d['text'] = head + '|' + idx[0]
    elif r < 0.8:
        d['text'] = head + '|' + idx + str(rng.randint(0, 9))
    return d
