"""Graph-stage correspondence (stream 'graph' of C02; docs/absgraph.md).

The real callVariant is run with --graph-output-dir (harness/impl/cvgraph.py); the dumped transcript variant graph
(TVG) and peptide variant graph (PVG) of every transcript, plus the snapshots taken with the repo's own jsonfy()
between the stages, are converted to the encoding of coq/Model/AbsGraph.v and checked with the EXTRACTED Coq
functions (coq/Extract/Api_AbsGraph.v):

  stage tvg-bubbles  (after create_variant_graph)  } every start-to-sink path of a reading frame, labelled with the
  stage tvg-aligned  (after fit_into_codons = the  }   record ids H, spells Spec.apply_hap tx H minus the frame offset
                      dumped *_main_TVG.json)      }   (soundness of bubbles); every haplotype of Spec.must_haps is
                                                       spelled by some path (completeness of bubbles)
  stage translate    (return value of translate()) the peptide language is exactly the codon-wise translation of the
                                                   DNA language, variant set by variant set; U only at annotated Sec
  stage cleave       (after create_cleavage_graph) the STRING language is unchanged; along every path the node
                                                   boundaries are the rule's cleavage sites of the path string (plus
                                                   both sides of every '*')
  stage final        (the dumped *_main_PVG.json)  equal to the graph after cleavage (else checked like stage cleave)

A stage failure is a C02-type (a path that should not exist) or C01-type (a path that is missing) deviation LOCALISED
to the stage.  It is reported as a VIOLATION only when an output-level failure of the same run corroborates it (the
properties speak about the final peptide set: see run_batch / judge_outputs); otherwise it is counted as a stage anomaly.

Round 2: (1) at stage tvg-bubbles the real graph is also compared with the MODEL graph  lang (add_bubbles tx records)
(api ag_bubbles; theorem add_bubbles_lang says that language is the haplotype set); (2) fusion graphs
(<tx>_Fusion_<id>_*.json), circRNA graphs (<tx>_circRNA_<id>_*.json) and the main graphs of transcripts carrying
alternative-splicing records are judged on the derived backbones of SpecFusion.fuse_gen / SpecAS.as_apply_all /
SpecCirc.circ_linear (requests_for_ext; strings only, labels are not compared); known findings are recognised by the
preconditions of the output-level signatures (ext_tags), never wider.

What the dump cannot tell (jsonfy omits it): the `truncated`, `cleavage`, `npop_collapsed` flags of PVG nodes and the
shared stop sink.  Consequence: with node collapsing active (--min-nodes-to-collapse reached) the engine re-splits
merged nodes at non-site positions (pop_collapse_end_nodes) and marks them with flags the dump does not show; the
boundary check is therefore STRICT (boundaries = sites) only in runs with collapsing disabled (mnc = 10**6) and
"every site is a boundary" otherwise (extras are counted).
"""
import collections, json, time
from harness.lib import oracle as O, impl as I, cvgen as CG, cvcheck as CK

MAX_PATHS = 5000
NO_COLLAPSE = 10 ** 6
STAGES = ('tvg-bubbles', 'tvg-aligned', 'translate', 'cleave', 'final')
F_D14, F_D14B = 'D14', 'D14b-lookbehind'

# ------------------------------------------------------------------ conversion
def to_abs(gr, idmap=None):
    """jsonfy() output -> (nodes [[id, label, vids, succs]] topologically renumbered from the root (id 0),
    {rf_index: [start ids]} for the children of the root, path counts per node)"""
    nodes = {n['index']: n for n in gr['nodes']}
    succ = collections.defaultdict(list)
    for e in gr['edges']:
        if e['source'] in nodes and e['target'] in nodes and e['target'] not in succ[e['source']]:
            succ[e['source']].append(e['target'])
    root = gr['nodes'][0]['index'] if gr['nodes'] else 0
    # depth-first post-order from the root -> reverse = topological order
    order, seen, stack = [], set(), [(root, iter(succ[root]))]
    seen.add(root)
    onstack = {root}
    cyclic = False
    while stack:
        v, it = stack[-1]
        nxt = next(it, None)
        if nxt is None:
            order.append(v); stack.pop(); onstack.discard(v)
        elif nxt in onstack:
            cyclic = True
        elif nxt not in seen:
            seen.add(nxt); onstack.add(nxt); stack.append((nxt, iter(succ[nxt])))
    order.reverse()
    new = {v: i for i, v in enumerate(order)}
    out = []
    for v in order:
        n = nodes[v]
        ids = [(idmap.get(x, -1) if idmap is not None else 0) for x in n.get('variants', [])]
        out.append([new[v], n.get('seq') or '', sorted(ids), sorted(new[w] for w in succ[v])])
    cnt = {}
    for v in reversed(order):
        cnt[new[v]] = 1 if not succ[v] else sum(cnt[new[w]] for w in succ[v])
    starts = collections.defaultdict(list)
    for w in succ[root]:
        starts[nodes[w].get('rf_index')].append(new[w])
    return {'nodes': out, 'starts': {k: sorted(v) for k, v in starts.items()}, 'count': cnt, 'cyclic': cyclic}

def npaths(ag, starts):
    return sum(ag['count'].get(s, 0) for s in starts)

# ------------------------------------------------------------------ one (case, run, transcript)
def _tx(case, tx_id):
    return CK._tx_of(case, tx_id)

def frames_of(case, tx_id):
    g, t = _tx(case, tx_id)
    return [t['cds'][0] % 3] if t['cds'] else [0, 1, 2]

def requests_for(case, run, tx_id, gs, recs, stats):
    """oracle requests for the graphs of one transcript: list of ((api, value), meta)"""
    g, t = _tx(case, tx_id)
    coding = bool(t['cds'])
    x = CG.tx_input(case, tx_id, recs, run, prots=[])
    idmap = {r['id']: i for i, r in enumerate(recs)}
    strict = int(run.get('mnc', 30)) >= NO_COLLAPSE
    need = ('tvg_raw', 'tvg_dump', 'pvg_tr', 'pvg_cl', 'pvg_dump')
    if any(k not in gs for k in need):
        stats['graphs_incomplete'] += 1
        return [(None, {'stage': 'dump', 'tx': tx_id, 'problem': 'stage graph(s) missing: %s' % [k for k in need if k not in gs]})]
    A = {k: to_abs(gs[k], idmap) for k in need}
    if any(a['cyclic'] for a in A.values()):
        return [(None, {'stage': 'dump', 'tx': tx_id, 'problem': 'a dumped graph has a cycle'})]
    if 'tvg_fit' in gs:
        stats['tvg_dump_equals_snapshot' if gs['tvg_fit'] == gs['tvg_dump'] else 'tvg_dump_differs_from_snapshot'] += 1
    same_final = gs['pvg_cl'] == gs['pvg_dump']
    stats['pvg_dump_equals_cleaved' if same_final else 'pvg_dump_differs_from_cleaved'] += 1
    reqs = []
    for f in frames_of(case, tx_id):
        st = {k: A[k]['starts'].get(f, []) for k in need}
        n = max(npaths(A[k], st[k]) for k in need)
        if n > MAX_PATHS:
            stats['skipped_too_many_paths'] += 1
            continue
        stats['frames_checked'] += 1
        stats['paths_max_per_frame:%s' % ('<=10' if n <= 10 else '<=100' if n <= 100 else '<=1000' if n <= 1000 else '<=5000')] += 1
        meta = {'tx': tx_id, 'frame': f, 'strict': strict, 'coding': coding}
        reqs.append((('ag_tvg', [x, A['tvg_raw']['nodes'], st['tvg_raw'], f, True]), dict(meta, stage='tvg-bubbles', kind='tvg')))
        reqs.append((('ag_bubbles', [x, A['tvg_raw']['nodes'], st['tvg_raw'], f]), dict(meta, stage='tvg-bubbles', kind='bb')))
        reqs.append((('ag_tvg', [x, A['tvg_dump']['nodes'], st['tvg_dump'], f, True]), dict(meta, stage='tvg-aligned', kind='tvg')))
        reqs.append((('ag_translate', [x, A['tvg_dump']['nodes'], st['tvg_dump'], A['pvg_tr']['nodes'], st['pvg_tr'], f, coding]),
                     dict(meta, stage='translate', kind='tr')))
        reqs.append((('ag_cleave', [run['rule'], (run['exc'] if run['exc'] != 'None' else None),
                                    A['pvg_tr']['nodes'], st['pvg_tr'], A['pvg_cl']['nodes'], st['pvg_cl']]),
                     dict(meta, stage='cleave', kind='cl')))
        if not same_final:
            reqs.append((('ag_cleave', [run['rule'], (run['exc'] if run['exc'] != 'None' else None),
                                        A['pvg_cl']['nodes'], st['pvg_cl'], A['pvg_dump']['nodes'], st['pvg_dump']]),
                         dict(meta, stage='final', kind='cl')))
    return reqs

# ------------------------------------------------------------------ graphs on derived backbones (fusion / AS / circRNA)
F_FUSJUNC, F_FUSDEL2, F_ASDONOR = CK.F_FUSJUNC, CK.F_FUSDEL2, 'C02-as-donor-record'
MAX_EXT_RECORDS = 10          # 2^n record subsets are enumerated by bubble_spec (circRNA: 4 copies of every record, i.e. <= 2 records)

def _plain_idmap(*graphs):
    ids = sorted(set(v for g in graphs for n in g['nodes'] for v in n.get('variants', [])))
    return {v: i for i, v in enumerate(ids)}

def _frames_ext(case, tx_id, kind, gs):
    if kind == 'circRNA':
        return [0, 1, 2]
    return frames_of(case, tx_id)

def requests_for_ext(case, run, key, gs, by_tx, stats):
    """stage requests for the graph `key` of a case carrying fusion / AS / circRNA records.
    key = '<tx>' (main graph of a transcript with AS records), '<tx>|Fusion|<id>' or '<tx>|circRNA|<id>'"""
    from harness.lib import cvgen2 as CG2
    parts = key.split('|')
    tx_id, kind, vid = parts[0], (parts[1] if len(parts) > 1 else 'AS'), (parts[2] if len(parts) > 2 else None)
    need = ('tvg_raw', 'tvg_dump', 'pvg_tr', 'pvg_cl', 'pvg_dump')
    if any(k not in gs for k in need):
        stats['ext_graphs_incomplete'] += 1      # e.g. a fusion whose breakpoint lies before the start codon: no graph is built
        return []
    idmap = _plain_idmap(*[gs[k] for k in need])
    A = {k: to_abs(gs[k], idmap) for k in need}
    if any(a['cyclic'] for a in A.values()):
        return [(None, {'stage': 'dump', 'tx': key, 'problem': 'a dumped graph has a cycle'})]
    strict = int(run.get('mnc', 30)) >= NO_COLLAPSE
    rule, exc = run['rule'], (run['exc'] if run['exc'] != 'None' else None)
    same_final = gs['pvg_cl'] == gs['pvg_dump']
    stats['ext_pvg_dump_equals_cleaved' if same_final else 'ext_pvg_dump_differs_from_cleaved'] += 1
    # the backbone semantics
    sem = None
    if kind == 'Fusion':
        f = next((f for f in case.get('fusions', []) if f['id'] == vid), None)
        if f is not None:
            a = CK.fusion_args(case, f, run, by_tx, prots=[])
            nrec = len(a[0][6]) + len(a[3]) + len(a[4][6])
            sem = ('ag_ext_fusion', a, nrec, f)
    elif kind == 'circRNA':
        recs = [r for r in case.get('circ_records', []) if r['tx'] == tx_id]
        cks = CG2.circ_inputs(case, tx_id, run, prots=[])
        for r, ck in zip(recs, cks):
            if r['row']['id'] == vid:
                sem = ('ag_ext_circ', [ck], 4 * len(ck[2]), r)
    else:
        asr = CG2.as_inputs(case, tx_id)
        x = CG.tx_input(case, tx_id, by_tx.get(tx_id, []), run, prots=[])
        nrec = len(x[6]) + sum(len(r[3]) for r in asr)
        sem = ('ag_ext_as', [x, asr], nrec, asr)
    reqs = []
    for fr in _frames_ext(case, tx_id, kind, gs):
        st = {k: A[k]['starts'].get(fr, []) for k in need}
        n = max(npaths(A[k], st[k]) for k in need)
        if n > MAX_PATHS or n == 0:
            stats['ext_skipped_too_many_paths' if n else 'ext_frame_absent'] += 1
            continue
        stats['ext_frames_checked:' + kind] += 1
        donor_ids = set()
        if kind == 'AS':
            rows = [r_ for r_ in case.get('as_records', []) if r_['tx'] == tx_id]
            donor_ids = set(r_['row']['id'] for r_, a_ in zip(rows, sem[3]) if a_[2] and a_[3])
        meta = {'tx': key, 'frame': fr, 'strict': strict, 'coding': False, 'ext': kind, 'sem': sem,
                'idnames': sorted(idmap, key=lambda v: idmap[v]), 'donor_ids': donor_ids}
        if sem is not None and sem[2] <= MAX_EXT_RECORDS:
            for stage, gk in (('tvg-bubbles', 'tvg_raw'), ('tvg-aligned', 'tvg_dump')):
                if sem[0] == 'ag_ext_as':
                    arg = sem[1] + [A[gk]['nodes'], st[gk], fr, bool(run.get('linear_must', True))]
                else:
                    arg = sem[1] + [A[gk]['nodes'], st[gk], fr]
                reqs.append(((sem[0], arg), dict(meta, stage=stage, kind='ext')))
        else:
            stats['ext_backbone_check_skipped:' + kind] += 1
        reqs.append((('ag_translate_plain', [A['tvg_dump']['nodes'], st['tvg_dump'], A['pvg_tr']['nodes'], st['pvg_tr'], len(idmap)]),
                     dict(meta, stage='translate', kind='trp')))
        reqs.append((('ag_cleave', [rule, exc, A['pvg_tr']['nodes'], st['pvg_tr'], A['pvg_cl']['nodes'], st['pvg_cl']]),
                     dict(meta, stage='cleave', kind='cl')))
        if not same_final:
            reqs.append((('ag_cleave', [rule, exc, A['pvg_cl']['nodes'], st['pvg_cl'], A['pvg_dump']['nodes'], st['pvg_dump']]),
                         dict(meta, stage='final', kind='cl')))
    return reqs

def ext_tags(case, run, meta, strings, by_tx):
    """known-finding signatures for strings of an ext graph that no permitted backbone spells (never wider than
    the output-level signatures of cvcheck / cvsig2)"""
    kind, sem = meta['ext'], meta['sem']
    tags = [None] * len(strings)
    if kind == 'Fusion' and sem is not None:
        f = sem[3]
        from harness.lib import cvgen_fus as CF
        fi = CF.fusion_inputs(case, f)
        dr = by_tx.get(f['donor_tx'], []); ar = by_tx.get(f['acc_tx'], [])
        bp, abp = fi['bp'], fi['abp']
        near = [r for r in dr if len(r['alt']) != r['e'] - r['s'] and bp - 3 <= r['e'] <= bp + 3] + \
               [r for r in ar if len(r['alt']) != r['e'] - r['s'] and abp - 3 <= r['s'] <= abp + 3]
        if near and not fi['mid']:
            a = sem[1]
            oks = O.call('ag_ext_fusion_moved', [a[0], bp, a[4], abp, meta['frame'], strings])
            tags = [F_FUSJUNC if ok else t for ok, t in zip(oks, tags)]
        if CK.fusion_fs_coupling(case, f, by_tx):
            tags = [t or F_FUSDEL2 for t in tags]
    elif kind == 'AS' and sem is not None:
        # an <INS>/<SUB> record whose donor segment carries small records (coarse tier of C02-as-donor-record)
        if any(r[2] and r[3] for r in sem[3]):
            tags = [F_ASDONOR] * len(strings)
    return tags

def _ids(recs, idx):
    return [recs[i]['id'] if 0 <= i < len(recs) else '?%d' % i for i in idx]

def interpret(meta, out, recs, run, stats):
    """oracle reply -> list of (what, finding or None, ctype)"""
    res = []
    stage, f = meta['stage'], meta['frame']
    where = 'stage %s, transcript %s, reading frame %d' % (stage, meta['tx'], f)
    if isinstance(out, str):
        return [('oracle error %s at %s' % (out[:120], where), None, 'C02')]
    if not out[0]:
        if meta['kind'] == 'bb':
            stats['model_side_conditions_failed'] += 1      # records not sorted / outside the transcript: model not applicable
            return []
        return [('graph of %s is not a topologically numbered DAG (conversion failed)' % where, None, 'C02')]
    if meta['kind'] == 'tvg':
        stats['paths:' + stage] += out[1]
        for lab, ids in out[2]:
            res.append(('%s: the path carrying the records %s spells ...%s (%d nt), which is not the transcript carrying exactly these records (Spec.apply_hap) [C02-type: a path that no haplotype explains]' % (
                where, _ids(recs, ids), O.U(lab)[-40:], len(lab)), None, 'C02'))
        for m in out[3]:
            res.append(('%s: no path spells the transcript carrying the obliged haplotype %s [C01-type: missing path]' % (
                where, [recs[i]['id'] for i, b in enumerate(m) if b]), None, 'C01'))
    elif meta['kind'] == 'bb':
        # the real graph against the MODEL algorithm add_bubbles (theorem add_bubbles_lang: its language is the haplotype set)
        stats['model_words'] += out[2]
        stats['model_words_not_in_real_unobliged'] += out[5]
        stats['model_equals_real' if (not out[3] and not out[4] and not out[5]) else 'model_superset_of_real' if (not out[3] and not out[4]) else 'model_DIFFERS'] += 1
        for lab, ids in out[3]:
            res.append(('%s: the path carrying %s (...%s, %d nt) is not a word of the model graph add_bubbles(transcript, records) [C02-type: a path the bubble algorithm cannot produce]' % (
                where, _ids(recs, ids), O.U(lab)[-30:], len(lab)), None, 'C02'))
        for lab, ids in out[4]:
            res.append(('%s: the model graph add_bubbles spells the obliged haplotype %s, the real graph does not [C01-type: missing path]' % (
                where, _ids(recs, ids)), None, 'C01'))
    elif meta['kind'] == 'trp':
        stats['paths:' + stage] += out[2]
        names = meta.get('idnames', [])
        def tag_of(ids):
            # C02-as-donor-record: the path carries an <INS>/<SUB> record whose donor segment holds small records
            # (the output-level coarse tier: "reported under a header naming such a record")
            on_path = set(names[i] for i in ids if 0 <= i < len(names))
            return F_ASDONOR if (on_path & meta.get('donor_ids', set())) else None
        for lab, ids in out[3]:
            res.append(('%s: the peptide path %s...%s carrying %s is not the codon-wise translation of any DNA path with the same records [C02-type]' % (
                where, O.U(lab)[:12], O.U(lab)[-25:], sorted(set(names[i] for i in ids if 0 <= i < len(names)))), tag_of(ids), 'C02'))
        for lab, ids in out[4]:
            res.append(('%s: the DNA path carrying %s (%d nt) has no peptide path spelling its translation [C01-type: missing path]' % (
                where, sorted(set(names[i] for i in ids if 0 <= i < len(names))), len(lab)), tag_of(ids), 'C01'))
    elif meta['kind'] == 'tr':
        stats['paths:' + stage] += out[2]
        for lab, ids in out[3]:
            res.append(('%s: the peptide path %s...%s carrying %s is not the codon-wise translation of any DNA path with the same records [C02-type]' % (
                where, O.U(lab)[:12], O.U(lab)[-25:], _ids(recs, ids)), None, 'C02'))
        for lab, ids in out[4]:
            res.append(('%s: the DNA path carrying %s (%d nt) has no peptide path spelling its translation [C01-type: missing path]' % (
                where, _ids(recs, ids), len(lab)), None, 'C01'))
        for lab, ids in out[5]:
            res.append(('%s: U in the peptide path carrying %s at a position that is not an annotated Sec codon of that haplotype [C02-type]' % (
                where, _ids(recs, ids)), None, 'C02'))
        for lab, ids in out[6]:
            res.append(('%s: the annotated Sec codon is not read as U on the path carrying %s although no record lies within one codon of it [C01-type]' % (
                where, _ids(recs, ids)), None, 'C01'))
    else:
        stats['paths:' + stage] += out[2]
        for s in out[3]:
            res.append(('%s: the peptide string ...%s (%d aa) of the graph before this stage is spelled by no path after it [C01-type: path lost]' % (
                where, O.U(s)[-30:], len(s)), None, 'C01'))
        for s in out[4]:
            res.append(('%s: the string ...%s (%d aa) is spelled by a path after this stage but by none before it [C02-type: path invented]' % (
                where, O.U(s)[-30:], len(s)), None, 'C02'))
        for k, c in enumerate(out[5]):
            stats['%s_paths_verdict:%s' % (stage, ('exact', 'superset', 'soft-site', 'exception-site', 'UNEXPLAINED')[k])] += c
        seen = set()
        for v, labs in out[6]:
            labs = [O.U(l) for l in labs]
            if v == 1 and not meta['strict']:
                continue                       # collapsing active: extra boundaries are expected (pop-collapsed nodes)
            if v in seen:
                continue
            seen.add(v)
            tag = {2: F_D14B, 3: F_D14}.get(v)
            what = {1: 'node boundaries that are NOT cleavage sites although node collapsing is disabled',
                    2: 'node boundaries differ from the cleavage sites only at sites that depend on a look-behind residue',
                    3: 'node boundaries differ from the cleavage sites only at / next to exception-suppressed sites',
                    4: 'node boundaries are not the cleavage sites of the path string (a site is not a boundary)'}[v]
            res.append(('%s: %s; path nodes %s (rule %s, exception %s) [%s]' % (
                where, what, '|'.join(labs)[-120:], run['rule'], run['exc'],
                'C02-type: an uncut / wrongly cut peptide' if v != 1 else 'C02-type'), tag, 'C02'))
    return res

# ------------------------------------------------------------------ batch
def _oracle_parallel(reqs, jobs):
    from concurrent.futures import ThreadPoolExecutor
    if not reqs:
        return []
    jobs = max(1, min(jobs, len(reqs)))
    # round-robin so that the heavy graphs are spread over the processes
    chunks = [reqs[i::jobs] for i in range(jobs)]
    with ThreadPoolExecutor(jobs) as ex:
        res = list(ex.map(O.call_many, chunks))
    out = [None] * len(reqs)
    for j, r in enumerate(res):
        for k, o in enumerate(r):
            out[j + k * jobs] = o
    return out

def run_batch(ctx, cases, violations, stats, tag='cvg'):
    res = I.run_cases('cvgraph', cases, jobs=ctx.jobs, tag=tag, timeout=7200)
    reqs, metas = [], []
    recs_of = {}
    for ci, (c, r_all) in enumerate(zip(cases, res)):
        by_tx, dropped = CG.tx_records(c)
        recs_of[ci] = by_tx
        for ri, run in enumerate(c['runs']):
            r = r_all['runs'][ri] if 'runs' in r_all else r_all
            stats['runs:graph'] += 1
            if '__exc__' in r:
                stats['crashed:' + r['__exc__']] += 1
                class _E: pass
                e = _E(); e.exc, e.case = r, c
                v = {'what': 'stream graph: callVariant aborted with %s (%s)' % (r['__exc__'], r.get('msg', '')[:120]),
                     'replay_obj': replay_obj(c, run, 'crash', None), 'no_input': False}
                if CK.is_fusion_align_crash(e):
                    v['finding'] = CK.F_FUSALIGN
                elif CK.is_fusion_crash(e):
                    v['finding'] = CK.F_FUSCRASH
                violations.append(v)
                continue
            if r.get('snapshot_errors'):
                stats['snapshot_errors'] += 1
            graphs = r.get('graphs', {})
            expect = [tx for tx, recs in by_tx.items() if recs]
            for tx in expect:
                if tx not in graphs or 'tvg_dump' not in graphs[tx]:
                    stats['no_dump_for_tx_with_records'] += 1      # e.g. every record filtered (start codon): counted, not judged
            if graphs:
                stats['nontrivial'] += 1
            as_txs = set(r_['tx'] for r_ in c.get('as_records', []))
            for tx, gs in graphs.items():
                stats['graphs'] += 1
                if '|' in tx or tx in as_txs:
                    rq = requests_for_ext(c, run, tx, gs, by_tx, stats)
                else:
                    rq = requests_for(c, run, tx, gs, by_tx.get(tx, []), stats)
                for q, meta in rq:
                    meta.update(ci=ci, ri=ri)
                    if q is None:
                        violations.append({'what': 'stream graph: %s (transcript %s)' % (meta['problem'], tx),
                                           'replay_obj': replay_obj(c, run, meta['stage'], tx), 'no_input': False})
                        continue
                    reqs.append(q); metas.append(meta)
    outs = _oracle_parallel(reqs, ctx.jobs)
    per = collections.OrderedDict()
    for meta, o in zip(metas, outs):
        c = cases[meta['ci']]; run = c['runs'][meta['ri']]
        recs = recs_of[meta['ci']].get(meta['tx'], [])
        if meta['kind'] == 'ext':
            found = interpret_ext(meta, o, c, run, recs_of[meta['ci']], stats)
        else:
            found = interpret(meta, o, recs, run, stats)
        for what, tag_, ctype in found:
            key = (meta['ci'], meta['ri'], meta['stage'], tag_, ctype)
            if key in per:
                per[key]['n'] += 1
                continue
            per[key] = {'n': 1, 'what': what, 'case': c, 'run': run, 'stage': meta['stage'], 'tx': meta['tx'], 'tag': tag_, 'ctype': ctype}
    # A stage invariant is a SUFFICIENT condition for C01 / C02, not a necessary one: the properties speak about the final
    # peptide set.  A stage failure is therefore printed as a violation only when it is CORROBORATED by an output-level
    # failure of the SAME run (an obliged peptide missing from this run's FASTA, or a FASTA sequence of this transcript /
    # fusion / circRNA that is not realizable), judged by the existing output-level judges (cvcheck / cvcheck2) on the
    # FASTA the worker already has; the stage then is the LOCALISATION.  Uncorroborated stage failures are engine-internal
    # deviations from the design invariant that did not reach the output: counted in stats['stage_anomalies'], up to 5
    # replays kept under evidence/replays (names that are never reported as violations).
    an = stats.get('stage_anomalies') or {'counts': {}, 'replays': [], 'examples': []}
    evs = {}
    if per:
        cis = sorted(set(k[0] for k in per))
        for ev in judge_outputs(ctx, [(cases[ci], res[ci]) for ci in cis]):
            evs[(cis[ev.ci], ev.ri)] = ev
    for key, v in per.items():
        stats['stage_failures:%s:%s' % (v['stage'], v['tag'] or 'UNEXPLAINED')] += 1
        ev = evs.get((key[0], key[1]))
        corr, out_tags = corroboration(ev, v['tx'])
        what = 'graph %s%s' % (v['what'], (' (+%d more at this stage)' % (v['n'] - 1)) if v['n'] > 1 else '')
        robj = replay_obj(v['case'], v['run'], v['stage'], v['tx'])
        if not corr:
            k2 = '%s:%s' % (v['stage'], v['tag'] or 'untagged')
            an['counts'][k2] = an['counts'].get(k2, 0) + 1
            stats['stage_anomalies_total'] += 1
            if len(an['examples']) < 12:
                an['examples'].append(what[:300])
            if len(an['replays']) < 5:
                robj['anomaly'] = what
                if hasattr(ctx, 'write_replay'):
                    an['replays'].append(ctx.write_replay('graph-anomaly-%d' % len(an['replays']), robj))
                else:
                    an['replays'].append(robj)
            continue
        stats['stage_failures_corroborated:%s' % v['stage']] += 1
        tag = v['tag'] or (sorted(out_tags)[0] if (out_tags and None not in out_tags) else None)
        vio = {'what': '%s; corroborated at the output of the same run: %s' % (what, corr), 'replay_obj': robj, 'no_input': False}
        if tag:
            vio['finding'] = tag
        violations.append(vio)
    stats['stage_anomalies'] = an

def judge_outputs(ctx, cases_results):
    """the output-level judges of C01 / C02 (cvcheck.run_batch / cvcheck2.run_batch_ext: must_set <= FASTA, realizable,
    classified by the existing signatures) applied to the FASTA of THESE runs: impl.run_cases is replaced, for the
    duration of the call, by a look-up of the results the graph worker already returned"""
    from harness.lib import cvcheck2 as CK2
    copies, table = [], {}
    for c, r_all in cases_results:
        cc = json.loads(json.dumps(CK.strip_case(c)))
        for run in cc['runs']:
            run.update(fusion_must=True, as_must=True, circ_must=True)
        if 'runs' in r_all:
            rr = {'runs': [{k: v for k, v in r.items() if k not in ('graphs', 'dumped_files', 'snapshot_errors')} for r in r_all['runs']]}
        else:
            rr = r_all
        copies.append(cc)
        table[id(cc)] = rr
    orig = I.run_cases
    def fake(script, cs, **k):
        if all(id(c) in table for c in cs):
            return [table[id(c)] for c in cs]
        return orig(script, cs, **k)        # re-runs asked for by a signature (e.g. the flicker form): the real runner
    I.run_cases = fake
    try:
        return CK2.run_batch(ctx, copies, want_may=False, tag='c02gj')
    finally:
        I.run_cases = orig

def corroboration(ev, key):
    """(text or None, set of finding tags of the corroborating peptides) for the graph `key` of the run judged in ev"""
    if ev is None or ev.exc:
        return None, set()
    parts = key.split('|')
    names = set([parts[0]] + ([parts[2]] if len(parts) > 2 else []))
    extras = [p for p in ev.extra if any(h.split('|')[0] in names for h in ev.got.get(p, []))]
    missing = list(ev.missing)
    if not extras and not missing:
        return None, set()
    # this stream is registered under C02: an unrealizable FASTA sequence is C02's own statement and decides the finding
    # tag; missing obliged peptides (C01's statement) decide it only when no sequence is unrealizable
    tags = set(ev.extra[p] for p in extras) if extras else set(ev.missing[p] for p in missing)
    txt = []
    if extras:
        txt.append('FASTA sequence(s) %s not realizable' % sorted(extras)[:3])
    if missing:
        txt.append('obliged peptide(s) %s missing' % sorted(missing)[:3])
    return ' and '.join(txt), tags

def interpret_ext(meta, out, case, run, by_tx, stats):
    """reply of ag_ext_fusion / ag_ext_as / ag_ext_circ -> list of (what, finding or None, ctype)"""
    stage, kind = meta['stage'], meta['ext']
    where = 'stage %s, %s graph %s, reading frame %d' % (stage, kind, meta['tx'], meta['frame'])
    if isinstance(out, str):
        return [('oracle error %s at %s' % (out[:120], where), None, 'C02')]
    if not out[0]:
        return [('graph of %s is not a topologically numbered DAG (conversion failed)' % where, None, 'C02')]
    stats['ext_strings:%s:%s' % (kind, stage)] += out[1]
    stats['ext_permitted_strings:%s' % kind] += out[2]
    res = []
    uns = [O.U(s_) for s_ in out[3]]
    if uns:
        tags = ext_tags(case, run, meta, uns, by_tx)
        for tag in sorted(set(tags), key=lambda t: t or ''):
            ss = [u for u, t in zip(uns, tags) if t == tag]
            res.append(('%s: %d path string(s), e.g. ...%s (%d nt), are spelled by no compatible record combination on the %s backbone of the specification [C02-type: a path that no haplotype explains]' % (
                where, len(ss), ss[0][-36:], len(ss[0]), kind), tag, 'C02'))
    mis = [O.U(s_) for s_ in out[4]]
    if mis:
        tag = None
        if kind == 'AS' and meta['sem'] is not None and any(r[2] and r[3] for r in meta['sem'][3]):
            tag = F_ASDONOR
        res.append(('%s: %d obliged haplotype sequence(s) of the %s backbone, e.g. ...%s, are spelled by no path [C01-type: missing path]' % (
            where, len(mis), kind, mis[0][-36:]), tag, 'C01'))
    return res

def replay_obj(case, run, stage, tx):
    c = dict(CK.strip_case(case), runs=[run])
    return {'kind': 'case', 'what': 'graph', 'stage': stage, 'tx': tx, 'case': c}

# ------------------------------------------------------------------ generator
def gen_cases(ctx, n):
    """~70 %: linear transcripts, 1-6 SNV / MNV / INDEL records (cvgen.gen_case), limits disabled.
      strict part: trypsin, exception off, node collapsing disabled (boundaries = sites);
      collapse part: trypsin, default / small collapse knobs (every site is a boundary, language unchanged);
      tagged part: trypsin_exception on, other look-ahead rules (deviations classified by the D14 / D14b signatures)
    ~30 %: graphs on derived backbones (round 2): fusion (general breakpoints, cvgen_fus.gen_fusion_case2),
      alternative splicing (cvgen2.gen_as_case: <DEL>/<INS>/<SUB>, half with donor records) and circRNA
      (cvgen2.gen_circ_case, <= 2 small records), trypsin, exception off, collapsing disabled"""
    from harness.lib import cvgen2 as CG2, cvgen_fus as CF
    rng = ctx.rng
    rc = CK.rule_classes()
    la_other = [r for r in rc['la'] if r != 'trypsin']
    out = []
    n_ext = int(round(n * 0.3))
    for i in range(n - n_ext):
        c = CG.gen_case(rng, coding_p=0.7, nvar=rng.choice([1, 2, 2, 3, 3, 4, 4, 5, 6]))
        x = rng.random()
        if x < 0.6:
            run = dict(CG.gen_run(rng, rule='trypsin', exc_on=False), mnc=NO_COLLAPSE); part = 'strict'
        elif x < 0.8:
            run = dict(CG.gen_run(rng, rule='trypsin', exc_on=False), mnc=rng.choice([2, 5, 30]), naa=rng.choice([1, 3, 5])); part = 'collapse'
        elif x < 0.9:
            run = dict(CG.gen_run(rng, rule='trypsin', exc_on=True), mnc=NO_COLLAPSE); part = 'excon'
        else:
            run = dict(CG.gen_run(rng, rule=la_other[i % len(la_other)], exc_on=False), mnc=NO_COLLAPSE); part = 'otherrule'
        c['runs'] = [run]
        c['stream'] = 'graph'
        c['part'] = part
        out.append(c)
    for i in range(n_ext):
        x = rng.random()
        if x < 0.4:
            c = CF.gen_fusion_case2(rng); part = 'fusion'
        elif x < 0.75:
            c = CG2.gen_as_case(rng, nvar=rng.choice([0, 1, 1, 2, 2, 3])); part = 'altsplice'
        else:
            c = CG2.gen_circ_case(rng, nvar=rng.choice([0, 1, 1, 2, 2])); part = 'circ'
        c['runs'] = [dict(CG.gen_run(rng, rule='trypsin', exc_on=False), mnc=NO_COLLAPSE)]
        c['stream'] = 'graph'
        c['part'] = part
        out.append(c)
    return out

def corpus_cases():
    """corpus/C02/graph_*.json: edge cases that once raised a false alarm / minimal replays; run first"""
    import glob, os
    root = os.path.dirname(os.path.dirname(os.path.dirname(os.path.abspath(__file__))))
    out = []
    for f in sorted(glob.glob(os.path.join(root, 'corpus', 'C02', 'graph_*.json'))):
        o = json.load(open(f))
        c = o['case']
        c['stream'] = 'graph'; c['part'] = 'corpus:' + os.path.basename(f)
        out.append(c)
    return out

def run_stream(ctx, n, violations, stats, batch=600):
    t0 = time.time()
    cases = corpus_cases() + gen_cases(ctx, n)
    for c in cases:
        stats['graph_part:' + c['part']] += 1
    for i in range(0, len(cases), batch):
        run_batch(ctx, cases[i:i + batch], violations, stats, tag='c02g')
    return cases, round(time.time() - t0, 1)

def replay(ctx, obj, reps=1):
    c = json.loads(json.dumps(obj['case']))
    c['stream'] = 'graph'
    stats = collections.Counter(); violations = []
    run_batch(ctx, [c] * reps, violations, stats, tag='c02gr')
    seen, out = set(), []
    for v in violations:
        k = (v.get('finding'), v['what'])
        if k not in seen:
            seen.add(k); out.append(v)
    return dict(violations=out, stats={k: v for k, v in stats.items() if k != 'stage_anomalies'}, stage_anomalies=stats.get('stage_anomalies'))
