"""Evaluation of alternative-splicing and circRNA cases for C01/C02 (extends harness/lib/cvcheck.py without
editing it).

run_batch(ctx, cases)   same contract as cvcheck.run_batch.  Cases that carry neither 'as_records' nor
                        'circ_records' are handed to cvcheck.run_batch unchanged; the others are run through
                        harness/impl/callvariant2.py and judged with the oracles of Model/SpecAS.v /
                        Model/SpecCirc.v in addition to the linear oracle of every transcript carrying records.
run_streams(...)        cvcheck.run_streams with this run_batch.
"""
import collections
from harness.lib import oracle as O, impl as I, cvgen as CG, cvcheck as CK, cvgen2 as CG2, cvsig2 as SG2

def is_ext(c):
    return bool(c.get('as_records') or c.get('circ_records'))

def run_batch(ctx, cases, want_may=True, tag='cv'):
    plain = [(i, c) for i, c in enumerate(cases) if not is_ext(c)]
    ext = [(i, c) for i, c in enumerate(cases) if is_ext(c)]
    evs = []
    if plain:
        es = CK.run_batch(ctx, [c for _, c in plain], want_may=want_may, tag=tag)
        for e in es:
            e.ci = plain[e.ci][0]
        evs += es
    if ext:
        es = run_batch_ext(ctx, [c for _, c in ext], want_may=want_may, tag=tag + 'x')
        for e in es:
            e.ci = ext[e.ci][0]
        evs += es
    evs.sort(key=lambda e: (e.ci, e.ri))
    return evs

def _target_txs(c):
    out = []
    for r in c.get('as_records', []) + c.get('circ_records', []):
        if r['tx'] not in out:
            out.append(r['tx'])
    return out

def run_batch_ext(ctx, cases, want_may=True, tag='cvx'):
    res = I.run_cases('callvariant2', cases, jobs=ctx.jobs, tag=tag, timeout=7200)
    evs, reqs = [], []
    for ci, c in enumerate(cases):
        by_tx, dropped = CG.tx_records(c)
        for t in _target_txs(c):
            by_tx.setdefault(t, [])
        prots = CG.proteome(c['world'])
        c['_by_tx'] = by_tx
        r_all = res[ci]
        for ri, run in enumerate(c['runs']):
            ev = CK.Eval()
            ev.ci, ev.ri, ev.case, ev.run = ci, ri, c, run
            r = r_all['runs'][ri] if 'runs' in r_all else r_all
            ev.raw = r
            ev.exc = r if '__exc__' in r else None
            ev.fasta = r.get('fasta', []) if not ev.exc else []
            ev.got = collections.OrderedDict()
            for h, s in ev.fasta:
                ev.got.setdefault(s, []).extend(h.split(' '))
            ev.recs = by_tx
            ev.xs = {}
            ev.must = set(); ev.missing = {}; ev.extra = {}; ev.unreal = set(); ev.may_novel = set()
            peps = list(ev.got.keys())
            for tx_id, recs in by_tx.items():
                x = CG.tx_input(c, tx_id, recs, run, prots)
                if recs:
                    ev.xs[tx_id] = x
                if run.get('skip_oracle'):
                    continue
                if recs:
                    reqs.append((('cv_realizable', [x, peps]), (ev, 'real', tx_id)))
                    if run.get('linear_must', True):
                        reqs.append((('cv_must', x), (ev, 'must', tx_id)))
                asr = CG2.as_inputs(c, tx_id)
                if asr:
                    reqs.append((('cv_as_realizable', [x, asr, peps]), (ev, 'real', tx_id)))
                    if run.get('as_must'):
                        reqs.append((('cv_as_must', [x, asr]), (ev, 'must', tx_id)))
                for ck in CG2.circ_inputs(c, tx_id, run, prots):
                    reqs.append((('cv_circ_realizable', [ck, peps]), (ev, 'real', tx_id)))
                    if run.get('circ_must'):
                        reqs.append((('cv_circ_must', [ck, x]), (ev, 'must', tx_id)))
            # fusion records on an extended case (b-spec's fusion + circRNA cases): the fusion oracle of cvcheck.py
            if c.get('fusions') and not run.get('skip_oracle') and hasattr(CK, 'fusion_requests'):
                for api, arg, kind, fid in CK.fusion_requests(c, run, by_tx, prots, peps):
                    reqs.append(((api, arg), (ev, kind, fid)))
            evs.append(ev)
    outs = O.call_parallel([q for q, _ in reqs], jobs=ctx.jobs)
    real = collections.defaultdict(lambda: None)
    for (q, (ev, kind, tx_id)), o in zip(reqs, outs):
        if isinstance(o, str):
            raise RuntimeError('oracle error %s on %s' % (o, q[0]))
        if kind == 'must':
            got_ = set(O.U(p) for p in o)
            ev.must |= got_
            ev.raw.setdefault('_must_by_tx', {}).setdefault(tx_id, set()).update(got_)
            if q[0] == 'cv_must':
                ev.raw.setdefault('_must_lin_by_tx', {}).setdefault(tx_id, set()).update(got_)
        else:
            cur = real[id(ev)]
            flags = [bool(b) for b in o]
            real[id(ev)] = flags if cur is None else [a or b for a, b in zip(cur, flags)]
    for ev in evs:
        if ev.exc or ev.run.get('skip_oracle'):
            continue
        flags = real[id(ev)] or [False] * len(ev.got)
        ev.unreal = set(p for p, ok in zip(ev.got.keys(), flags) if not ok)
        ev.missing = {p: None for p in ev.must - set(ev.got.keys())}
        ev.extra = {p: None for p in ev.unreal}
    CK.classify(evs)
    SG2.classify(evs)
    return evs

def run_streams(ctx, cases, judge, violations, stats, want_may=True, tag='cv', batch=1500):
    import time as _t
    order, groups = [], {}
    for c in cases:
        st = c.get('stream', '?').split(':')[0]
        if st not in groups:
            groups[st] = []; order.append(st)
        groups[st].append(c)
    wall = {}
    for st in order:
        t0 = _t.time()
        cs = groups[st]
        for i in range(0, len(cs), batch):
            judge(run_batch(ctx, cs[i:i + batch], want_may=want_may, tag=tag), violations, stats)
        wall[st] = round(_t.time() - t0, 1)
    return wall

def dist_of(cases):
    d = collections.Counter()
    for c in cases:
        d['tag:' + c.get('tag', '?')] += 1
        g = CG.find_gene(c['world'], c['gene'])
        d['strand:%+d' % g['strand']] += 1
        d['nvar:%d' % len(set(r[2] for r in c.get('gvf', [])))] += 1
        for r in c.get('as_records', []):
            d['as:%s:%s' % (r['kind'], r['tag'])] += 1
        for r in c.get('circ_records', []):
            d['circ:frags:%d' % len(r['frags'])] += 1
            d['circ:len%%3:%d' % (sum(b - a for a, b in r['frags']) % 3)] += 1
            if r['row'].get('introns'):
                d['circ:intron_fragment'] += 1
        t = next(t for t in g['transcripts'] if t['id'] == c['target'])
        d['tx:' + ('coding' if t['cds'] else 'noncoding')] += 1
    return dict(sorted(d.items()))
