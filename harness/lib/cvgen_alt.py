"""Designed cases for the alt-translation flags of callVariant (C03 stream 'altpos', position-exact SECT-n / W2F-i).

The random flags stream rarely puts a record in the codon next to a Sec codon TOGETHER with a second record in
the same tryptic peptide, and never controls where the W residues sit.  Here a window of the CDS of a
single-isoform coding gene is rewritten (gen_reference._write_into, either strand, any exon structure) with a
designed stretch  K . body . K  and the records are placed codon-exactly:

  multiw   2-3 W in one tryptic peptide, a SNV in a codon next to a W, a second SNV elsewhere in the stretch
  secadj   one Sec codon; a record ENDING on the base directly before the Sec codon (3rd base of the previous
           codon: SNV, 2-nt MNV, or an in-frame insertion anchored there) or a SNV in the 1st/2nd base of that
           codon or in the codon directly AFTER the Sec codon, TOGETHER with a SNV 1-5 codons further upstream
           in the same peptide
  wsec     W residues on both sides of a Sec codon plus records as in secadj (SECT-n and W2F-i in one entry)
  twosec   cvgen.gen_twosec_case: two Sec codons in one uncleaved stretch with an indel between them
"""
from harness.lib import gen_reference as G, cvgen as CG

BODY = 'ADEFGHILNQSTVY'

def _nonsyn_alts(codon, k):
    """bases b such that replacing base k of codon changes the residue and gives no stop"""
    old = G.CODON[codon]
    out = []
    for b in 'ACGT':
        if b == codon[k]:
            continue
        new = G.CODON[codon[:k] + b + codon[k + 1:]]
        if new != old and new != '*':
            out.append(b)
    return out

def _snv_at(rng, world, gene, tx, s, tp, nonsyn=True):
    """SNV at transcript position tp of the (rewritten) transcript sequence s, in gene coordinates"""
    cs = tx['cds'][0]
    k = (tp - cs) % 3
    c0 = tp - k
    alts = _nonsyn_alts(s[c0:c0 + 3], k) if nonsyn else []
    if not alts:
        alts = [b for b in 'ACGT' if b != s[tp]]
    alt_tx = rng.choice(alts)
    gs = G.g2gene(gene, G.tx2g(gene, tx, tp))
    gseq = G.gene_seq(world, gene)
    assert gseq[gs] == s[tp], (gseq[gs], s[tp])
    return (gs, gseq[gs], alt_tx)

def _pick_tx(rng, min_codons=26):
    for _ in range(300):
        world = G.gen_world(rng, n_chrom=1, max_genes=2, coding_p=1.0, small=True, sec_p=0.0, nf_p=0.0, multi_iso_p=0.0)
        cands = [(g, g['transcripts'][0]) for g in world['genes']
                 if len(g['transcripts']) == 1 and g['transcripts'][0]['cds'] and not g['transcripts'][0]['tags']
                 and (g['transcripts'][0]['cds'][1] - g['transcripts'][0]['cds'][0]) // 3 >= min_codons]
        if cands:
            gene, tx = rng.choice(cands)
            if rng.random() < 0.6:
                extend_gene_upstream(rng, world, gene)      # gene coordinates != offsets from the transcript start
            return world, gene, tx
    raise RuntimeError('designed generator: no transcript')

def _design(rng, kind):
    """residues of the window and the indices (in the window) of interest"""
    nb = rng.randint(6, 11)
    body = [rng.choice(BODY) for _ in range(nb)]
    info = {}
    if kind == 'multiw':
        nw = rng.choice([2, 2, 3])
        pos = sorted(rng.sample(range(nb), nw))
        for p in pos:
            body[p] = 'W'
        info['w'] = pos
    elif kind in ('secadj', 'wsec'):
        u = rng.randint(3, nb - 2)
        body[u] = 'U'
        info['u'] = u
        if kind == 'wsec':
            left = [i for i in range(u) if i != u - 1] or [0]
            for p in set([rng.choice(left), rng.choice(range(u + 1, nb))] + ([rng.choice(left)] if rng.random() < 0.5 else [])):
                body[p] = 'W'
        elif rng.random() < 0.3:
            body[rng.randrange(0, u - 1)] = 'W'
    lead = rng.choice(['K', 'R', 'AK', 'GR'])
    tail = rng.choice(['K', 'R']) + ''.join(rng.choice(BODY) for _ in range(rng.randint(2, 4))) + rng.choice(['K', 'R', ''])
    return lead, body, tail, info

def gen_designed_case(rng, kind=None):
    kind = kind or rng.choice(['multiw', 'multiw', 'secadj', 'secadj', 'secadj', 'wsec', 'wsec', 'twosec'])
    if kind == 'twosec':
        c = CG.gen_twosec_case(rng)
        c['tag'] = 'alt:twosec'
        return c
    for _ in range(300):
        world, gene, tx = _pick_tx(rng)
        cs, ce = tx['cds']
        ncod = (ce - cs) // 3
        lead, body, tail, info = _design(rng, kind)
        win = lead + ''.join(body) + tail
        if len(win) + 5 > ncod:
            continue
        first = rng.randint(2, ncod - len(win) - 2)
        dna = ''.join('TGA' if a == 'U' else ('TGG' if a == 'W' else rng.choice(G.BACK[a])) for a in win)
        chrom = list(world['chroms'][gene['chrom']])
        G._write_into(chrom, gene, tx['exons'], cs + 3 * first, dna)
        world['chroms'][gene['chrom']] = ''.join(chrom)
        b0 = cs + 3 * (first + len(lead))          # transcript position of the first body codon
        if 'u' in info:
            sec = b0 + 3 * info['u']
            if len(G._segments(gene, tx, sec, sec + 3)) != 1:
                continue
            tx['sec'] = [sec]
        prot = G.protein_of(world, gene, tx) or ''
        if (lead + ''.join(body) + tail) not in prot:
            continue
        s = G.tx_seq(world, gene, tx)
        gseq = G.gene_seq(world, gene)
        recs = []
        sub = kind
        if kind == 'multiw':
            w = rng.choice(info['w'])
            nb = len(body)
            side = rng.choice([d for d in (-1, 1) if 0 <= w + d < nb and body[w + d] != 'W'] or [0])
            if side == 0:
                continue
            recs.append(_snv_at(rng, world, gene, tx, s, b0 + 3 * (w + side) + rng.randrange(3)))
            others = [i for i in range(nb) if body[i] != 'W' and i != w + side]
            for i in rng.sample(others, min(len(others), rng.choice([0, 1, 1, 2]))):
                recs.append(_snv_at(rng, world, gene, tx, s, b0 + 3 * i + rng.randrange(3)))
            if rng.random() < 0.25:                   # a record ON a W codon (W lost / kept synonymous is impossible: TGG is the only codon)
                recs.append(_snv_at(rng, world, gene, tx, s, b0 + 3 * w + rng.choice([0, 1]), nonsyn=True))
        else:
            u = info['u']
            sec = b0 + 3 * u
            x = rng.random()
            if x < 0.45:
                sub += ':end-before-sec'
                y = rng.random()
                if y < 0.6:
                    recs.append(_snv_at(rng, world, gene, tx, s, sec - 1))
                elif y < 0.8:
                    tp = sec - 2
                    gs = G.g2gene(gene, G.tx2g(gene, tx, tp))
                    ref = gseq[gs:gs + 2]
                    if CG.map_record(gene, tx, gs, gs + 2)[0] != 'exonic' or G.g2gene(gene, G.tx2g(gene, tx, tp + 1)) != gs + 1:
                        continue
                    alt = ''.join(rng.choice([b for b in 'ACGT' if b != c]) for c in ref)
                    recs.append((gs, ref, alt))
                else:
                    tp = sec - 1
                    gs = G.g2gene(gene, G.tx2g(gene, tx, tp))
                    recs.append((gs, gseq[gs], gseq[gs] + rng.choice(G.BACK[rng.choice(BODY)])))
            elif x < 0.65:
                sub += ':codon-before-sec'
                recs.append(_snv_at(rng, world, gene, tx, s, sec - 3 + rng.choice([0, 1])))
            elif x < 0.9:
                sub += ':codon-after-sec'
                recs.append(_snv_at(rng, world, gene, tx, s, sec + 3 + rng.randrange(3)))
            else:
                sub += ':two-codons-before-sec'
                recs.append(_snv_at(rng, world, gene, tx, s, sec - 6 + rng.randrange(3)))
            ups = [i for i in range(max(0, u - 6), u - 1) if body[i] != 'W']
            if not ups:
                continue
            for i in rng.sample(ups, min(len(ups), rng.choice([1, 1, 1, 2]))):
                recs.append(_snv_at(rng, world, gene, tx, s, b0 + 3 * i + rng.randrange(3)))
            if rng.random() < 0.3 and u + 2 < len(body):
                recs.append(_snv_at(rng, world, gene, tx, s, b0 + 3 * rng.randrange(u + 2, len(body)) + rng.randrange(3)))
        rows = []
        for gs_, ref_, alt_ in sorted(set(recs)):
            if ref_ != alt_ and CG.map_record(gene, tx, gs_, gs_ + len(ref_))[0] != 'outside':
                rows.append([gene['id'], gs_ + 1, CG.var_id(gs_, ref_, alt_), ref_, alt_, tx['id'], gene['name']])
        if len(rows) >= 2 or (kind == 'multiw' and rows):
            return {'world': world, 'gvf': rows, 'gene': gene['id'], 'target': tx['id'], 'tag': 'alt:' + sub}
    raise RuntimeError('designed generator failed (%s)' % kind)

def gen_designed_run(rng, case):
    """trypsin, exception off; the flag(s) the geometry needs, limits that keep the designed peptide"""
    tag = case['tag']
    if 'multiw' in tag:
        sect, w2f = False, True
    elif 'wsec' in tag:
        sect, w2f = True, True
    else:
        sect, w2f = rng.choice([(True, False), (True, False), (True, True)])
    run = CG.gen_run(rng, rule='trypsin', exc_on=False, sect=sect, w2f=w2f)
    run.update(min_len=rng.choice([3, 4, 5]), max_len=rng.choice([25, 25, 40]), k=rng.choice([0, 1, 2, 2]))
    if run['mw4'] > 5000000:
        run['min_mw'], run['mw4'] = CG.off_grid_mw(rng, bases=(0, 300))
    return run

# ------------------------------------------------------------------ gene record reaching upstream of the transcript
def extend_gene_upstream(rng, world, gene):
    """let the GENE record begin up to 25 nt upstream (gene orientation) of its most upstream transcript, as a gene
    with another, unlisted, earlier TSS would: gene coordinates then differ from 'offset from the transcript start'
    (seeded C09-8: SECT-n computed from the transcript instead of the gene).  Must run BEFORE any record is placed."""
    others = [g for g in world['genes'] if g is not gene and g['chrom'] == gene['chrom']]
    clen = len(world['chroms'][gene['chrom']])
    if gene['strand'] == 1:
        lo = max([g['end'] for g in others if g['end'] <= gene['start']] + [0])
        room = gene['start'] - lo - 2
        if room >= 3:
            gene['start'] -= rng.randint(3, min(25, room))
            return True
    else:
        hi = min([g['start'] for g in others if g['start'] >= gene['end']] + [clen])
        room = hi - gene['end'] - 2
        if room >= 3:
            gene['end'] += rng.randint(3, min(25, room))
            return True
    return False

# ------------------------------------------------------------------ compensating frameshift pair + record downstream
def gen_framepair_case(rng):
    """coding transcript (CDS start 0..30, so (start // 3) % 3 != start % 3 in two of three cases), two indels 4-18 nt
    apart whose lengths add up to a multiple of 3 (frame restored), and 1-2 non-synonymous SNVs 4-20 codons further
    downstream in the restored frame: peptides behind the pair must be labelled with their own records only (seeded
    C03-8 adds the first indel to every one of them)"""
    for _ in range(400):
        world, gene, tx = _pick_tx(rng, min_codons=30)
        cs, ce = tx['cds']
        s = G.tx_seq(world, gene, tx)
        gseq = G.gene_seq(world, gene)
        ncod = (ce - cs) // 3
        p1 = cs + 3 * rng.randint(2, max(2, ncod - 24)) + rng.randrange(3)
        p2 = p1 + rng.randint(4, 18)
        d1, d2 = rng.choice([(1, -1), (-1, 1), (1, 2), (2, 1), (-1, -2), (-2, -1), (2, -2), (-2, 2), (4, -1), (-1, -5)])
        recs = []
        okp = True
        for tp, d in ((p1, d1), (p2, d2)):
            gs = G.g2gene(gene, G.tx2g(gene, tx, tp))
            n = 1 + max(0, -d)
            if CG.map_record(gene, tx, gs, gs + n)[0] != 'exonic' or G.g2gene(gene, G.tx2g(gene, tx, tp + n - 1)) != gs + n - 1:
                okp = False; break
            if d > 0:
                recs.append((gs, gseq[gs], gseq[gs] + ''.join(rng.choice('ACGT') for _k in range(d))))
            else:
                recs.append((gs, gseq[gs:gs + 1 - d], gseq[gs]))
        if not okp or p2 + 6 > p1 + 1 + max(0, -d1) + 30:
            continue
        if p2 <= p1 + max(0, -d1):
            continue
        # the haplotype carrying both must read on to the downstream records
        hap = s[:p1] + (recs[0][2] if d1 > 0 else s[p1]) + s[p1 + 1 + max(0, -d1):p2] + (recs[1][2] if d2 > 0 else s[p2]) + s[p2 + 1 + max(0, -d2):]
        prot = G.translate(hap[cs:])
        reach = cs + 3 * len(prot) - (d1 + d2)            # reference position the read-through reaches
        lo = p2 + 12
        if reach < lo + 15:
            continue
        hi = min(ce - 3, reach - 3, lo + 60)
        for tq in sorted(rng.sample(range(lo, hi), min(hi - lo, rng.choice([1, 1, 2])))):
            recs.append(_snv_at(rng, world, gene, tx, s, tq))
        rows = []
        for gs_, ref_, alt_ in sorted(set(recs)):
            if ref_ != alt_:
                rows.append([gene['id'], gs_ + 1, CG.var_id(gs_, ref_, alt_), ref_, alt_, tx['id'], gene['name']])
        if len(rows) >= 3:
            return {'world': world, 'gvf': rows, 'gene': gene['id'], 'target': tx['id'],
                    'tag': 'framepair:cds%%3=%d:aa%%3=%d' % (cs % 3, (cs // 3) % 3)}
    raise RuntimeError('frame-pair generator failed')

# ------------------------------------------------------------------ stop-lost shapes + record in the read-through
def gen_stoplost_case(rng):
    """coding transcript with a 3'UTR; the stretch behind the stop codon is rewritten to  body K body(5-9) K body *  so
    that a read-through has cleavage sites and ends; ONE stop-lost record of a chosen shape and 1-2 non-synonymous SNVs
    in the read-through region behind the first K:
      snv        SNV on one of the three bases of the stop codon                       (label carries it: measured)
      del-stop   deletion of exactly the stop codon, anchored on the base before it (VCF style)
      del-span   in-frame deletion of 3 nt anchored 2-3 nt before the stop codon (spans the boundary)
      mnv-span   MNV over the last base(s) of the last sense codon and the first base(s) of the stop codon
      del6       deletion of the last sense codon and the stop codon
      fs         frameshifting indel in the last two sense codons (stop read in another frame)"""
    for _ in range(600):
        world, gene, tx = _pick_tx(rng, min_codons=14)
        cs, ce = tx['cds']
        L = G.tx_len(tx)
        if L - (ce + 3) < 48:
            continue
        n1, n2, n3 = rng.randint(1, 3), rng.randint(5, 9), rng.randint(1, 3)
        utr = [rng.choice(BODY) for _k in range(n1)] + [rng.choice('KR')] + [rng.choice(BODY) for _k in range(n2)] + \
              [rng.choice('KR')] + [rng.choice(BODY) for _k in range(n3)]
        if 3 * (len(utr) + 1) > L - (ce + 3):
            continue
        dna = ''.join(rng.choice(G.BACK[a]) for a in utr) + rng.choice(['TAA', 'TAG'])
        # the last sense codon: no K/R/P so that the junction is not a cleavage site by itself in every case
        last = rng.choice(G.BACK[rng.choice(BODY + 'KR')])
        chrom = list(world['chroms'][gene['chrom']])
        G._write_into(chrom, gene, tx['exons'], ce - 3, last)
        G._write_into(chrom, gene, tx['exons'], ce + 3, dna)
        world['chroms'][gene['chrom']] = ''.join(chrom)
        s = G.tx_seq(world, gene, tx)
        gseq = G.gene_seq(world, gene)
        if G.CODON.get(s[ce:ce + 3]) != '*' or '*' in G.translate(s[cs:ce]) or len(G.translate(s[cs:])) * 3 != ce - cs:
            continue
        shape = rng.choice(['snv', 'del-stop', 'del-stop', 'del-span', 'del-span', 'mnv-span', 'mnv-span', 'del6', 'fs'])
        def rec(tp, n, alt_of):
            gs = G.g2gene(gene, G.tx2g(gene, tx, tp))
            if CG.map_record(gene, tx, gs, gs + n)[0] != 'exonic' or G.g2gene(gene, G.tx2g(gene, tx, tp + n - 1)) != gs + n - 1:
                return None
            ref = gseq[gs:gs + n]
            assert ref == s[tp:tp + n]
            return (gs, ref, alt_of(ref))
        if shape == 'snv':
            k = rng.randrange(3)
            alts = [b for b in 'ACGT' if b != s[ce + k] and G.CODON[s[ce:ce + k] + b + s[ce + k + 1:ce + 3]] != '*']
            if not alts:
                continue
            r = rec(ce + k, 1, lambda ref: rng.choice(alts))
        elif shape == 'del-stop':
            r = rec(ce - 1, 4, lambda ref: ref[0])
        elif shape == 'del-span':
            r = rec(ce - rng.choice([2, 3]), 4, lambda ref: ref[0])
        elif shape == 'del6':
            r = rec(ce - 4, 7, lambda ref: ref[0])
        elif shape == 'mnv-span':
            a, n = rng.choice([(ce - 1, 2), (ce - 1, 3), (ce - 2, 3), (ce - 2, 4)])
            r = rec(a, n, lambda ref: ''.join(rng.choice([b for b in 'ACGT' if b != c]) for c in ref))
        else:
            tp = ce - rng.randint(2, 6)
            r = rec(tp, 1, lambda ref: ref + rng.choice('ACGT')) if rng.random() < 0.5 else rec(tp, 2, lambda ref: ref[0])
        if r is None:
            continue
        # the haplotype with the stop-lost record alone must read into the designed stretch
        ts = G.g2tx(gene, tx, G.gene2g(gene, r[0]))
        hap = s[:ts] + r[2] + s[ts + len(r[1]):]
        prot = G.translate(hap[cs:])
        if shape != 'fs' and len(prot) * 3 + cs < ce + 3 * (n1 + n2):
            continue
        recs = [r]
        b0 = ce + 3 + 3 * (n1 + 1)                    # first codon behind the first K of the read-through stretch
        for i in rng.sample(range(n2), rng.choice([1, 1, 2])):
            recs.append(_snv_at_frame(rng, world, gene, tx, s, b0 + 3 * i + rng.randrange(3), ce + 3))
        rows = []
        for gs_, ref_, alt_ in sorted(set(recs)):
            if ref_ != alt_:
                rows.append([gene['id'], gs_ + 1, CG.var_id(gs_, ref_, alt_), ref_, alt_, tx['id'], gene['name']])
        if len(rows) >= 2:
            return {'world': world, 'gvf': rows, 'gene': gene['id'], 'target': tx['id'], 'tag': 'stoplost:' + shape}
    raise RuntimeError('stop-lost generator failed')

def _snv_at_frame(rng, world, gene, tx, s, tp, frame0):
    """non-synonymous, non-stop SNV at tp; codons counted from frame0 (a position in frame)"""
    k = (tp - frame0) % 3
    c0 = tp - k
    alts = _nonsyn_alts(s[c0:c0 + 3], k) or [b for b in 'ACGT' if b != s[tp]]
    gs = G.g2gene(gene, G.tx2g(gene, tx, tp))
    return (gs, G.gene_seq(world, gene)[gs], rng.choice(alts))
