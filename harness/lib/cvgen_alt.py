"""Designed cases for the alt-translation flags of callVariant (C03 stream 'altpos', position-exact SECT-n / W2F-i).

The random flags stream rarely puts a record in the codon next to a Sec codon TOGETHER with a second record in
the same tryptic peptide, and never controls where the W residues sit.  Here a window of the CDS of a
single-isoform coding gene is rewritten (gen_reference._write_into, either strand, any exon structure) with a
designed stretch  K . body . K  and the records are placed codon-exactly:

  multiw   2-3 W in one tryptic peptide, a SNV in a codon next to a W, a second SNV elsewhere in the stretch
  secadj   one Sec codon; a record ENDING on the base directly before the Sec codon (3rd base of the previous
           codon: SNV, 2-nt MNV, or an in-frame insertion anchored there) or a SNV in the 1st/2nd base of that
           codon or in the codon directly AFTER the Sec codon, TOGETHER with a SNV 1-5 codons further upstream
           in the same peptide
  wsec     W residues on both sides of a Sec codon plus records as in secadj (SECT-n and W2F-i in one entry)
  twosec   cvgen.gen_twosec_case: two Sec codons in one uncleaved stretch with an indel between them
"""
from harness.lib import gen_reference as G, cvgen as CG

BODY = 'ADEFGHILNQSTVY'

def _nonsyn_alts(codon, k):
    """bases b such that replacing base k of codon changes the residue and gives no stop"""
    old = G.CODON[codon]
    out = []
    for b in 'ACGT':
        if b == codon[k]:
            continue
        new = G.CODON[codon[:k] + b + codon[k + 1:]]
        if new != old and new != '*':
            out.append(b)
    return out

def _snv_at(rng, world, gene, tx, s, tp, nonsyn=True):
    """SNV at transcript position tp of the (rewritten) transcript sequence s, in gene coordinates"""
    cs = tx['cds'][0]
    k = (tp - cs) % 3
    c0 = tp - k
    alts = _nonsyn_alts(s[c0:c0 + 3], k) if nonsyn else []
    if not alts:
        alts = [b for b in 'ACGT' if b != s[tp]]
    alt_tx = rng.choice(alts)
    gs = G.g2gene(gene, G.tx2g(gene, tx, tp))
    gseq = G.gene_seq(world, gene)
    assert gseq[gs] == s[tp], (gseq[gs], s[tp])
    return (gs, gseq[gs], alt_tx)

def _pick_tx(rng, min_codons=26):
    for _ in range(300):
        world = G.gen_world(rng, n_chrom=1, max_genes=2, coding_p=1.0, small=True, sec_p=0.0, nf_p=0.0, multi_iso_p=0.0)
        cands = [(g, g['transcripts'][0]) for g in world['genes']
                 if len(g['transcripts']) == 1 and g['transcripts'][0]['cds'] and not g['transcripts'][0]['tags']
                 and (g['transcripts'][0]['cds'][1] - g['transcripts'][0]['cds'][0]) // 3 >= min_codons]
        if cands:
            gene, tx = rng.choice(cands)
            return world, gene, tx
    raise RuntimeError('designed generator: no transcript')

def _design(rng, kind):
    """residues of the window and the indices (in the window) of interest"""
    nb = rng.randint(6, 11)
    body = [rng.choice(BODY) for _ in range(nb)]
    info = {}
    if kind == 'multiw':
        nw = rng.choice([2, 2, 3])
        pos = sorted(rng.sample(range(nb), nw))
        for p in pos:
            body[p] = 'W'
        info['w'] = pos
    elif kind in ('secadj', 'wsec'):
        u = rng.randint(3, nb - 2)
        body[u] = 'U'
        info['u'] = u
        if kind == 'wsec':
            left = [i for i in range(u) if i != u - 1] or [0]
            for p in set([rng.choice(left), rng.choice(range(u + 1, nb))] + ([rng.choice(left)] if rng.random() < 0.5 else [])):
                body[p] = 'W'
        elif rng.random() < 0.3:
            body[rng.randrange(0, u - 1)] = 'W'
    lead = rng.choice(['K', 'R', 'AK', 'GR'])
    tail = rng.choice(['K', 'R']) + ''.join(rng.choice(BODY) for _ in range(rng.randint(2, 4))) + rng.choice(['K', 'R', ''])
    return lead, body, tail, info

def gen_designed_case(rng, kind=None):
    kind = kind or rng.choice(['multiw', 'multiw', 'secadj', 'secadj', 'secadj', 'wsec', 'wsec', 'twosec'])
    if kind == 'twosec':
        c = CG.gen_twosec_case(rng)
        c['tag'] = 'alt:twosec'
        return c
    for _ in range(300):
        world, gene, tx = _pick_tx(rng)
        cs, ce = tx['cds']
        ncod = (ce - cs) // 3
        lead, body, tail, info = _design(rng, kind)
        win = lead + ''.join(body) + tail
        if len(win) + 5 > ncod:
            continue
        first = rng.randint(2, ncod - len(win) - 2)
        dna = ''.join('TGA' if a == 'U' else ('TGG' if a == 'W' else rng.choice(G.BACK[a])) for a in win)
        chrom = list(world['chroms'][gene['chrom']])
        G._write_into(chrom, gene, tx['exons'], cs + 3 * first, dna)
        world['chroms'][gene['chrom']] = ''.join(chrom)
        b0 = cs + 3 * (first + len(lead))          # transcript position of the first body codon
        if 'u' in info:
            sec = b0 + 3 * info['u']
            if len(G._segments(gene, tx, sec, sec + 3)) != 1:
                continue
            tx['sec'] = [sec]
        prot = G.protein_of(world, gene, tx) or ''
        if (lead + ''.join(body) + tail) not in prot:
            continue
        s = G.tx_seq(world, gene, tx)
        gseq = G.gene_seq(world, gene)
        recs = []
        sub = kind
        if kind == 'multiw':
            w = rng.choice(info['w'])
            nb = len(body)
            side = rng.choice([d for d in (-1, 1) if 0 <= w + d < nb and body[w + d] != 'W'] or [0])
            if side == 0:
                continue
            recs.append(_snv_at(rng, world, gene, tx, s, b0 + 3 * (w + side) + rng.randrange(3)))
            others = [i for i in range(nb) if body[i] != 'W' and i != w + side]
            for i in rng.sample(others, min(len(others), rng.choice([0, 1, 1, 2]))):
                recs.append(_snv_at(rng, world, gene, tx, s, b0 + 3 * i + rng.randrange(3)))
            if rng.random() < 0.25:                   # a record ON a W codon (W lost / kept synonymous is impossible: TGG is the only codon)
                recs.append(_snv_at(rng, world, gene, tx, s, b0 + 3 * w + rng.choice([0, 1]), nonsyn=True))
        else:
            u = info['u']
            sec = b0 + 3 * u
            x = rng.random()
            if x < 0.45:
                sub += ':end-before-sec'
                y = rng.random()
                if y < 0.6:
                    recs.append(_snv_at(rng, world, gene, tx, s, sec - 1))
                elif y < 0.8:
                    tp = sec - 2
                    gs = G.g2gene(gene, G.tx2g(gene, tx, tp))
                    ref = gseq[gs:gs + 2]
                    if CG.map_record(gene, tx, gs, gs + 2)[0] != 'exonic' or G.g2gene(gene, G.tx2g(gene, tx, tp + 1)) != gs + 1:
                        continue
                    alt = ''.join(rng.choice([b for b in 'ACGT' if b != c]) for c in ref)
                    recs.append((gs, ref, alt))
                else:
                    tp = sec - 1
                    gs = G.g2gene(gene, G.tx2g(gene, tx, tp))
                    recs.append((gs, gseq[gs], gseq[gs] + rng.choice(G.BACK[rng.choice(BODY)])))
            elif x < 0.65:
                sub += ':codon-before-sec'
                recs.append(_snv_at(rng, world, gene, tx, s, sec - 3 + rng.choice([0, 1])))
            elif x < 0.9:
                sub += ':codon-after-sec'
                recs.append(_snv_at(rng, world, gene, tx, s, sec + 3 + rng.randrange(3)))
            else:
                sub += ':two-codons-before-sec'
                recs.append(_snv_at(rng, world, gene, tx, s, sec - 6 + rng.randrange(3)))
            ups = [i for i in range(max(0, u - 6), u - 1) if body[i] != 'W']
            if not ups:
                continue
            for i in rng.sample(ups, min(len(ups), rng.choice([1, 1, 1, 2]))):
                recs.append(_snv_at(rng, world, gene, tx, s, b0 + 3 * i + rng.randrange(3)))
            if rng.random() < 0.3 and u + 2 < len(body):
                recs.append(_snv_at(rng, world, gene, tx, s, b0 + 3 * rng.randrange(u + 2, len(body)) + rng.randrange(3)))
        rows = []
        for gs_, ref_, alt_ in sorted(set(recs)):
            if ref_ != alt_ and CG.map_record(gene, tx, gs_, gs_ + len(ref_))[0] != 'outside':
                rows.append([gene['id'], gs_ + 1, CG.var_id(gs_, ref_, alt_), ref_, alt_, tx['id'], gene['name']])
        if len(rows) >= 2 or (kind == 'multiw' and rows):
            return {'world': world, 'gvf': rows, 'gene': gene['id'], 'target': tx['id'], 'tag': 'alt:' + sub}
    raise RuntimeError('designed generator failed (%s)' % kind)

def gen_designed_run(rng, case):
    """trypsin, exception off; the flag(s) the geometry needs, limits that keep the designed peptide"""
    tag = case['tag']
    if 'multiw' in tag:
        sect, w2f = False, True
    elif 'wsec' in tag:
        sect, w2f = True, True
    else:
        sect, w2f = rng.choice([(True, False), (True, False), (True, True)])
    run = CG.gen_run(rng, rule='trypsin', exc_on=False, sect=sect, w2f=w2f)
    run.update(min_len=rng.choice([3, 4, 5]), max_len=rng.choice([25, 25, 40]), k=rng.choice([0, 1, 2, 2]))
    if run['mw4'] > 5000000:
        run['min_mw'], run['mw4'] = CG.off_grid_mw(rng, bases=(0, 300))
    return run
