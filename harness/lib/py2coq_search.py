"""Failing-input search for the `code_<fn>_is_model` obligations (docs/py2coq.md).

When the function body regenerated from /repo by harness/translate/py2coq.py is no longer provably
equal to the hand-written model, the implementation and the (unchanged) model must differ on some
input.  The property's own correspondence already compares exactly these two, so the search runs
it on a reduced budget (only the streams that exercise the translated function) and returns the
first disagreeing input as a replay object.  Property modules call this from search_failing_input.
"""
import random, copy


def is_code_obligation(broken):
    t = str(broken.get('theorem') or '')
    return t.startswith('code_') or 'Py2Coq' in str(broken.get('why') or '')


class _Ctx:
    """the caller's ctx with its own random stream and the quick tier (the main run must not be disturbed)"""
    def __init__(self, ctx, salt):
        self.__dict__.update(ctx.__dict__)
        self.rng = random.Random(ctx.seed * 1000003 + salt)
        self.quick = True


def first_disagreement(mod, ctx, broken, kinds=None, budget=600, salt=7):
    """mod: the property module.  Uses mod.gen_cases + mod.compare when present (filtering on case['kind'] in
    kinds), otherwise mod.run.  Returns a replay object (with 'what') or None."""
    c2 = _Ctx(ctx, salt)
    if hasattr(mod, 'gen_cases') and hasattr(mod, 'compare'):
        cases = [c for c in mod.gen_cases(c2) if kinds is None or c.get('kind') in kinds]
        # shortest first: the first disagreement is then also a small one
        cases = sorted(cases[:budget * 4], key=lambda c: len(str(c)))[:budget]
        if not cases:
            return None
        _, _, bad = mod.compare(c2, cases)
        if bad:
            c, a, b = bad[0]
            return {'kind': 'case', 'case': c, 'impl': a, 'model': b,
                    'what': '%s case %s: implementation %s, model %s (obligation %s)' % (
                        c.get('kind'), str({k: v for k, v in c.items() if k != 'world'})[:160], str(a)[:100], str(b)[:100],
                        broken.get('theorem'))}
        return None
    res = mod.run(c2)
    for v in res.get('violations', []):
        if not v.get('no_input') and not v.get('finding'):
            r = dict(v['replay_obj'])
            r['what'] = v.get('what', '')
            return r
    return None
