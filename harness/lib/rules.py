"""Rule names / letters, read from /repo's expasy_rules.py with ast (never imported)."""
import os, re, sys
sys.path.insert(0, os.path.join(os.path.dirname(os.path.dirname(os.path.abspath(__file__))), 'translate'))
import expasy as _ex

REPO = os.environ.get('VERIF_REPO', '/repo')
AA20 = 'ACDEFGHIKLMNPQRSTVWY'

def tables():
    return _ex.load_tables(os.path.join(REPO, 'moPepGen/aa/expasy_rules.py'))

def rule_names():
    t = tables()
    return [k for k in t.get('EXPASY_RULES', {}) if k != 'trypsin_exception']

def rule_letters(name):
    t = tables()
    pats = [t.get('EXPASY_RULES', {}).get(name, ''), t.get('EXPASY_RULES2', {}).get(name, '')]
    if name == 'trypsin':
        pats.append(t.get('EXPASY_RULES', {}).get('trypsin_exception', ''))
    ls = sorted(set(c for p in pats for c in p if c.isupper()))
    return ''.join(ls) or AA20

def gen_protein(rng, rule, n, extra='', bias=0.55):
    """random protein biased towards the letters the rule mentions"""
    rl = rule_letters(rule)
    out = []
    for _ in range(n):
        x = rng.random()
        if x < bias:
            out.append(rng.choice(rl))
        elif x < 0.97 or not extra:
            out.append(rng.choice(AA20))
        else:
            out.append(rng.choice(extra))
    return ''.join(out)
