"""Client for the extracted OCaml oracle (ocaml/oracle).  Values are nested lists of ints;
strings are sent as lists of code points."""
import os, subprocess, json, tempfile

ROOT = os.path.dirname(os.path.dirname(os.path.dirname(os.path.abspath(__file__))))
ORACLE = os.path.join(ROOT, 'ocaml', 'oracle')

def S(s):
    """str -> list of code points"""
    return [ord(c) for c in s]

def U(l):
    """list of code points -> str"""
    return ''.join(chr(c) for c in l)

def B(b):
    return 1 if b else 0

def enc(v):
    if isinstance(v, bool):
        return '1' if v else '0'
    if isinstance(v, int):
        return str(v)
    if isinstance(v, str):
        return '[' + ','.join(str(ord(c)) for c in v) + ']'
    if v is None:
        return '[]'
    return '[' + ','.join(enc(x) for x in v) + ']'

def call_many(reqs, chunk=None):
    """reqs: list of (api_name, value).  Returns list of decoded replies (same order).
    A reply starting with ERR becomes the string itself."""
    if not reqs:
        return []
    data = '\n'.join('%s\t%s' % (name, enc(v)) for name, v in reqs) + '\n'
    env = dict(os.environ)
    p = subprocess.run(['bash', '-c', 'ulimit -s unlimited 2>/dev/null; exec "%s"' % ORACLE],
                       input=data, stdout=subprocess.PIPE, stderr=subprocess.PIPE, text=True, env=env)
    lines = p.stdout.split('\n')
    if lines and lines[-1] == '':
        lines.pop()
    if len(lines) != len(reqs):
        raise RuntimeError('oracle returned %d lines for %d requests; stderr=%s' % (len(lines), len(reqs), p.stderr[-500:]))
    out = []
    for l in lines:
        out.append(l if l.startswith('ERR') else json.loads(l))
    return out

def call(name, v):
    return call_many([(name, v)])[0]

def call_parallel(reqs, jobs=8):
    """split into chunks and run several oracle processes"""
    from concurrent.futures import ThreadPoolExecutor
    if len(reqs) < 200 or jobs <= 1:
        return call_many(reqs)
    n = (len(reqs) + jobs - 1) // jobs
    chunks = [reqs[i:i + n] for i in range(0, len(reqs), n)]
    with ThreadPoolExecutor(jobs) as ex:
        res = list(ex.map(call_many, chunks))
    return [x for r in res for x in r]
