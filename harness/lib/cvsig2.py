"""Finding signatures for the alternative-splicing / circRNA streams of C01/C02 (new file; cvsig.py is not edited).
classify(evs) attaches a finding id to unexplained missing / unrealizable peptides of extended cases."""
from harness.lib import oracle as O, cvgen as CG, cvgen2 as CG2

F_AS_DONOR = 'C02-as-donor-record'
F_LOOKBEHIND = 'D14b-lookbehind'

def donor_cut_variants(asr, tx_len):
    """for every AS record whose donor segment carries small records: the record lists in which the transcript
    ENDS inside that donor segment, 0-2 nt in front of one of those records (mechanism of
    C02-as-donor-record-truncation: the path that carries the insertion / substitution but NOT the donor's
    record is cut off in front of the codon holding that record, and the open end is emitted as a peptide)"""
    out = []
    for i, r in enumerate(asr):
        a_s, a_e, donor, dv = r
        for w in dv:
            for c in range(max(0, w[0] - 2), w[0] + 1):
                r2 = [a_s, tx_len, donor[:c], [v for v in dv if v[1] <= c]]
                lst = [q for j, q in enumerate(asr) if j != i and q[1] <= a_s and not (q[0] == q[1] == a_s == a_e)] + [r2]
                lst.sort(key=lambda q: (q[0], q[1]))
                out.append(lst)
    return out

def donor_slip_variants(asr, n_other=0, max_records=13):
    """the record lists in which ONE donor record w has extra pseudo-alleles: the 1 or 2 reference bases at its
    position dropped (the path slips into another reading-frame copy at the record's bubble), its alternative
    allele short of its first / last base, or -- insertion / deletion -- the record placed one base off.
    One record at a time (the oracle enumerates 2^n subsets); lists with more than max_records records are
    left to the coarse tier."""
    out = []
    for i, r in enumerate(asr):
        a_s, a_e, donor, dv = r
        for w in dv:
            extra = []
            for d in (1, 2):
                if w[0] + d <= len(donor):
                    extra.append([w[0], w[0] + d, '', True])
            if len(w[2]) >= 2:
                extra.append([w[0], w[1], w[2][:-1], True])
                extra.append([w[0], w[1], w[2][1:], True])
            if len(w[2]) != w[1] - w[0]:
                for d in (-1, 1):
                    s0, e0 = w[0] + d, w[1] + d
                    if 0 <= s0 and e0 <= len(donor):
                        extra.append([s0, e0, donor[s0] + w[2][1:], True])
            dv2 = sorted(dv + extra, key=lambda v: (v[0], v[1], v[2]))
            uniq = []
            for v in dv2:
                if v not in uniq:
                    uniq.append(v)
            if n_other + sum(len(q[3]) for j, q in enumerate(asr) if j != i) + len(uniq) > max_records:
                continue
            out.append([q if j != i else [a_s, a_e, donor, uniq] for j, q in enumerate(asr)])
    return out

F_STOPLOSS = 'C01-stoploss'

def classify_missing_linear_stoploss(evs):
    """C01-stoploss judged in the transcripts that OBLIGE the peptide only.  cvcheck.classify judges the derivations of a
    missing peptide in every transcript that carries records; a transcript in which the peptide is a product of the
    unmodified sequence (not novel there, hence not obliged by it: e.g. a non-coding isoform that reads the same frame
    from an ATG) then contributes derivations the signature cannot match (no annotated stop codon) and the verdict is
    lost.  Here the existing signature cvsig.explained_by_stoploss is applied per obliging transcript (linear must set
    of that transcript, recorded by cvcheck2 in raw['_must_by_tx'])."""
    from harness.lib import cvsig as SG, cvcheck as CK
    for ev in evs:
        if ev.exc or not any(t is None for t in ev.missing.values()) or CK.run_flags(ev.run):
            continue
        by = ev.raw.get('_must_lin_by_tx') or {}
        todo = [p for p, t in ev.missing.items() if t is None]
        for p in todo:
            txs = [t for t, ms in by.items() if p in ms and t in ev.xs]
            if not txs:
                continue
            ok = True
            for t in txs:
                ce = CK._cds_end(ev.case, t)
                ws = SG.decode_wits([w for q, w in O.call('cv_must_witnesses_of', [ev.xs[t], [p]])], ev.recs[t])
                if ce is None or not SG.explained_by_stoploss(ev.xs[t], ev.recs[t], ce, ws):
                    ok = False
                    break
            if ok:
                ev.missing[p] = F_STOPLOSS

def classify_missing(evs):
    """missing obliged peptides of AS cases: C01-stoploss on the AS backbone (the event removes the stop codon or
    shifts the frame, translation reads into the 3'UTR; products wholly behind the annotated stop codon that carry
    no record themselves are not reported)"""
    from harness.lib import gen_reference as G
    for ev in evs:
        c = ev.case
        if ev.exc or not ev.missing or not c.get('as_records'):
            continue
        todo = [p for p, t in ev.missing.items() if t is None]
        if not todo:
            continue
        prots = CG.proteome(c['world'])
        acc = [False] * len(todo)
        for tx_id in sorted(set(r['tx'] for r in c['as_records'])):
            gene = next(g for g in c['world']['genes'] if any(t['id'] == tx_id for t in g['transcripts']))
            tx = next(t for t in gene['transcripts'] if t['id'] == tx_id)
            if not tx['cds']:
                continue
            x = CG.tx_input(c, tx_id, ev.recs.get(tx_id, []), ev.run, prots)
            for a in CG2.as_inputs(c, tx_id):
                o = O.call('cv_as_stoploss', [x, a, tx['cds'][1], todo])
                acc = [u or bool(w) for u, w in zip(acc, o)]
        for p, h in zip(todo, acc):
            if h:
                ev.missing[p] = F_STOPLOSS

def classify_missing_donor(evs):
    """C01 face of C02-as-donor-record (an <INS>/<SUB> whose donor segment carries small records), two narrow forms:
      prefix  the run reports an unrealizable sequence classified C02-as-donor-record that is a proper prefix of the
              missing peptide (the path was cut in front of a donor record: the full product is lost with it)
      corrupt the same with 'runs together with it for >= 4 residues from either end, up to one residue' (the donor part garbled)
      twin    the run reports another OBLIGED peptide whose derivation carries the same AS record and the same
              records inside / behind the event over an overlapping span, but the OTHER allele of a record in front
              of the event: the paths through the inserted sub-graph keep only one allele of an upstream record
              (which one depends on the hash order)
      downstream  the run reports a garbled sequence under this AS record and the peptide has an obliged derivation that
              carries no record of the donor segment and reaches behind the start of the inserted piece (the garbled
              path loses the frame; haplotypes that CARRY the donor's frameshift record are not covered by this form)
      anchor  the run reports a garbled sequence (any header) and the peptide is an obliged product of the PLAIN transcript
              whose span reaches the anchor region of the AS record (the slip garbles the reference path as well)
      flicker see classify_flicker (applied first)"""
    for ev in evs:
        c = ev.case
        if ev.exc or not ev.missing or not c.get('as_records'):
            continue
        todo = [p for p, t in ev.missing.items() if t is None]
        if not todo:
            continue
        cut = [q for q, t in ev.extra.items() if t == F_AS_DONOR]
        def lcp1(q, p):
            """length of the common prefix of q and p up to one differing residue"""
            n, miss = 0, 0
            for x_, y_ in zip(q, p):
                if x_ != y_:
                    miss += 1
                    if miss > 1:
                        break
                n += 1
            return n
        def near(q, p):
            # the corrupted sequence q and the lost product p run together for at least 4 residues from either end
            # (q a cut-off prefix of p; q = p with the donor part garbled), up to the twin allele of one record
            return q != p and (lcp1(q, p) >= 4 or lcp1(q[::-1], p[::-1]) >= 4)
        for p in todo:
            if any(near(q, p) for q in cut):
                ev.missing[p] = F_AS_DONOR
        todo = [p for p in todo if ev.missing[p] is None]
        if not todo:
            continue
        prots = CG.proteome(c['world'])
        coarse = {}
        if cut:
            # anchor form: the frame slip next to the anchor also garbles the path that does NOT carry the AS record (the
            # run reports such a sequence, classified C02-as-donor-record); an obliged product of the PLAIN transcript whose
            # span reaches the anchor region (3 nt in front of it or anything behind) is lost with it
            for tx_id in sorted(set(r['tx'] for r in c['as_records'])):
                asr = [a for a in CG2.as_inputs(c, tx_id) if a[3]]
                if not asr or not ev.recs.get(tx_id):
                    continue
                x = CG.tx_input(c, tx_id, ev.recs.get(tx_id, []), ev.run, prots)
                lo = min(a[0] for a in asr) - 3
                for q, w in O.call('cv_must_witnesses_of', [x, todo]):
                    pq = O.U(q)
                    if ev.missing.get(pq, 0) is None and w[1] + 3 * w[5] > lo:
                        ev.missing[pq] = F_AS_DONOR
            todo = [p for p in todo if ev.missing[p] is None]
            if not todo:
                continue
        reported = [q for q in ev.must if q in ev.got][:300]
        for tx_id in sorted(set(r['tx'] for r in c['as_records'])):
            x = CG.tx_input(c, tx_id, ev.recs.get(tx_id, []), ev.run, prots)
            for a in CG2.as_inputs(c, tx_id):
                if not a[3]:
                    continue                      # donor segment without small records: judged strictly
                ders = O.call('cv_as_must_derivs', [x, a, list(ev.missing) + reported])
                by = {}
                for q, h, st, ia, ib in ders:
                    hh = [(s0, e0, O.U(al)) for s0, e0, al in h]
                    up = tuple(w for w in hh if w[1] <= a[0])
                    rest = tuple(w for w in hh if w[1] > a[0])
                    # records of the haplotype that lie inside the peptide's own span (haplotype coordinates)
                    lo, hi, sh, inspan = st + 3 * ia, st + 3 * ib, 0, []
                    for w in hh:
                        p0 = w[0] + sh
                        if p0 < hi and lo < p0 + max(1, len(w[2])):
                            inspan.append(w)
                        sh += len(w[2]) - (w[1] - w[0])
                    by.setdefault(O.U(q), []).append((up, rest, ia, ib, inspan, hi))
                rep = [d for q in reported for d in by.get(q, [])]
                as_ids = [r['row']['id'] for r in c['as_records'] if r['tx'] == tx_id and [r['a'], r['b']] == a[:2]]
                garbled = [q for q in cut if any(set(h.split('|')[1:]) & set(as_ids) for h in ev.got.get(q, []))]
                behind = a[0] + len(a[2])          # first backbone position behind the inserted piece
                for p in todo:
                    if ev.missing[p] is not None:
                        continue
                    for up, rest, ia, ib, _sp, _h in by.get(p, []):
                        if any(r2 == rest and u2 != up and ia < b2 and a2 < ib for u2, r2, a2, b2, _s2, _h2 in rep):
                            ev.missing[p] = F_AS_DONOR
                            break
                    ds = by.get(p, [])
                    if ev.missing[p] is None and garbled and any(
                            not any(a[0] <= w[0] < behind for w in rest) and sp_hi > a[0] for up, rest, ia, ib, sp, sp_hi in ds):
                        # downstream form: the run reports a garbled sequence (classified C02-as-donor-record) under this AS
                        # record, and p has an obliged derivation that carries NO record of the donor segment and reaches behind
                        # the start of the inserted piece: the garbled path loses the frame, everything behind it is lost with it
                        ev.missing[p] = F_AS_DONOR
                    if ev.missing[p] is None and ds and any(all(w[0] < behind for w in sp) for up, rest, ia, ib, sp, _h in ds):
                        # coarse form: p has an obliged derivation whose span holds no record BEHIND the event -- the garbling
                        # concerns the inserted piece itself; haplotypes with a downstream record stay strictly judged
                        coarse.setdefault(id(ev), set()).add(p)
                # lost-twin extension of the downstream form: p has an obliged derivation WITHOUT any record of the donor segment
                # that reaches behind the start of the inserted piece, and its twin WITHOUT p's records behind the event --
                # another obliged peptide over an overlapping span whose records are a subset of p's -- is itself lost in this
                # run (classified by one of the forms above): the path that carries the insertion but not the donor's records
                # is broken whatever lies behind it.  Haplotypes that carry a donor record (seeded C01-7) are not covered.
                lost = []
                for q2, t2 in ev.missing.items():
                    if t2 is None and q2 not in coarse.get(id(ev), ()):
                        continue
                    for up2, rest2, a2, b2, _s2, _h2 in by.get(q2, []):
                        if not any(a[0] <= w[0] < behind for w in rest2):
                            lost.append((q2, set(up2) | set(rest2), a2, b2))
                for p in todo:
                    if ev.missing[p] is not None or p in coarse.get(id(ev), ()):
                        continue
                    for up, rest, ia, ib, sp, sp_hi in by.get(p, []):
                        if any(a[0] <= w[0] < behind for w in rest) or sp_hi <= a[0]:
                            continue
                        if any(q2 != p and r2 <= (set(up) | set(rest)) and ia < b2 and a2 < ib for q2, r2, a2, b2 in lost):
                            ev.missing[p] = F_AS_DONOR
                            break
        _apply_coarse(ev, coarse)

def _apply_coarse(ev, coarse):
    for p in coarse.get(id(ev), ()):
        if ev.missing.get(p, 0) is None:
            ev.missing[p] = F_AS_DONOR
            ev.raw['as_donor_coarse_missing'] = ev.raw.get('as_donor_coarse_missing', 0) + 1

FLICKER_SEEDS = ('0', '1', '2')      # the identical case again, TWICE per worker process (the output also depends on the
                                     # state of the process: the second execution in one process can differ): 6 executions,
                                     # same PYTHONHASHSEED and varied

def _donor_txs(c):
    """transcripts of the case that carry an <INS>/<SUB> record with >= 1 small record inside its donor segment"""
    out = []
    for r in c.get('as_records', []):
        if r['kind'] != 'DEL' and r['tx'] not in out and any(a[3] for a in CG2.as_inputs(dict(c, as_records=[r]), r['tx'])):
            out.append(r['tx'])
    return out

F_CIRC_FLICKER = 'C01-circ-indel-flicker'

def _circ_indel_keys(c):
    """ids of the circRNA records whose circle holds >= 1 length-changing small record of their transcript"""
    out = []
    for r in c.get('circ_records', []):
        ins = [row for row in c.get('gvf', []) if row[5] == r['tx'] and len(row[3]) != len(row[4])
               and any(a <= row[1] - 1 and row[1] - 1 + len(row[3]) <= b for a, b in r['frags'])]
        if ins:
            out.append(r['row']['id'])
    return out

def _tx_set(fasta, txs):
    """sequences reported for the given transcripts (a header entry starts with the transcript id)"""
    return frozenset(sq for h, sq in fasta if any(e.split('|')[0] in txs for e in h.split(' ')))

FLICKER_SEEDS_2 = ('0', '0', '1', '2', '3', '4')   # second stage, for disagreements that are STILL unexplained

def classify_flicker(evs, seeds=FLICKER_SEEDS, stage=1):
    """flicker form of C02-as-donor-record, applied BEFORE the other forms and only to cases that HAVE an AS record with
    >= 1 small record inside its donor segment: when such a case shows an unexplained miss (C01) or an unexplained
    unrealizable sequence (C02), the identical case is executed 2 * len(seeds) more times (twice per worker process, one process per hash seed); if the sets of sequences reported
    for the affected transcript differ between those executions (the original one included) -- i.e. the disagreement does
    not reproduce in every run, or the runs disagree among themselves -- the engine's output is not a function of the
    input (hash seed / object addresses) and every still-unexplained disagreement of that transcript is tagged.
    A disagreement that reproduces identically in all executions goes on to the other forms; if it is STILL unexplained
    after them, a second stage executes the case 12 more times (6 processes x 2) (chance agreement of 7 executions of a case that flickers
    in one run out of three is ~9 %: seen at thorough volume) before it becomes a VIOLATION."""
    from harness.lib import impl as I
    import json as _json
    sel = []
    for ev in evs:
        c = ev.case
        if ev.exc or not (c.get('as_records') or c.get('circ_records')):
            continue
        if not (any(t is None for t in ev.missing.values()) or any(t is None for t in ev.extra.values())):
            continue
        txs = _donor_txs(c)
        if txs:
            sel.append((ev, txs, F_AS_DONOR, txs))
            continue
        # second class (C01-circ-indel-flicker): a circRNA whose circle holds >= 1 insertion / deletion record; misses only
        keys = _circ_indel_keys(c)
        if keys and any(t is None for t in ev.missing.values()):
            sel.append((ev, keys, F_CIRC_FLICKER, sorted(set(r['tx'] for r in c['circ_records'] if r['row']['id'] in keys))))
    if not sel:
        return
    # every case twice in a row, chunked so that the two executions run in ONE worker process
    cases = []
    for ev, _k, _f, _t in sel:
        cc = _json.loads(_json.dumps(dict({k: v for k, v in ev.case.items() if not k.startswith('_')}, runs=[ev.run])))
        cases += [cc, _json.loads(_json.dumps(cc))]
    sets = [list(ev.raw.get('_flick_sets') or [_tx_set(ev.fasta, keys)]) for ev, keys, _f, _t in sel]
    for i, hs in enumerate(seeds):
        res = I.run_cases('callvariant2', cases, jobs=max(1, min(16, len(sel))), tag='flick%d_%d' % (stage, i), hashseed=hs, timeout=3600)
        for k2, r in enumerate(res):
            k = k2 // 2
            r0 = r['runs'][0] if 'runs' in r else r
            sets[k].append(_tx_set(r0.get('fasta', []), sel[k][1]) if 'fasta' in r0 else frozenset(['<' + r0.get('__exc__', 'exc') + '>']))
    for (ev, keys, tag, txs), ss in zip(sel, sets):
        ev.raw['as_donor_reruns'] = len(ss) - 1
        ev.raw['_flick_sets'] = ss
        if len(set(ss)) <= 1:
            continue                                  # reproduces identically: strict path
        ev.raw['as_donor_flicker_sets'] = len(set(ss))
        mine = set().union(*[ev.raw.get('_must_by_tx', {}).get(t, set()) for t in txs]) if ev.raw.get('_must_by_tx') else set(ev.missing)
        for p, t in list(ev.missing.items()):
            if t is None and p in mine:              # obliged by the affected transcript
                ev.missing[p] = tag
        if tag == F_AS_DONOR:
            for p, t in list(ev.extra.items()):
                if t is None and any(e.split('|')[0] in keys for e in ev.got.get(p, [])):
                    ev.extra[p] = tag

F_LASTOP = 'C02-lookahead-sees-stop'
_LASTOP_AA = 'ACFGHIKLMNPQRSTVWYU'

def lastop_hits(rule, run_flagged, todo, realizable_many):
    """C02-lookahead-sees-stop (open finding of the linear streams, cvcheck.classify): thrombin's two-residue look-ahead
    (?=[^DE][^DE]) is matched against the translated string INCLUDING the stop symbol, so ...[AFGILTVM][AFGILTVWA]PR|X* is
    cleaved although only one residue follows.  The SAME executable test on another backbone: rule thrombin, the sequence
    ends in [AFGILTVM][AFGILTVWA]PR and becomes realizable when one more residue is appended.
    realizable_many(candidates) -> list of booleans on the backbone in question (circle / AS backbone)."""
    import re
    hit = [False] * len(todo)
    if rule != 'thrombin' or run_flagged:
        return hit
    idx = [k for k, p in enumerate(todo) if re.search(r'[AFGILTVM][AFGILTVWA]PR$', p)]
    if not idx:
        return hit
    cands = [todo[k] + r for k in idx for r in _LASTOP_AA]
    for n, ok in enumerate(realizable_many(cands)):
        if ok:
            hit[idx[n // len(_LASTOP_AA)]] = True
    return hit

def classify(evs):
    classify_missing_linear_stoploss(evs)
    classify_missing(evs)
    classify_flicker(evs)
    for ev in evs:
        if ev.exc or not ev.extra:
            continue
        c = ev.case
        todo = [p for p, t in ev.extra.items() if t is None]
        if todo and c.get('circ_records'):
            # D14b-lookbehind on a circle (e.g. trypsin's (?<=W)K(?=P))
            soft = [False] * len(todo)
            for tx_id in sorted(set(r['tx'] for r in c['circ_records'])):
                for ck in CG2.circ_inputs(c, tx_id, ev.run, CG.proteome(c['world'])):
                    o = O.call('cv_circ_realizable_relaxed2', [ck, todo])
                    soft = [a or bool(b) for a, b in zip(soft, o)]
            for p, h in zip(todo, soft):
                if h:
                    ev.extra[p] = F_LOOKBEHIND
            todo = [p for p in todo if ev.extra[p] is None]
            if todo:
                def _circ_real(cands):
                    acc = [False] * len(cands)
                    for tx_id in sorted(set(r['tx'] for r in c['circ_records'])):
                        for ck in CG2.circ_inputs(c, tx_id, ev.run, CG.proteome(c['world'])):
                            acc = [a or bool(b) for a, b in zip(acc, O.call('cv_circ_realizable', [ck, cands]))]
                    return acc
                from harness.lib import cvcheck as _CK
                for p, h in zip(todo, lastop_hits(ev.run['rule'], bool(_CK.run_flags(ev.run)), todo, _circ_real)):
                    if h:
                        ev.extra[p] = F_LASTOP
                todo = [p for p in todo if ev.extra[p] is None]
        fine = todo[:25]                 # bound the oracle work of the fine tier
        if not todo or not c.get('as_records'):
            continue
        prots = CG.proteome(c['world'])
        # D14b-lookbehind (rule look-behind evaluated node-locally, e.g. trypsin's (?<=W)K(?=P)) on an AS backbone
        soft = [False] * len(todo)
        for tx_id in sorted(set(r['tx'] for r in c['as_records'])):
            x = CG.tx_input(c, tx_id, ev.recs.get(tx_id, []), ev.run, prots)
            o = O.call('cv_as_realizable_relaxed2', [x, CG2.as_inputs(c, tx_id), todo])
            soft = [a or bool(b) for a, b in zip(soft, o)]
        for p, h in zip(todo, soft):
            if h:
                ev.extra[p] = F_LOOKBEHIND
        todo = [p for p in todo if ev.extra[p] is None]
        if todo:
            def _as_real(cands):
                acc = [False] * len(cands)
                for tx_id in sorted(set(r['tx'] for r in c['as_records'])):
                    x = CG.tx_input(c, tx_id, ev.recs.get(tx_id, []), ev.run, prots)
                    acc = [a or bool(b) for a, b in zip(acc, O.call('cv_as_realizable', [x, CG2.as_inputs(c, tx_id), cands]))]
                return acc
            from harness.lib import cvcheck as _CK
            for p, h in zip(todo, lastop_hits(ev.run['rule'], bool(_CK.run_flags(ev.run)), todo, _as_real)):
                if h:
                    ev.extra[p] = F_LASTOP
            todo = [p for p in todo if ev.extra[p] is None]
        fine = todo[:25]
        reqs = []
        for tx_id in set(r['tx'] for r in c['as_records']):
            asr = CG2.as_inputs(c, tx_id)
            x = CG.tx_input(c, tx_id, ev.recs.get(tx_id, []), ev.run, prots)
            for lst in donor_cut_variants(asr, len(x[0])) + donor_slip_variants(asr, len(x[6])):
                reqs.append(('cv_as_realizable', [x, lst, fine]))
        hit = [False] * len(fine)
        for o in O.call_many(reqs[:400]):
            hit = [a or bool(b) for a, b in zip(hit, o)]
        for p, h in zip(fine, hit):
            if h:
                ev.extra[p] = F_AS_DONOR
        # anchor slip: the frame slip also shows on the path that does NOT carry the AS record -- the sequence is realizable on
        # the plain transcript when 1-2 reference bases from 3 nt in front of to 8 nt behind either end of the replaced interval of an <INS>/<SUB> with donor records are dropped
        rest_ = [p for p in todo if ev.extra[p] is None]
        if rest_:
            reqs2 = []
            for tx_id in sorted(set(r['tx'] for r in c['as_records'])):
                x = CG.tx_input(c, tx_id, ev.recs.get(tx_id, []), ev.run, prots)
                for a in CG2.as_inputs(c, tx_id):
                    if not a[3]:
                        continue
                    # window: 3 nt in front of to 8 nt behind either end of the replaced interval, extended over the records
                    # that follow the event within 15 nt (the slip sits at the end of the variant bubble behind the anchor)
                    hi_ = max([a[1] + 9] + [v[1] + 3 for v in x[6] if a[1] <= v[0] <= a[1] + 15])
                    for q0 in sorted(set(q_ for lo_, h_ in ((a[0] - 3, a[0] + 9), (a[1] - 3, hi_)) for q_ in range(max(0, lo_), min(len(x[0]) - 2, h_)))):
                        for d in (1, 2):
                            if any(v[0] < q0 + d and q0 < v[1] for v in x[6]) or len(x[6]) > 9:
                                continue
                            x2 = list(x); x2[6] = sorted(x[6] + [[q0, q0 + d, '', True]], key=lambda v: (v[0], v[1]))
                            reqs2.append(('cv_realizable', [x2, rest_]))
            hit2 = [False] * len(rest_)
            for o in O.call_many(reqs2[:300]):
                hit2 = [u or bool(w) for u, w in zip(hit2, o)]
            for p, h in zip(rest_, hit2):
                if h:
                    ev.extra[p] = F_AS_DONOR
        # coarse tier: the peptide is reported FOR an <INS>/<SUB> record whose donor segment carries small records
        with_donor = set()
        for r in c['as_records']:
            if r['kind'] != 'DEL' and any(a[3] for a in CG2.as_inputs(dict(c, as_records=[r]), r['tx'])):
                with_donor.add(r['row']['id'])
        for p in todo:
            if ev.extra[p] is None and any(set(h.split('|')[1:]) & with_donor for h in ev.got.get(p, [])):
                ev.extra[p] = F_AS_DONOR
                ev.raw['as_donor_coarse'] = ev.raw.get('as_donor_coarse', 0) + 1
    classify_missing_donor(evs)
    classify_flicker(evs, seeds=FLICKER_SEEDS_2, stage=2)
