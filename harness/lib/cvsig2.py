"""Finding signatures for the alternative-splicing / circRNA streams of C01/C02 (new file; cvsig.py is not edited).
classify(evs) attaches a finding id to unexplained missing / unrealizable peptides of extended cases."""
from harness.lib import oracle as O, cvgen as CG, cvgen2 as CG2

F_AS_DONOR = 'C02-as-donor-record'
F_LOOKBEHIND = 'D14b-lookbehind'

def donor_cut_variants(asr, tx_len):
    """for every AS record whose donor segment carries small records: the record lists in which the transcript
    ENDS inside that donor segment, 0-2 nt in front of one of those records (mechanism of
    C02-as-donor-record-truncation: the path that carries the insertion / substitution but NOT the donor's
    record is cut off in front of the codon holding that record, and the open end is emitted as a peptide)"""
    out = []
    for i, r in enumerate(asr):
        a_s, a_e, donor, dv = r
        for w in dv:
            for c in range(max(0, w[0] - 2), w[0] + 1):
                r2 = [a_s, tx_len, donor[:c], [v for v in dv if v[1] <= c]]
                lst = [q for j, q in enumerate(asr) if j != i and q[1] <= a_s and not (q[0] == q[1] == a_s == a_e)] + [r2]
                lst.sort(key=lambda q: (q[0], q[1]))
                out.append(lst)
    return out

def donor_slip_variants(asr, n_other=0, max_records=13):
    """the record lists in which ONE donor record w has extra pseudo-alleles: the 1 or 2 reference bases at its
    position dropped (the path slips into another reading-frame copy at the record's bubble), its alternative
    allele short of its first / last base, or -- insertion / deletion -- the record placed one base off.
    One record at a time (the oracle enumerates 2^n subsets); lists with more than max_records records are
    left to the coarse tier."""
    out = []
    for i, r in enumerate(asr):
        a_s, a_e, donor, dv = r
        for w in dv:
            extra = []
            for d in (1, 2):
                if w[0] + d <= len(donor):
                    extra.append([w[0], w[0] + d, '', True])
            if len(w[2]) >= 2:
                extra.append([w[0], w[1], w[2][:-1], True])
                extra.append([w[0], w[1], w[2][1:], True])
            if len(w[2]) != w[1] - w[0]:
                for d in (-1, 1):
                    s0, e0 = w[0] + d, w[1] + d
                    if 0 <= s0 and e0 <= len(donor):
                        extra.append([s0, e0, donor[s0] + w[2][1:], True])
            dv2 = sorted(dv + extra, key=lambda v: (v[0], v[1], v[2]))
            uniq = []
            for v in dv2:
                if v not in uniq:
                    uniq.append(v)
            if n_other + sum(len(q[3]) for j, q in enumerate(asr) if j != i) + len(uniq) > max_records:
                continue
            out.append([q if j != i else [a_s, a_e, donor, uniq] for j, q in enumerate(asr)])
    return out

F_STOPLOSS = 'C01-stoploss'

def classify_missing(evs):
    """missing obliged peptides of AS cases: C01-stoploss on the AS backbone (the event removes the stop codon or
    shifts the frame, translation reads into the 3'UTR; products wholly behind the annotated stop codon that carry
    no record themselves are not reported)"""
    from harness.lib import gen_reference as G
    for ev in evs:
        c = ev.case
        if ev.exc or not ev.missing or not c.get('as_records'):
            continue
        todo = [p for p, t in ev.missing.items() if t is None]
        if not todo:
            continue
        prots = CG.proteome(c['world'])
        acc = [False] * len(todo)
        for tx_id in sorted(set(r['tx'] for r in c['as_records'])):
            gene = next(g for g in c['world']['genes'] if any(t['id'] == tx_id for t in g['transcripts']))
            tx = next(t for t in gene['transcripts'] if t['id'] == tx_id)
            if not tx['cds']:
                continue
            x = CG.tx_input(c, tx_id, ev.recs.get(tx_id, []), ev.run, prots)
            for a in CG2.as_inputs(c, tx_id):
                o = O.call('cv_as_stoploss', [x, a, tx['cds'][1], todo])
                acc = [u or bool(w) for u, w in zip(acc, o)]
        for p, h in zip(todo, acc):
            if h:
                ev.missing[p] = F_STOPLOSS

def classify(evs):
    classify_missing(evs)
    for ev in evs:
        if ev.exc or not ev.extra:
            continue
        c = ev.case
        todo = [p for p, t in ev.extra.items() if t is None]
        if todo and c.get('circ_records'):
            # D14b-lookbehind on a circle (e.g. trypsin's (?<=W)K(?=P))
            soft = [False] * len(todo)
            for tx_id in sorted(set(r['tx'] for r in c['circ_records'])):
                for ck in CG2.circ_inputs(c, tx_id, ev.run, CG.proteome(c['world'])):
                    o = O.call('cv_circ_realizable_relaxed2', [ck, todo])
                    soft = [a or bool(b) for a, b in zip(soft, o)]
            for p, h in zip(todo, soft):
                if h:
                    ev.extra[p] = F_LOOKBEHIND
            todo = [p for p in todo if ev.extra[p] is None]
        fine = todo[:25]                 # bound the oracle work of the fine tier
        if not todo or not c.get('as_records'):
            continue
        prots = CG.proteome(c['world'])
        # D14b-lookbehind (rule look-behind evaluated node-locally, e.g. trypsin's (?<=W)K(?=P)) on an AS backbone
        soft = [False] * len(todo)
        for tx_id in sorted(set(r['tx'] for r in c['as_records'])):
            x = CG.tx_input(c, tx_id, ev.recs.get(tx_id, []), ev.run, prots)
            o = O.call('cv_as_realizable_relaxed2', [x, CG2.as_inputs(c, tx_id), todo])
            soft = [a or bool(b) for a, b in zip(soft, o)]
        for p, h in zip(todo, soft):
            if h:
                ev.extra[p] = F_LOOKBEHIND
        todo = [p for p in todo if ev.extra[p] is None]
        fine = todo[:25]
        reqs = []
        for tx_id in set(r['tx'] for r in c['as_records']):
            asr = CG2.as_inputs(c, tx_id)
            x = CG.tx_input(c, tx_id, ev.recs.get(tx_id, []), ev.run, prots)
            for lst in donor_cut_variants(asr, len(x[0])) + donor_slip_variants(asr, len(x[6])):
                reqs.append(('cv_as_realizable', [x, lst, fine]))
        hit = [False] * len(fine)
        for o in O.call_many(reqs[:400]):
            hit = [a or bool(b) for a, b in zip(hit, o)]
        for p, h in zip(fine, hit):
            if h:
                ev.extra[p] = F_AS_DONOR
        # coarse tier: the peptide is reported FOR an <INS>/<SUB> record whose donor segment carries small records
        with_donor = set()
        for r in c['as_records']:
            if r['kind'] != 'DEL' and any(a[3] for a in CG2.as_inputs(dict(c, as_records=[r]), r['tx'])):
                with_donor.add(r['row']['id'])
        for p in todo:
            if ev.extra[p] is None and any(set(h.split('|')[1:]) & with_donor for h in ev.got.get(p, [])):
                ev.extra[p] = F_AS_DONOR
                ev.raw['as_donor_coarse'] = ev.raw.get('as_donor_coarse', 0) + 1
