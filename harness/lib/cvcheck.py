"""Shared evaluation engine of the C01/C02/C03 correspondence.

run_batch(ctx, cases)  runs every case's runs through the real callVariant (harness/impl/callvariant.py)
and through the extracted specification (Model/Spec.v via ocaml/oracle) and returns, per (case, run):
  got        {sequence: [header entries]}        (or the exception)
  must       set of obliged peptides             (union over the transcripts carrying records)
  missing    must - got        with a classification (finding id or None)
  extra      got not realizable                  with a classification (finding id or None)
  slack      |got - must| , |may_novel - got|
Classification of a disagreement uses the executable signatures of harness/lib/cvsig.py.
"""
import os, re, sys, json, collections
from harness.lib import oracle as O, impl as I, cvgen as CG, cvsig as SG, rules as R
sys.path.insert(0, os.path.join(os.path.dirname(os.path.dirname(os.path.abspath(__file__))), 'translate'))
import expasy as _E

# Other checks may rebuild ocaml/oracle while this one runs (the build replaces the binary under a lock the
# callers do not take): retry a failed oracle call a few times instead of failing the whole run.
if not getattr(O, '_cv_robust', False):
    import time as _time
    _orig_call_many = O.call_many
    def _robust_call_many(reqs, chunk=None):
        last = None
        for attempt in range(8):
            try:
                return _orig_call_many(reqs, chunk)
            except (RuntimeError, OSError) as e:
                last = e
                _time.sleep(3 + 2 * attempt)
        raise last
    O.call_many = _robust_call_many
    O._cv_robust = True

F_STOPLOSS = 'C01-stoploss'
F_D14 = 'D14'
F_PEPSIN = 'D14b-lookbehind'
F_ADJ = 'C01-nola-adjacent-sites'
F_FUSCRASH = 'C01-fusion-expand-crash'
F_FUSALIGN = 'C01-fusion-align-crash'
F_FUSJUNC = 'C02-fusion-junction-indel'
F_FUSDEL2 = 'C02-fusion-frameshift-indel-pair'
F_LASTOP = 'C02-lookahead-sees-stop'

# ------------------------------------------------------------------ rule classes (from the repo's table)
_RC = {}
def rule_classes():
    if _RC:
        return _RC
    t = R.tables()['EXPASY_RULES']
    la, nola, wide = [], [], []
    for n, p in t.items():
        if n == 'trypsin_exception':
            continue
        alts = [_E.parse_site_alt(a) for a in _E.alternatives(p)]
        if any(len(a) == 0 for b, c, a in alts):
            nola.append(n)
        elif n.startswith('pepsin'):
            wide.append(n)
        else:
            la.append(n)
    _RC.update(la=la, nola=nola, wide=wide)
    return _RC

# ------------------------------------------------------------------ evaluation
def _tx_of(case, tx_id):
    for g in case['world']['genes']:
        for t in g['transcripts']:
            if t['id'] == tx_id:
                return g, t
    raise KeyError(tx_id)

class Eval:
    """everything known about one (case, run)"""
    __slots__ = ('ci', 'ri', 'case', 'run', 'exc', 'got', 'must', 'missing', 'extra', 'unreal', 'may_novel',
                 'xs', 'recs', 'fasta', 'raw')

def run_batch(ctx, cases, want_may=True, tag='cv'):
    res = I.run_cases('callvariant', cases, jobs=ctx.jobs, tag=tag, timeout=7200)
    evs = []
    reqs = []
    for ci, c in enumerate(cases):
        by_tx, dropped = CG.tx_records(c)
        prots = CG.proteome(c['world'])
        c['_by_tx'] = by_tx
        r_all = res[ci]
        for ri, run in enumerate(c['runs']):
            ev = Eval()
            ev.ci, ev.ri, ev.case, ev.run = ci, ri, c, run
            r = r_all['runs'][ri] if 'runs' in r_all else r_all
            ev.raw = r
            ev.exc = r if '__exc__' in r else None
            ev.fasta = r.get('fasta', []) if not ev.exc else []
            ev.got = collections.OrderedDict()
            for h, s in ev.fasta:
                ev.got.setdefault(s, []).extend(h.split(' '))
            ev.recs = by_tx
            ev.xs = {}
            ev.must = set(); ev.missing = {}; ev.extra = {}; ev.unreal = set(); ev.may_novel = set()
            peps = list(ev.got.keys())
            for tx_id, recs in by_tx.items():
                if not recs:
                    continue
                x = CG.tx_input(c, tx_id, recs, run, prots)
                ev.xs[tx_id] = x
                if run.get('skip_oracle'):
                    continue
                fl = run_flags(run)
                if fl:
                    reqs.append((('cv_must_fl', [x, fl]), (ev, 'must', tx_id)))
                    reqs.append((('cv_realizable_fl', [x, fl, peps]), (ev, 'real', tx_id)))
                    if want_may:
                        reqs.append((('cv_may_novel_fl', [x, fl]), (ev, 'may', tx_id)))
                    continue
                reqs.append((('cv_must', x), (ev, 'must', tx_id)))
                reqs.append((('cv_realizable', [x, peps]), (ev, 'real', tx_id)))
                if want_may:
                    reqs.append((('cv_may_novel', x), (ev, 'may', tx_id)))
            # fusion backbones (Model/SpecFusion.v fuse_gen): soundness always, completeness when the run asks for it
            if not (run.get('skip_oracle') or run_flags(run)):
                for api, arg, kind, fid in fusion_requests(c, run, by_tx, prots, peps):
                    reqs.append(((api, arg), (ev, kind, fid)))
            evs.append(ev)
    outs = O.call_parallel([q for q, _ in reqs], jobs=ctx.jobs)
    real = collections.defaultdict(lambda: None)
    for (q, (ev, kind, tx_id)), o in zip(reqs, outs):
        if isinstance(o, str):
            raise RuntimeError('oracle error %s on %s' % (o, q[0]))
        if kind == 'must':
            ev.must |= set(O.U(p) for p in o)
        elif kind == 'may':
            ev.may_novel |= set(O.U(p) for p in o)
        else:
            key = id(ev)
            cur = real[key]
            flags = [bool(b) for b in o]
            real[key] = flags if cur is None else [a or b for a, b in zip(cur, flags)]
    for ev in evs:
        if ev.exc or ev.run.get('skip_oracle'):
            continue
        flags = real[id(ev)] or [False] * len(ev.got)
        ev.unreal = set(p for p, ok in zip(ev.got.keys(), flags) if not ok)
        miss = ev.must - set(ev.got.keys())
        ev.missing = {p: None for p in miss}
        ev.extra = {p: None for p in ev.unreal}
    classify(evs)
    return evs

def fusion_args(c, f, run, by_tx, prots=None):
    """[xd; bp; mid; mvars; xa; bp'] for the oracle (general breakpoints)"""
    from harness.lib import cvgen_fus as CF
    fi = CF.fusion_inputs(c, f)
    xd = CG.tx_input(c, f['donor_tx'], by_tx.get(f['donor_tx'], []), run, prots)
    xa = CG.tx_input(c, f['acc_tx'], by_tx.get(f['acc_tx'], []), run, prots)
    return [xd, fi['bp'], fi['mid'], [[r['s'], r['e'], r['alt'], r['ok']] for r in fi['mrecs']], xa, fi['abp']]

def fusion_requests(c, run, by_tx, prots, peps):
    """oracle requests for the fusion records of a case: (api, argument, 'real' | 'must', fusion id).
    Also used by harness/lib/cvcheck2.py for cases that combine a fusion with AS / circRNA records."""
    out = []
    for f in c.get('fusions', []):
        a = fusion_args(c, f, run, by_tx, prots)
        out.append(('cv_fusion_realizable_g', a + [peps], 'real', f['id']))
        if run.get('fusion_must'):
            out.append(('cv_fusion_must_g', a, 'must', f['id']))
    return out

def fusion_fs_coupling(c, f, by_tx):
    """precondition of C02-fusion-frameshift-indel-pair: the fusion carries a FRAMESHIFTING indel A on the donor
    side (donor exons before the breakpoint or the retained donor intron piece) and, downstream of A, another
    indel B inside one of the fusion's sub-graphs (a retained intron piece or the acceptor part behind the
    breakpoint).  Returns the length changes n of such indels A ([] = precondition not met)"""
    from harness.lib import cvgen_fus as CF
    fi = CF.fusion_inputs(c, f)
    d = lambda r: len(r['alt']) - (r['e'] - r['s'])
    bp, nm = fi['bp'], len(fi['mid'])
    # (start, end, length change, donor side?, inside a sub-graph?) in coordinates of the fused backbone
    rs = [(r['s'], r['e'], d(r), True, False) for r in by_tx.get(f['donor_tx'], []) if r['e'] <= bp] + \
         [(bp + r['s'], bp + r['e'], d(r), r['e'] <= fi['nleft'], True) for r in fi['mrecs']] + \
         [(bp + nm + r['s'] - fi['abp'], bp + nm + r['e'] - fi['abp'], d(r), False, True)
          for r in by_tx.get(f['acc_tx'], []) if r['s'] >= fi['abp']]
    return sorted(set(abs(a[2]) for a in rs if a[3] and a[2] % 3 != 0
                      and any(b[4] and b[2] != 0 and b is not a and b[0] >= a[1] for b in rs)))

def run_flags(run):
    """[sect, w2f] when the run uses an alt-translation flag, else None"""
    if run.get('sect') or run.get('w2f'):
        return [bool(run.get('sect')), bool(run.get('w2f'))]
    return None

def unlimited(x):
    y = list(x)
    y[9] = [x[9][0], -1, 0, 1000000]
    return y

def is_fusion_crash(ev):
    """callVariant aborts in ThreeFrameTVG.expand_alignments ('Downstream node becomes empty ...') while
    building the graph of a fusion transcript"""
    r = ev.exc or {}
    return (bool(ev.case.get('fusions')) and r.get('__exc__') == 'ValueError'
            and 'expand_alignments' in r.get('tb', '') and 'call_peptide_fusion' in r.get('tb', ''))

F_NOLACRASH = 'C01-nola-expand-crash'

def is_nola_crash(ev):
    """residue of the rule-without-look-ahead crash (fixed in db08c8d for a site on the END of a node): callVariant
    still aborts, order dependently, with IndexError in PVGNode._get_nth_rf_index reached from
    PeptideVariantGraph.move_downstreams / expand_forward during create_cleavage_graph under a rule of class nola"""
    r = ev.exc or {}
    tb = r.get('tb', '')
    return (r.get('__exc__') == 'IndexError' and '_get_nth_rf_index' in tb and 'move_downstreams' in tb
            and 'create_cleavage_graph' in tb and ev.run['rule'] in rule_classes()['nola'])

def is_fusion_align_crash(ev):
    """callVariant aborts with IndexError (TVGNode._get_nth_rf_index on a node without locations) in
    ThreeFrameTVG.align_variants / find_bridge_nodes_between while fitting the graph of a fusion transcript into
    codons (seen with a record in the first bases of the retained acceptor intron piece)"""
    r = ev.exc or {}
    return (bool(ev.case.get('fusions')) and r.get('__exc__') == 'IndexError'
            and 'align_variants' in r.get('tb', '') and '_get_nth_rf_index' in r.get('tb', ''))

def _cds_end(case, tx_id):
    g, t = _tx_of(case, tx_id)
    return t['cds'][1] if t['cds'] else None

def sub_translations(x, recs, w):
    """translations (same start) of every sub-haplotype of w's haplotype incl. the empty one, used by the
    stale-exception part of the D14 signature"""
    H = w['H']
    idx = [i for i, r in enumerate(recs) if any(r is h for h in H)]
    out = []
    n = len(idx)
    for m in range(0, 2 ** n - 1):
        mask = [0] * len(recs)
        for k, i in enumerate(idx):
            if (m >> k) & 1:
                mask[i] = 1
        out.append(mask)
    return out

def classify(evs):
    """attach a finding id to each missing / unrealizable peptide whose derivations match a signature"""
    for ev in evs:
        if ev.exc:
            continue
        exc_on = ev.run['exc'] != 'None'
        fl = run_flags(ev.run)
        wit_cache = {}
        must_tx = {}
        if ev.missing and not fl:
            # the obliged derivations of ALL missing peptides, one oracle call per transcript; a transcript counts for a
            # peptide only when ITS must_set holds it (must_witnesses_of lists derivations without the novelty filter:
            # a non-coding isoform whose REFERENCE already yields the peptide must not veto the signature that fits
            # the transcript obliging it)
            for tx_id, x in ev.xs.items():
                must_tx[tx_id] = set(O.U(q) for q in O.call('cv_must', x))
                by_p = collections.defaultdict(list)
                for q, w in O.call('cv_must_witnesses_of', [x, list(ev.missing)]):
                    by_p[O.U(q)].append(w)
                wit_cache[tx_id] = by_p
        base_cache = {}
        if ev.missing and fl:
            # flagged run: per transcript ONE call for the obliged set, one for the bases of all missing forms,
            # one for the derivations of all those bases
            for tx_id, x in ev.xs.items():
                must_tx = set(O.U(q) for q in O.call('cv_must_fl', [x, fl]))
                mine = [p for p in ev.missing if p in must_tx]
                bases = collections.defaultdict(set)
                if mine:
                    for pq in O.call('cv_must_bases_fl_many', [x, fl, mine]):
                        bases[O.U(pq[0])].add(O.U(pq[1]))
                base_cache[tx_id] = {p: sorted(bases.get(p, [])) for p in mine}
                allb = sorted(set(b for bs in bases.values() for b in bs))
                by_p = collections.defaultdict(list)
                if allb:
                    for q, w in O.call('cv_must_witnesses_of', [unlimited(x), allb]):
                        by_p[O.U(q)].append(w)
                wit_cache[tx_id] = by_p
        for p in list(ev.missing):
            tags = []
            for tx_id, x in ev.xs.items():
                recs = ev.recs[tx_id]
                if fl:
                    # an alt form: judge the derivations of every obliged product it is a form of -- only in
                    # the transcripts that oblige p at all (elsewhere p may be a mere reference product)
                    if p not in base_cache.get(tx_id, {}):
                        continue
                    bases = base_cache[tx_id][p]
                    xw = unlimited(x)
                else:
                    if tx_id in must_tx and p not in must_tx[tx_id]:
                        continue
                    bases, xw = [p], x
                for q in bases:
                    if tx_id in wit_cache:
                        ws = SG.decode_wits(wit_cache[tx_id].get(q, []), recs)
                    else:
                        ws = SG.decode_wits(O.call('cv_must_witnesses', [xw, q]), recs)
                    if not ws:
                        continue
                    if SG.explained_by_stoploss(xw, recs, _cds_end(ev.case, tx_id), ws):
                        tags.append(F_STOPLOSS)
                    elif exc_on and SG.explained_by_exception_missing(xw, recs, ws):
                        tags.append(F_D14)
                    elif ev.run['rule'] in rule_classes()['wide']:
                        tags.append(F_PEPSIN)
                    elif SG.explained_by_softsite_missing(xw, ws, recs):
                        tags.append(F_PEPSIN)
                    elif ev.run['rule'] in rule_classes()['nola'] and SG.explained_by_adjacent_sites(xw, ws):
                        tags.append(F_ADJ)
                    else:
                        tags.append(None)
            ev.missing[p] = None if (not tags or None in tags) else sorted(set(tags))[0]
        extras = list(ev.extra)
        if extras:
            # one oracle call per (signature, transcript) for ALL unrealizable peptides of the run
            def any_tx(api, extra_args=None):
                acc = [False] * len(extras)
                for x in ev.xs.values():
                    fl_ = O.call(api, [x] + (extra_args or []) + [extras])
                    acc = [a or bool(b) for a, b in zip(acc, fl_)]
                return acc
            d14 = any_tx('cv_realizable_relaxed') if exc_on else [False] * len(extras)
            wide = ev.run['rule'] in rule_classes()['wide']
            sub = [any(SG.substring_realizable(x, p) for x in ev.xs.values()) for p in extras] if wide else [False] * len(extras)
            soft = any_tx('cv_realizable_relaxed2') if not run_flags(ev.run) else [False] * len(extras)
            junc = [False] * len(extras)
            if not run_flags(ev.run):
                # fusion: an indel record within 3 nt of a breakpoint makes the engine lose / gain a base at the junction
                for f in ev.case.get('fusions', []):
                    a = fusion_args(ev.case, f, ev.run, ev.recs)
                    if a[2]:
                        continue                      # signature stated for exonic breakpoints only
                    dr = ev.recs.get(f['donor_tx'], []); ar = ev.recs.get(f['acc_tx'], [])
                    near = [r for r in dr if len(r['alt']) != r['e'] - r['s'] and a[1] - 3 <= r['e'] <= a[1] + 3] + \
                           [r for r in ar if len(r['alt']) != r['e'] - r['s'] and a[5] - 3 <= r['s'] <= a[5] + 3]
                    if not near:
                        continue
                    alts = [(d1, d2) for d1 in (-1, 0, 1) for d2 in (-1, 0, 1) if (d1, d2) != (0, 0)]
                    oks = O.call_many([('cv_fusion_realizable_g', [a[0], a[1] + d1, '', [], a[4], a[5] + d2, extras]) for d1, d2 in alts])
                    junc = [x or any(o[k] for o in oks) for k, x in enumerate(junc)]
            # C02-fusion-frameshift-indel-pair: the fusion carries a frameshifting donor-side indel followed by another
            # indel inside one of its sub-graphs (fusion_fs_coupling) and the sequence is reported under a header naming
            # that fusion.  Symptoms seen (docs/C02.md): the second indel ALONE spelled n bases short / long (deletion
            # reaching n bases further upstream, insertion lacking a base), path cut off at an acceptor insertion,
            # bases lost behind an acceptor-side insertion - too many shapes to model one by one, hence the coarse rule
            del2 = [False] * len(extras)
            if not run_flags(ev.run):
                for f in ev.case.get('fusions', []):
                    if fusion_fs_coupling(ev.case, f, ev.recs):
                        for k, p in enumerate(extras):
                            if any(h.startswith(f['id'] + '|') for h in ev.got.get(p, [])):
                                del2[k] = True
            # thrombin: the two-residue look-ahead (?=[^DE][^DE]) is matched against the translated string INCLUDING the
            # stop symbol, so ...[AFGILTVM][AFGILTVWA]PR|X* is cleaved although only one residue follows
            lastop = [False] * len(extras)
            if ev.run['rule'] == 'thrombin' and not run_flags(ev.run):
                idx = [k for k, p in enumerate(extras) if re.search(r'[AFGILTVM][AFGILTVWA]PR$', p)]
                aa = 'ACFGHIKLMNPQRSTVWYU'
                if idx:
                    cands = [extras[k] + r for k in idx for r in aa]
                    for x in ev.xs.values():
                        for n, ok in enumerate(O.call('cv_realizable', [x, cands])):
                            if ok:
                                lastop[idx[n // len(aa)]] = True
            for k, p in enumerate(extras):
                tag = None
                if d14[k]:
                    tag = F_D14
                elif sub[k]:
                    tag = F_PEPSIN
                elif junc[k]:
                    tag = F_FUSJUNC
                elif del2[k]:
                    tag = F_FUSDEL2
                elif soft[k]:
                    tag = F_PEPSIN
                elif lastop[k]:
                    tag = F_LASTOP
                ev.extra[p] = tag
    classify_nola_flicker(evs)

NOLA_FLICKER_SEEDS = ('0', '1', '2', '3', '4', '5')

def classify_nola_flicker(evs, seeds=NOLA_FLICKER_SEEDS):
    """flicker form of C01-nola-adjacent-sites.  On some inputs the engine's output under a rule with an alternative
    without look-ahead is NOT a function of the input: a join that uses exactly the allowed number of missed
    cleavages is reported in some executions and lost in others, also when the single-residue node sits on a
    SIBLING path of the same variant bubble (IRGWRSGSESSGYIGLRYAYR lost in one run, HSCRDGALVLSRRVISDYAMR - the
    path through the other indel, with R|R inside - in another, none in a third).  Executable signature: rule of
    class nola, no SECT/W2F, the peptide is still unexplained, EVERY obliged derivation of it (in the transcripts
    obliging it) spans exactly k + 1 pieces, and the identical case executed again under len(seeds)
    PYTHONHASHSEEDs reports the peptide at least once.  A miss that persists in every execution stays a VIOLATION."""
    sel = []
    for ev in evs:
        if ev.exc or run_flags(ev.run) or ev.run['rule'] not in rule_classes()['nola']:
            continue
        todo = [p for p, t in ev.missing.items() if t is None]
        if not todo:
            continue
        cand = []
        k = int(ev.run['k'])
        for p in todo:
            ok, any_w = True, False
            for tx_id, x in ev.xs.items():
                if p not in set(O.U(q) for q in O.call('cv_must', x)):
                    continue
                ws = SG.decode_wits(O.call('cv_must_witnesses', [x, p]), ev.recs[tx_id])
                ss = O.call_many([SG.sites_req(x, w['aas']) for w in ws]) if ws else []
                for w, sites in zip(ws, ss):
                    any_w = True
                    if sum(1 for e in sites if w['a'] < e < w['b']) != k:
                        ok = False
            if ok and any_w:
                cand.append(p)
        if cand:
            sel.append((ev, cand))
    if not sel:
        return
    cases = [json.loads(json.dumps(dict(strip_case(ev.case), runs=[ev.run]))) for ev, _ in sel]
    script = 'callvariant2' if os.path.exists(os.path.join(os.path.dirname(os.path.abspath(__file__)), '..', 'impl', 'callvariant2.py')) else 'callvariant'
    seen = [set() for _ in sel]
    for i, hs in enumerate(seeds):
        res = I.run_cases(script, cases, jobs=16, tag='nolaflick%d' % i, hashseed=hs, timeout=3600)
        for kk, r in enumerate(res):
            r0 = r['runs'][0] if 'runs' in r else r
            seen[kk] |= set(sq for h, sq in r0.get('fasta', []))
    for (ev, cand), got in zip(sel, seen):
        ev.raw['nola_flicker_reruns'] = len(seeds)
        for p in cand:
            if p in got:
                ev.missing[p] = F_ADJ

# ------------------------------------------------------------------ helpers for the property modules
def strip_case(c):
    return {k: v for k, v in c.items() if not k.startswith('_')}

def replay_obj(ev, what, extra=None):
    c = strip_case(ev.case)
    c = dict(c, runs=[ev.run])
    o = {'kind': 'case', 'what': what, 'case': c}
    if extra:
        o.update(extra)
    return o

def dist_of(cases):
    d = collections.Counter()
    for c in cases:
        g = CG.find_gene(c['world'], c['gene'])
        d['tag:' + c['tag']] += 1
        d['strand:%+d' % g['strand']] += 1
        d['nvar:%d' % len(set(r[2] for r in c['gvf']))] += 1
        for t in g['transcripts']:
            d['tx:' + ('coding' if t['cds'] else 'noncoding')] += 1
            d['exons:%d' % min(len(t['exons']), 5)] += 1
            for tg in t['tags']:
                d['tx:' + tg] += 1
            if t.get('sec'):
                d['tx:sec'] += 1
        kinds = collections.Counter(r[2].split('-')[0] for r in c['gvf'])
        for k, v in kinds.items():
            d['rec:' + k] += v
        bt = c.get('_by_tx') or {}
        for recs in bt.values():
            for r in recs:
                d['map:' + r['kind']] += 1
    return dict(sorted(d.items()))

def annotate_stability(ctx, violations, judge, max_known=2, reps=4, want_may=False, tag='stab'):
    if getattr(ctx, 'quick', False):
        max_known = 0           # quick tier: re-run only cases with an UNEXPLAINED disagreement
    """callVariant is order dependent on some inputs (D14, several records on a stop codon): re-run the
    case of every unexplained violation (and of the first few hits of each known finding) `reps` times in
    one batch and record in the replay how often the same verdict shows again."""
    import collections as _c
    cnt = _c.Counter()
    sel = []
    for v in violations:
        f = v.get('finding')
        if v.get('replay_obj', {}).get('kind') != 'case':
            continue
        if f:
            cnt[f] += 1
            if cnt[f] > max_known:
                continue
        sel.append(v)
    if not sel:
        return
    cases = []
    for v in sel:
        for _ in range(reps):
            c = json.loads(json.dumps(v['replay_obj']['case']))
            c['stream'] = 'core' if v['replay_obj'].get('what') in ('collapse', 'limits') else v['replay_obj'].get('what', 'replay')
            if v['replay_obj'].get('what') == 'limits' and len(c['runs']) > 1:
                c['runs'][1]['skip_oracle'] = True
            cases.append(c)
    evs = run_batch(ctx, cases, want_may=want_may, tag=tag)
    by = _c.defaultdict(list)
    for ev in evs:
        by[ev.ci].append(ev)
    for k, v in enumerate(sel):
        hits = 0
        for r in range(reps):
            vs, st = [], _c.Counter()
            es = by.get(k * reps + r, [])
            for j, e in enumerate(es):
                e.ci = 0
            judge(es, vs, st)
            if any(x.get('finding') == v.get('finding') for x in vs):
                hits += 1
        v['replay_obj']['reproduced'] = '%d/%d' % (hits, reps)
        v['replay_obj']['repeat'] = max(reps, 4)
        v['what'] += ' [reproduced %d/%d re-runs]' % (hits, reps)


def run_streams(ctx, cases, judge, violations, stats, want_may=True, tag='cv', batch=1500):
    """run the cases stream by stream (one implementation batch + one oracle batch each) and record the wall
    time of every stream, so that a stream that has become slow is visible in the evidence"""
    import time as _t
    order = []
    groups = {}
    for c in cases:
        st = c.get('stream', '?').split(':')[0]
        if st not in groups:
            groups[st] = []; order.append(st)
        groups[st].append(c)
    wall = {}
    for st in order:
        t0 = _t.time()
        cs = groups[st]
        for i in range(0, len(cs), batch):
            judge(run_batch(ctx, cs[i:i + batch], want_may=want_may, tag=tag), violations, stats)
        wall[st] = round(_t.time() - t0, 1)
    return wall

def max_w_run(case, run, L):
    """largest number of W in any window of L residues of any reading frame of a transcript carrying records:
    bounds the 2^w W>F images the oracle (and the tool) enumerate per product"""
    best = 0
    by_tx, _ = CG.tx_records(case)
    from harness.lib import gen_reference as _G
    for g in case['world']['genes']:
        for t in g['transcripts']:
            if not by_tx.get(t['id']):
                continue
            s = _G.tx_seq(case['world'], g, t)
            for fr in range(3):
                aa = ''.join(_G.CODON.get(s[i:i + 3], 'X') for i in range(fr, len(s) - 2, 3))
                for i in range(len(aa)):
                    best = max(best, aa[i:i + L].count('W'))
    return best
