"""Run implementation-side work in /venv/bin/python worker processes with PYTHONPATH=/repo.

A property module provides an *implementation script* (a .py file under harness/impl/) with a
function  handle(case) -> JSON-serialisable result .  run_cases() distributes cases over worker
processes (each imports the repo once) and returns results in order.  Exceptions inside handle are
returned as {"__exc__": "<ExceptionClass>", "msg": "..."}.
"""
import os, sys, json, subprocess, tempfile, shutil
from concurrent.futures import ThreadPoolExecutor

ROOT = os.path.dirname(os.path.dirname(os.path.dirname(os.path.abspath(__file__))))
REPO = os.environ.get('VERIF_REPO', '/repo')
PY = '/venv/bin/python'
WORK = os.path.join(ROOT, '.work')

def _env(hashseed='0', extra=None):
    env = dict(os.environ)
    env['PYTHONPATH'] = REPO
    env['PYTHONHASHSEED'] = str(hashseed)
    env['PYTHONDONTWRITEBYTECODE'] = '1'
    env['PYTHONWARNINGS'] = 'ignore'
    if extra:
        env.update(extra)
    return env

def workdir(tag):
    d = os.path.join(WORK, '%s-%d' % (tag, os.getpid()))
    shutil.rmtree(d, ignore_errors=True)
    os.makedirs(d)
    return d

def run_cases(script, cases, jobs=16, hashseed='0', extra_env=None, timeout=3600, tag='impl'):
    """script: module name under harness/impl (without .py)."""
    if not cases:
        return []
    jobs = max(1, min(jobs, len(cases)))
    d = workdir(tag)
    n = (len(cases) + jobs - 1) // jobs
    chunks = [cases[i:i + n] for i in range(0, len(cases), n)]
    def one(ic):
        i, chunk = ic
        inp = os.path.join(d, 'in%d.json' % i)
        outp = os.path.join(d, 'out%d.json' % i)
        wd = os.path.join(d, 'w%d' % i)
        os.makedirs(wd)
        json.dump(chunk, open(inp, 'w'))
        p = subprocess.run([PY, os.path.join(ROOT, 'harness', 'impl', '_worker.py'), script, inp, outp, wd],
                           env=_env(hashseed, extra_env), stdout=subprocess.PIPE, stderr=subprocess.PIPE,
                           text=True, timeout=timeout, cwd=wd)
        if p.returncode != 0 or not os.path.exists(outp):
            raise RuntimeError('impl worker failed: %s\n%s' % (p.stdout[-2000:], p.stderr[-4000:]))
        return json.load(open(outp))
    try:
        with ThreadPoolExecutor(jobs) as ex:
            res = list(ex.map(one, list(enumerate(chunks))))
    finally:
        shutil.rmtree(d, ignore_errors=True)
    return [x for r in res for x in r]
