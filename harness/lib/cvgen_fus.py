"""Fusion cases with arbitrary breakpoints for C01/C02 (Model/SpecFusion.v: fuse_gen).

Geometries (tag of the case = 'fusion:<donor kind>/<acceptor kind>[+multi][+same]'):
  * donor and / or acceptor breakpoint inside an intron: the intronic piece next to the breakpoint is retained
    (donor-gene bases from the end of the upstream exon to the breakpoint; acceptor-gene bases from the
    breakpoint to the next exon), with small records INSIDE the retained pieces, ABUTTING either end of a piece
    and STRADDLING either end (the latter are carried by no haplotype of the fusion);
  * several fusions of ONE donor transcript at different breakpoints (also the same breakpoint with another
    acceptor), with records between and behind the breakpoints;
  * every combination of cds_start_NF / mRNA_end_NF on donor and acceptor (worlds generated with nf_p = 0.35).

A fusion is stored by its two gene coordinates (g_last = last donor base kept, a_first = first acceptor base
kept); fusion_inputs() derives the oracle's arguments (bp, mid, mrecs, abp) with the generator's own ground
truth, never with the repo's code.
"""
from harness.lib import gen_reference as G, cvgen as CG

NT = 'ACGT'

def exons_gene(gene, tx):
    """exons of tx in gene coordinates, transcript order, half open"""
    out = []
    for s, e in tx['exons']:
        if gene['strand'] == 1:
            out.append((s - gene['start'], e - gene['start']))
        else:
            out.append((gene['end'] - e, gene['end'] - s))
    return sorted(out)

def locate(gene, tx, g):
    """('exon', k, tx index) or ('intron', k, None) with k = index of the exon at / upstream of gene position g"""
    ex = exons_gene(gene, tx)
    off = 0
    for k, (a, b) in enumerate(ex):
        if a <= g < b:
            return 'exon', k, off + (g - a)
        if g < a:
            return 'intron', k - 1, None
        off += b - a
    return 'outside', len(ex) - 1, None

def donor_geometry(gene, tx, g_last, gseq):
    """(bp, left piece, gene interval of the piece) for the last donor base kept"""
    kind, k, ti = locate(gene, tx, g_last)
    ex = exons_gene(gene, tx)
    if kind == 'exon':
        return ti + 1, '', None
    if kind != 'intron' or k < 0:
        return None
    bp = sum(b - a for a, b in ex[:k + 1])
    return bp, gseq[ex[k][1]:g_last + 1], (ex[k][1], g_last + 1)

def acceptor_geometry(gene, tx, a_first, gseq):
    """(abp, right piece, gene interval of the piece) for the first acceptor base kept"""
    kind, k, ti = locate(gene, tx, a_first)
    ex = exons_gene(gene, tx)
    if kind == 'exon':
        return ti, '', None
    if kind != 'intron' or k + 1 >= len(ex):
        return None
    abp = sum(b - a for a, b in ex[:k + 1])
    return abp, gseq[a_first:ex[k + 1][0]], (a_first, ex[k + 1][0])

def fusion_inputs(case, f):
    """oracle arguments of one fusion: dict(bp, mid, mrecs, abp); mrecs = records of the retained pieces in
    coordinates of mid: [{id, s, e, alt, ok}], ok = strictly inside its piece.  Legacy fusions (exonic, stored
    with bp / abp only) have empty pieces."""
    if 'g_last' not in f:
        return {'bp': f['bp'], 'mid': '', 'mrecs': [], 'abp': f['abp'], 'nleft': 0}
    world = case['world']
    gd = CG.find_gene(world, f['donor_gene']); ga = CG.find_gene(world, f['acc_gene'])
    td = next(t for t in gd['transcripts'] if t['id'] == f['donor_tx'])
    ta = next(t for t in ga['transcripts'] if t['id'] == f['acc_tx'])
    dseq, aseq = G.gene_seq(world, gd), G.gene_seq(world, ga)
    bp, left, liv = donor_geometry(gd, td, f['g_last'], dseq)
    abp, right, riv = acceptor_geometry(ga, ta, f['a_first'], aseq)
    mrecs = []
    for (iv, gene_id, tx_id, off) in ((liv, gd['id'], td['id'], 0), (riv, ga['id'], ta['id'], len(left))):
        if not iv:
            continue
        seen = set()
        for gene_r, pos1, vid, ref, alt, tx_r, _ in case['gvf']:
            if gene_r != gene_id or tx_r != tx_id or vid in seen:
                continue
            s, e = pos1 - 1, pos1 - 1 + len(ref)
            if iv[0] <= s and e <= iv[1]:
                seen.add(vid)
                mrecs.append({'id': vid, 's': s - iv[0] + off, 'e': e - iv[0] + off, 'alt': alt,
                              # obliged: strictly inside the piece AND a substitution (an indel inside a retained
                              # piece is placed differently by the engine: left to MAY, see docs/C01.md)
                              'ok': iv[0] < s and e < iv[1] and len(alt) == len(ref), 'kind': 'piece'})
    mrecs.sort(key=lambda r: (r['s'], r['e'], r['id']))
    return {'bp': bp, 'mid': left + right, 'mrecs': mrecs, 'abp': abp, 'nleft': len(left)}

# ------------------------------------------------------------------ generator
def _small(rng, gseq, gs, multi=False):
    ref = gseq[gs]
    x = rng.random()
    if multi or x > 0.8:
        k = rng.choice([2, 3, 4])
        if rng.random() < 0.5:
            return gseq[gs:gs + 1 + k], ref                                   # deletion
        r = gseq[gs:gs + k]
        return r, ''.join(CG._mut_base(rng, c) for c in r)                    # MNV
    if x < 0.55:
        return ref, CG._mut_base(rng, ref)
    return ref, ref + ''.join(rng.choice(NT) for _ in range(rng.choice([1, 2, 3])))

def _pick_break(rng, gene, tx, gseq, role, want_intronic):
    """gene coordinate of the last donor base kept / first acceptor base kept"""
    ex = exons_gene(gene, tx)
    L = G.tx_len(tx)
    if want_intronic and len(ex) >= 2:
        ks = list(range(len(ex) - 1))
        if role == 'donor' and tx['cds']:
            # keep the start codon: the upstream exon must end behind orf + 3
            ks = [k for k in ks if sum(b - a for a, b in ex[:k + 1]) >= tx['cds'][0] + 6]
        ks = [k for k in ks if ex[k + 1][0] - ex[k][1] >= 3]
        if ks:
            k = rng.choice(ks)
            return rng.randint(ex[k][1] + (1 if role == 'donor' else 0), ex[k + 1][0] - 1 - (1 if role == 'acc' else 0)) \
                if ex[k + 1][0] - ex[k][1] >= 4 else ex[k][1] + 1
    if role == 'donor':
        if tx['cds']:
            lo, hi = tx['cds'][0] + 6, min(L - 1, tx['cds'][1] + 6)
            if rng.random() < 0.2:
                hi = min(hi, tx['cds'][0] + 30)      # junction inside the N-terminal peptide (Met-removal / cds_start_NF forms)
        else:
            lo, hi = 12, L - 1
        if lo >= hi:
            return None
        ti = rng.randint(lo, hi) - 1
    else:
        if L < 14:
            return None
        ti = rng.randint(1, L - 12)
    return G.g2gene(gene, G.tx2g(gene, tx, ti))

def _piece_records(rng, gseq, iv, n):
    """small records placed relative to the retained piece iv = [a, b): inside, abutting, straddling"""
    out = []
    a, b = iv
    for _ in range(n):
        where = rng.choice(['inside', 'inside', 'inside', 'abut-start', 'abut-end', 'straddle-start', 'straddle-end'])
        if where == 'inside' and b - a >= 3:
            gs = rng.randint(a + 1, b - 2)
            ref, alt = _small(rng, gseq, gs)
            if gs + len(ref) >= b:
                ref, alt = gseq[gs], CG._mut_base(rng, gseq[gs])
        elif where == 'abut-start':
            gs = a
            ref, alt = _small(rng, gseq, gs)
        elif where == 'abut-end':
            ref, alt = _small(rng, gseq, b - 1)
            gs = b - len(ref)
            if gs < a:
                continue
            ref = gseq[gs:gs + len(ref)]
            alt = ref[0] if len(alt) < len(ref) else (''.join(CG._mut_base(rng, c) for c in ref) if len(alt) == len(ref) else ref + alt[len(ref):])
        elif where == 'straddle-start':
            gs = a - rng.choice([1, 2])
            ref, alt = _small(rng, gseq, gs, multi=True)
        elif where == 'straddle-end':
            gs = b - rng.choice([1, 2])
            ref, alt = _small(rng, gseq, gs, multi=True)
        else:
            continue
        if gs < 0 or gs + len(ref) > len(gseq) or not ref or ref == alt:
            continue
        out.append((gs, ref, alt))
    return out

def gen_fusion_case2(rng, coding_p=0.8, multi_p=0.35, inter_p=0.4):
    for _ in range(400):
        # 40 %: donor and acceptor genes on DIFFERENT chromosomes (two independently drawn chromosomes: the sequences
        # differ at every gene's coordinates, so bases cut from the wrong chromosome show up in the peptides)
        n_chrom = 2 if rng.random() < inter_p else 1
        world = G.gen_world(rng, n_chrom=n_chrom, max_genes=3 if n_chrom == 1 else 2, coding_p=coding_p, small=True,
                            sec_p=0.15, nf_p=0.35)
        if len(world['genes']) < 2:
            continue
        if n_chrom == 2:
            gd = rng.choice(world['genes'])
            ga = rng.choice([g for g in world['genes'] if g['chrom'] != gd['chrom']])
        else:
            gd, ga = rng.sample(world['genes'], 2)
        td = rng.choice(gd['transcripts']); ta = rng.choice(ga['transcripts'])
        if G.tx_len(td) < 40 or G.tx_len(ta) < 30:
            continue
        dseq = G.gene_seq(world, gd)
        dk = rng.random() < 0.5; ak = rng.random() < 0.45
        fusions, recs = [], []
        nf = 2 if rng.random() < multi_p else 1
        same_bp = nf == 2 and rng.random() < 0.25
        used = set()
        for fi in range(nf):
            g2 = ga if (fi == 0 or rng.random() < 0.5) else rng.choice([g for g in world['genes'] if g is not gd])
            t2 = ta if g2 is ga and fi == 0 else rng.choice(g2['transcripts'])
            if G.tx_len(t2) < 30:
                continue
            aseq = G.gene_seq(world, g2)
            if fi == 1 and same_bp and fusions:
                g_last = fusions[0]['g_last']
            else:
                g_last = _pick_break(rng, gd, td, dseq, 'donor', dk if fi == 0 else rng.random() < 0.5)
            a_first = _pick_break(rng, g2, t2, aseq, 'acc', ak if fi == 0 else rng.random() < 0.45)
            if g_last is None or a_first is None or g_last + 1 >= len(dseq):
                continue
            dg = donor_geometry(gd, td, g_last, dseq); ag = acceptor_geometry(g2, t2, a_first, aseq)
            if not dg or not ag:
                continue
            if (g_last, t2['id'], a_first) in used:
                continue
            used.add((g_last, t2['id'], a_first))
            pos0 = g_last + 1
            fid = 'FUSION-%s:%d-%s:%d' % (td['id'], pos0 + 1, t2['id'], a_first + 1)
            row = {'gene_id': gd['id'], 'start0': pos0, 'id': fid, 'ref': dseq[pos0], 'tx_id': td['id'], 'gene_symbol': gd['name'],
                   'acc_gene_id': g2['id'], 'acc_tx_id': t2['id'], 'acc_pos0': a_first, 'acc_gene_symbol': g2['name']}
            fusions.append({'id': fid, 'donor_gene': gd['id'], 'donor_tx': td['id'], 'g_last': g_last,
                            'acc_gene': g2['id'], 'acc_tx': t2['id'], 'a_first': a_first, 'row': row,
                            'bp': dg[0], 'abp': ag[0], 'kinds': ('intron' if dg[2] else 'exon', 'intron' if ag[2] else 'exon')})
            # records: inside / at the ends of the retained pieces, and on the exonic flanks of both junctions
            if dg[2]:
                recs += [(gd, r) for r in _piece_records(rng, dseq, dg[2], rng.choice([1, 2, 3]))]
            if ag[2]:
                recs += [(g2, r) for r in _piece_records(rng, aseq, ag[2], rng.choice([1, 2, 3]))]
            for gene, tx, gseq, centre_t in ((gd, td, dseq, dg[0] - 1), (g2, t2, aseq, ag[0])):
                for _k in range(rng.choice([0, 1, 1, 2])):
                    tp = centre_t + int(round(rng.gauss(0, 6)))
                    if 0 <= tp < G.tx_len(tx):
                        gs = G.g2gene(gene, G.tx2g(gene, tx, tp))
                        if gs + 5 < len(gseq):
                            recs.append((gene, (gs,) + tuple(_small(rng, gseq, gs))))
        if not fusions:
            continue
        if len(fusions) == 2 and fusions[0]['g_last'] != fusions[1]['g_last']:
            # a record between the two donor breakpoints, close to the later junction
            lo, hi = sorted(f['g_last'] for f in fusions)
            for _k in range(rng.choice([1, 2])):
                gs = max(lo + 1, hi - rng.randint(0, 8))
                if gs + 5 < len(dseq):
                    recs.append((gd, (gs, dseq[gs], CG._mut_base(rng, dseq[gs]))))
        rows, seen = [], set()
        for gene, (gs, ref, alt) in recs:
            if (gene['id'], gs, ref, alt) in seen or ref == alt or gs < 0:
                continue
            seen.add((gene['id'], gs, ref, alt))
            for t in gene['transcripts']:
                kind, _, _ = CG.map_record(gene, t, gs, gs + len(ref))
                if kind != 'outside':
                    rows.append([gene['id'], gs + 1, CG.var_id(gs, ref, alt), ref, alt, t['id'], gene['name']])
        tag = 'fusion:%s/%s' % fusions[0]['kinds'] + ('+multi' if len(fusions) > 1 else '') + ('+same' if same_bp and len(fusions) > 1 else '') + \
              ('+interchrom' if any(CG.find_gene(world, f['acc_gene'])['chrom'] != gd['chrom'] for f in fusions) else '')
        return {'world': world, 'gvf': rows, 'gene': gd['id'], 'target': td['id'], 'tag': tag, 'fusions': fusions}
    raise RuntimeError('fusion generator failed')


def _circle_too_dense(c):
    """the engine's four-copy circRNA graph explodes on a short circle crowded with records (28 nt with 5 records
    at --max-variants-per-node 7: > 15 min, > 5 GB; a cost matter, not a property one): the bound of
    cvgen2.gen_circ_case applied AFTER the records this generator adds: at most max(2, L/15) records on a circle
    of L nt and fewer than two indels on a circle shorter than 60 nt"""
    for cr in c['circ_records']:
        L = sum(b - a for a, b in cr['frags'])
        ins = {}
        for r in c['gvf']:
            if r[5] == cr['tx'] and any(a <= r[1] - 1 < b or a < r[1] - 1 + len(r[3]) <= b for a, b in cr['frags']):
                ins[r[2]] = len(r[3]) != len(r[4])
        if len(ins) > max(2, L // 15) or (L < 60 and sum(ins.values()) >= 2):
            return True
    return False


def gen_fusion_circ_case(rng):
    """a circRNA (harness/lib/cvgen2.gen_circ_case) and a fusion on the SAME transcript: the transcript that
    gives the circle is also the donor of a fusion whose breakpoint lies upstream of or inside the circle, with
    a small record inside the circle behind the donor breakpoint (the callers share one variant series per
    transcript: what the fusion call does to it must not reach the circRNA call)"""
    from harness.lib import cvgen2 as CG2
    for _ in range(400):
        c = CG2.gen_circ_case(rng, coding_p=0.8)
        world = c['world']
        if len(world['genes']) < 2:
            continue
        gd = CG.find_gene(world, c['gene']); td = next(t for t in gd['transcripts'] if t['id'] == c['target'])
        ga = rng.choice([g for g in world['genes'] if g is not gd]); ta = rng.choice(ga['transcripts'])
        if G.tx_len(td) < 40 or G.tx_len(ta) < 30:
            continue
        dseq, aseq = G.gene_seq(world, gd), G.gene_seq(world, ga)
        frags = c['circ_records'][0]['frags']
        g_last = _pick_break(rng, gd, td, dseq, 'donor', rng.random() < 0.3)
        a_first = _pick_break(rng, ga, ta, aseq, 'acc', rng.random() < 0.3)
        if g_last is None or a_first is None or g_last + 1 >= len(dseq) or g_last >= frags[-1][1] - 4:
            continue
        dg = donor_geometry(gd, td, g_last, dseq); ag = acceptor_geometry(ga, ta, a_first, aseq)
        if not dg or not ag:
            continue
        pos0 = g_last + 1
        fid = 'FUSION-%s:%d-%s:%d' % (td['id'], pos0 + 1, ta['id'], a_first + 1)
        row = {'gene_id': gd['id'], 'start0': pos0, 'id': fid, 'ref': dseq[pos0], 'tx_id': td['id'], 'gene_symbol': gd['name'],
               'acc_gene_id': ga['id'], 'acc_tx_id': ta['id'], 'acc_pos0': a_first, 'acc_gene_symbol': ga['name']}
        c['fusions'] = [{'id': fid, 'donor_gene': gd['id'], 'donor_tx': td['id'], 'g_last': g_last, 'acc_gene': ga['id'],
                         'acc_tx': ta['id'], 'a_first': a_first, 'row': row, 'bp': dg[0], 'abp': ag[0],
                         'kinds': ('intron' if dg[2] else 'exon', 'intron' if ag[2] else 'exon')}]
        # a record inside the circle behind the donor breakpoint (not in the first 3 nt of a fragment)
        have = set((r[1], r[3], r[4]) for r in c['gvf'])
        for _k in range(rng.choice([1, 2])):
            cand = [g for a, b in frags for g in range(a + 4, b - 1) if g > g_last]
            if not cand:
                break
            gs = rng.choice(cand)
            ref, alt = dseq[gs], CG._mut_base(rng, dseq[gs])
            if (gs + 1, ref, alt) in have:
                continue
            have.add((gs + 1, ref, alt))
            for t in gd['transcripts']:
                if CG.map_record(gd, t, gs, gs + 1)[0] != 'outside':
                    c['gvf'].append([gd['id'], gs + 1, CG.var_id(gs, ref, alt), ref, alt, t['id'], gd['name']])
        if _circle_too_dense(c):
            continue
        c['tag'] = 'fusion+circ'
        return c
    raise RuntimeError('fusion+circ generator failed')
