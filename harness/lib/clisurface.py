"""Static CLI-surface check: every attribute a command function reads from its `args` parameter
(directly, inside moPepGen/cli/<module>.py) must be a destination its own argparse sub-parser
defines (or be assigned by the command itself).  An attribute that the parser never produces
makes every run through the real command line that reaches the read abort with AttributeError
(this is how `parseCIRCexplorer --circexplorer3` failed: args.min_fbr_circ vs --min-fpb-circ).
Runs under /venv/bin/python with PYTHONPATH=<repo>; prints one JSON object."""
import ast, sys, os, json, inspect, importlib

def reads_of(func_src, argname):
    tree = ast.parse(func_src)
    reads, writes, guarded = {}, set(), set()
    for n in ast.walk(tree):
        if isinstance(n, ast.Attribute) and isinstance(n.value, ast.Name) and n.value.id == argname:
            if isinstance(n.ctx, ast.Store):
                writes.add(n.attr)
            else:
                reads.setdefault(n.attr, n.lineno)
        if isinstance(n, ast.Call) and isinstance(n.func, ast.Name) and n.func.id in ('hasattr', 'getattr') \
                and len(n.args) >= 2 and isinstance(n.args[0], ast.Name) and n.args[0].id == argname \
                and isinstance(n.args[1], ast.Constant):
            guarded.add(n.args[1].value)
    return reads, writes, guarded

def passes_of(func_src, argname):
    """calls in which the bare name `argname` is passed on: [(callee expr (dotted), position or keyword)]"""
    tree = ast.parse(func_src)
    res = []
    for n in ast.walk(tree):
        if isinstance(n, ast.Call):
            def dotted(e):
                if isinstance(e, ast.Name):
                    return e.id
                if isinstance(e, ast.Attribute):
                    d = dotted(e.value)
                    return d + '.' + e.attr if d else None
                return None
            name = dotted(n.func)
            if not name:
                continue
            for i, a in enumerate(n.args):
                if isinstance(a, ast.Name) and a.id == argname:
                    res.append((name, i))
            for kw in n.keywords:
                if isinstance(kw.value, ast.Name) and kw.value.id == argname and kw.arg:
                    res.append((name, kw.arg))
    return res

def resolve(func, dotted):
    obj = None
    parts = dotted.split('.')
    g = getattr(func, '__globals__', {})
    if parts[0] in g:
        obj = g[parts[0]]
    else:
        return None
    for p in parts[1:]:
        obj = getattr(obj, p, None)
        if obj is None:
            return None
    return obj

def analyse(func, argpos, depth, seen):
    """all attributes read from the parameter at `argpos` (int or name) of func, following the
    parameter into moPepGen callees (functions, classes via __init__, classmethods)"""
    import textwrap
    target = func
    offset = 0
    if inspect.isclass(func):
        target = func.__init__
        offset = 1
    elif inspect.ismethod(func):         # bound classmethod
        target = func.__func__
        offset = 1
    mod = getattr(target, '__module__', '') or ''
    # moPepGen.cli.common helpers read option groups under caller-supplied flags (load_proteome=False ...):
    # a static read there is conditional, so they are not followed (no alarm where the property holds)
    if not mod.startswith('moPepGen') or mod == 'moPepGen.cli.common' or (target, argpos) in seen or depth > 4:
        return {}, set(), set()
    seen.add((target, argpos))
    try:
        src = textwrap.dedent(inspect.getsource(target))
        first = inspect.getsourcelines(target)[1]
        params = list(inspect.signature(target).parameters)
    except (OSError, TypeError, ValueError):
        return {}, set(), set()
    if isinstance(argpos, int):
        if argpos + offset >= len(params):
            return {}, set(), set()
        pname = params[argpos + offset]
    else:
        pname = argpos
        if pname not in params:
            return {}, set(), set()
    reads, writes, guarded = reads_of(src, pname)
    reads = {a: '%s.py:%d' % (mod.split('.')[-1], first + ln - 1) for a, ln in reads.items()}
    for callee, pos in passes_of(src, pname):
        obj = resolve(target, callee)
        if obj is None or not (inspect.isfunction(obj) or inspect.isclass(obj) or inspect.ismethod(obj)):
            continue
        r2, w2, g2 = analyse(obj, pos, depth + 1, seen)
        for a, where in r2.items():
            reads.setdefault(a, where)
        writes |= w2
        guarded |= g2
    return reads, writes, guarded

def main():
    import argparse
    from moPepGen import cli, constant
    p = argparse.ArgumentParser(prog=constant.PROG_NAME)
    sub = p.add_subparsers(dest='command')
    for name in dir(cli):
        if name.startswith('add_subparser_'):
            getattr(cli, name)(sub)
    out = {}
    for cmd, sp in sub.choices.items():
        func = sp.get_default('func')
        if func is None:
            continue
        dests = {a.dest for a in sp._actions} | {'command', 'func'}
        reads, writes, guarded = analyse(func, 0, 0, set())
        gaps = {a: where for a, where in reads.items() if a not in dests and a not in writes and a not in guarded}
        out[cmd] = {'function': '%s.%s' % (func.__module__, func.__name__), 'reads': len(reads),
                    'dests': len(dests), 'gaps': gaps}
    print(json.dumps(out))

if __name__ == '__main__':
    main()
