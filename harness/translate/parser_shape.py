"""Translate the record loop of the four parser CLIs that take --skip-failed
(moPepGen/cli/parse_star_fusion.py, parse_fusion_catcher.py, parse_arriba.py, parse_vep.py) into
coq/Gen/ParserShape.v (ast only, never imported):

  ps_doc            the typed handlers of the try around record.convert_to_variant_record[s], in order, as
                    (exception class code, reason code) -- one entry per class of a tuple
  ps_guarded        the last handler is bare and reads  `if args.skip_failed: <count>; continue` / `raise`
  ps_fail_reason    the counter that branch increments (6: only the total)
  ps_register_early (parseVEP) the transcript key is created in vep_records BEFORE the try
  ps_tally_first    tally.log() precedes the `if not <records>: ... return` check
  ps_empty_on_keys  that check tests `vep_records` (the dict of transcript keys) rather than the list `variants`

class codes : 1 GeneNotFoundError 2 TranscriptionStopSiteMutationError 3 TranscriptionStartSiteMutationError
              10 KeyError 11 ValueError 12 IndexError 14 LookupError 20 Exception 21 BaseException 98 anything else
reason codes: 0 invalid_gene_id 1 invalid_position 2 insufficient_evidence 3 antisense_strand
              4 start_site_mutation 5 stop_site_mutation 6 total only 99 not understood
Fail-closed: a construct that is not recognised yields code 98 / 99 / an unguarded shape, none of which equals a
modelled shape, so the obligation parser_shapes_modelled of coq/Props/C07.v fails.
"""
import ast, os

CLS = {'GeneNotFoundError': 1, 'TranscriptionStopSiteMutationError': 2, 'TranscriptionStartSiteMutationError': 3,
       'KeyError': 10, 'ValueError': 11, 'IndexError': 12, 'LookupError': 14, 'Exception': 20, 'BaseException': 21}
REASON = {'invalid_gene_id': 0, 'invalid_position': 1, 'insufficient_evidence': 2, 'antisense_strand': 3,
          'start_site_mutation': 4, 'stop_site_mutation': 5}
FILES = [('star', 'parse_star_fusion.py', 'parse_star_fusion'), ('fc', 'parse_fusion_catcher.py', 'parse_fusion_catcher'),
         ('arriba', 'parse_arriba.py', 'parse_arriba'), ('vep', 'parse_vep.py', 'parse_vep')]

def class_names(t):
    if isinstance(t, ast.Tuple):
        return [n for e in t.elts for n in class_names(e)]
    if isinstance(t, ast.Attribute):
        return [t.attr]
    if isinstance(t, ast.Name):
        return [t.id]
    return ['?']

def count_reason(stmts):
    """statements `tally.<skipped|failed>.<field> += 1`* ; returns reason code (6 = only total) or 99"""
    fields = []
    for s in stmts:
        if isinstance(s, ast.Expr) and ast.unparse(s).startswith('logger.'):
            continue
        if not (isinstance(s, ast.AugAssign) and isinstance(s.op, ast.Add) and isinstance(s.value, ast.Constant)
                and s.value.value == 1 and isinstance(s.target, ast.Attribute)):
            return 99
        tgt = ast.unparse(s.target)
        if not (tgt.startswith('tally.skipped.') or tgt.startswith('tally.failed.')):
            return 99
        fields.append(s.target.attr)
    if fields.count('total') != 1:
        return 99
    rest = [f for f in fields if f != 'total']
    if not rest:
        return 6
    if len(rest) == 1 and rest[0] in REASON:
        return REASON[rest[0]]
    return 99

def classify(src, fname, tool):
    bad = dict(doc=[(98, 99)], guarded=False, fail_reason=99, early=False, tally_first=False, on_keys=False)
    try:
        tree = ast.parse(src)
    except SyntaxError:
        return bad, 'syntax error'
    fn = next((n for n in ast.walk(tree) if isinstance(n, ast.FunctionDef) and n.name == fname), None)
    if fn is None:
        return bad, 'function not found'
    tries = [t for t in ast.walk(fn) if isinstance(t, ast.Try)
             and any(isinstance(c, ast.Call) and isinstance(c.func, ast.Attribute)
                     and c.func.attr in ('convert_to_variant_record', 'convert_to_variant_records')
                     for s in t.body for c in ast.walk(s))]
    if len(tries) != 1 or tries[0].orelse or tries[0].finalbody or not tries[0].handlers:
        return bad, 'try not found'
    tr = tries[0]
    out = dict(doc=[], guarded=False, fail_reason=99, early=False, tally_first=False, on_keys=False)
    notes = []
    for h in tr.handlers[:-1]:
        if h.type is None or not h.body or not isinstance(h.body[-1], ast.Continue):
            out['doc'].append((98, 99)); notes.append('typed handler not understood')
            continue
        r = count_reason(h.body[:-1])
        for n in class_names(h.type):
            out['doc'].append((CLS.get(n, 98), r))
    last = tr.handlers[-1]
    if last.type is None and len(last.body) == 2 and isinstance(last.body[0], ast.If) \
            and ast.unparse(last.body[0].test) == 'args.skip_failed' and not last.body[0].orelse \
            and last.body[0].body and isinstance(last.body[0].body[-1], ast.Continue) \
            and isinstance(last.body[1], ast.Raise) and last.body[1].exc is None:
        out['guarded'] = True
        out['fail_reason'] = count_reason(last.body[0].body[:-1])
    else:
        notes.append('last handler is not the guarded bare handler')
        if last.type is not None:
            # a typed last handler: still list it so that the table differs from every modelled one
            out['doc'].append((98, 99))
    # ---- where the summary is logged
    top = fn.body
    logs = [i for i, s in enumerate(top) if ast.unparse(s) == 'tally.log()']
    empties = [i for i, s in enumerate(top) if isinstance(s, ast.If) and ast.unparse(s.test) in ('not variants', 'not vep_records')
               and s.body and isinstance(s.body[-1], ast.Return)]
    if len(logs) == 1 and len(empties) == 1:
        out['tally_first'] = logs[0] < empties[0]
        out['on_keys'] = ast.unparse(top[empties[0]].test) == 'not vep_records'
    else:
        notes.append('summary / empty check not understood'); out['fail_reason'] = 99
    writes = [i for i, s in enumerate(top) if 'seqvar.io.write(' in ast.unparse(s)]
    if len(writes) != 1 or (empties and writes[0] < empties[0]):
        notes.append('write not understood'); out['fail_reason'] = 99
    # ---- parseVEP: when the transcript key is registered
    if tool == 'vep':
        loop_body = None
        for n in ast.walk(fn):
            if isinstance(n, ast.For) and tr in n.body:
                loop_body = n.body
        if loop_body is None:
            notes.append('loop not found'); out['fail_reason'] = 99
        else:
            i = loop_body.index(tr)
            before = [ast.unparse(s) for s in loop_body[:i]]
            after = [ast.unparse(s) for s in loop_body[i + 1:]]
            early = any('vep_records[transcript_id] = []' in b for b in before)
            late_old = after == ['vep_records[transcript_id].append(record)']
            late_new = after == ['vep_records.setdefault(transcript_id, []).append(record)'] or \
                (len(after) == 2 and 'vep_records[transcript_id] = []' in after[0] and after[1] == 'vep_records[transcript_id].append(record)')
            if early and late_old:
                out['early'] = True
            elif not early and late_new:
                out['early'] = False
            else:
                notes.append('registration of the transcript key not understood'); out['fail_reason'] = 99
    return out, '; '.join(notes) or 'none'

def render(shapes):
    b = lambda x: 'true' if x else 'false'
    L = ['(* GENERATED by harness/translate/parser_shape.py from moPepGen/cli/parse_{star_fusion,fusion_catcher,arriba,vep}.py -- do not edit *)',
         'From MoPep Require Import Model.Base Model.ParserLoop.', 'Open Scope Z_scope.']
    for tool, (o, note) in shapes.items():
        L.append('(* %s: %s *)' % (tool, note.replace('*)', '* )')))
        L.append('Definition source_pshape_%s : pshape :=' % tool)
        L.append('  {| ps_doc := [%s]; ps_guarded := %s; ps_fail_reason := %d; ps_register_early := %s; ps_tally_first := %s;\n     ps_empty_on_keys := %s |}.' % (
            '; '.join('(%d, %d)' % p for p in o['doc']), b(o['guarded']), o['fail_reason'], b(o['early']), b(o['tally_first']), b(o['on_keys'])))
    return '\n'.join(L) + '\n'

def run(repo, gendir):
    shapes = {}
    for tool, f, fname in FILES:
        try:
            shapes[tool] = classify(open(os.path.join(repo, 'moPepGen', 'cli', f)).read(), fname, tool)
        except Exception as e:   # fail-closed
            shapes[tool] = (dict(doc=[(98, 99)], guarded=False, fail_reason=99, early=False, tally_first=False, on_keys=False), repr(e))
    text = render(shapes)
    out = os.path.join(gendir, 'ParserShape.v')
    old = open(out).read() if os.path.exists(out) else None
    if old != text:
        open(out, 'w').write(text)
        return True
    return False
