"""Translate the two validity filters into coq/Gen/PepFilter.v:

    table_filter : the `if <cond>: return False` chain of VariantPeptideTable.is_valid
    pool_filter  : the same chain inside `if not skip_checking:` of VariantPeptidePool.add_peptide

Both are read from the source text with ast (nothing is imported).  The conditions are expressions over
  SeqUtils.molecular_weight(<seq>, 'protein'), len(<seq>), min_mw / min_length / max_length (locals bound to
  cleavage_params.<same name>), integer constants, + and -, comparisons, and/or/not, `str(<seq>) in canonical_peptides`.
Fail-closed: anything else becomes FBad (rejected by Props/C04.v: filters_known), a chain that is not a plain
`if c: return False` sequence followed by `return True` (resp. by the merge code) sets the corresponding
*_shape_ok flag to false.  The generated file always compiles.
"""
import ast, os

def _find(tree, cls, fn):
    for n in ast.walk(tree):
        if isinstance(n, ast.ClassDef) and n.name == cls:
            for m in n.body:
                if isinstance(m, ast.FunctionDef) and m.name == fn:
                    return m
    return None

CMP = {ast.Lt: 'CLt', ast.LtE: 'CLe', ast.Gt: 'CGt', ast.GtE: 'CGe', ast.Eq: 'CEq', ast.NotEq: 'CNe'}

class Tr:
    def __init__(self, seqnames, poolname, binds):
        self.seqnames, self.poolname, self.binds = seqnames, poolname, binds
    def is_seq(self, e):
        s = ast.unparse(e)
        return s in self.seqnames
    def exp(self, e):
        if isinstance(e, ast.Name) and e.id in self.binds:
            return {'min_mw': 'EMinMw', 'min_length': 'EMinLen', 'max_length': 'EMaxLen'}[self.binds[e.id]]
        if isinstance(e, ast.Attribute) and isinstance(e.value, ast.Name) and e.value.id == 'cleavage_params' \
                and e.attr in ('min_mw', 'min_length', 'max_length'):
            return {'min_mw': 'EMinMw', 'min_length': 'EMinLen', 'max_length': 'EMaxLen'}[e.attr]
        if isinstance(e, ast.Constant) and isinstance(e.value, int) and not isinstance(e.value, bool):
            return '(EConst (%d))' % e.value
        if isinstance(e, ast.BinOp) and isinstance(e.op, (ast.Add, ast.Sub)):
            a, b = self.exp(e.left), self.exp(e.right)
            if a and b:
                return '(%s %s %s)' % ('EAdd' if isinstance(e.op, ast.Add) else 'ESub', a, b)
            return None
        if isinstance(e, ast.Call):
            f = ast.unparse(e.func)
            if f == 'len' and len(e.args) == 1 and not e.keywords and self.is_seq(e.args[0]):
                return 'ELen'
            if f in ('SeqUtils.molecular_weight', 'molecular_weight') and len(e.args) == 2 and not e.keywords \
                    and self.is_seq(e.args[0]) and isinstance(e.args[1], ast.Constant) and e.args[1].value == 'protein':
                return 'EMass'
        return None
    def cond(self, e):
        if isinstance(e, ast.BoolOp):
            parts = [self.cond(v) for v in e.values]
            op = 'FOr' if isinstance(e.op, ast.Or) else 'FAnd'
            out = parts[-1]
            for p in reversed(parts[:-1]):
                out = '(%s %s %s)' % (op, p, out)
            return out
        if isinstance(e, ast.UnaryOp) and isinstance(e.op, ast.Not):
            return '(FNot %s)' % self.cond(e.operand)
        if isinstance(e, ast.Compare) and len(e.ops) == 1:
            op, l, r = e.ops[0], e.left, e.comparators[0]
            if isinstance(op, (ast.In, ast.NotIn)):
                ls = ast.unparse(l)
                if isinstance(r, ast.Name) and r.id == self.poolname and ls in ['str(%s)' % s for s in self.seqnames]:
                    return 'FInPool' if isinstance(op, ast.In) else 'FNotInPool'
                return 'FBad'
            if type(op) in CMP:
                a, b = self.exp(l), self.exp(r)
                if a and b:
                    return '(FCmp %s %s %s)' % (a, CMP[type(op)], b)
        return 'FBad'

def _binds(stmts):
    """leading  `name = cleavage_params.attr`  assignments -> {name: attr}, rest"""
    b = {}
    i = 0
    while i < len(stmts):
        s = stmts[i]
        if isinstance(s, ast.Assign) and len(s.targets) == 1 and isinstance(s.targets[0], ast.Name) and \
                isinstance(s.value, ast.Attribute) and isinstance(s.value.value, ast.Name) and \
                s.value.value.id == 'cleavage_params' and s.value.attr in ('min_mw', 'min_length', 'max_length'):
            b[s.targets[0].id] = s.value.attr
            i += 1
        else:
            break
    return b, stmts[i:]

def _chain(stmts, tr):
    """[If(cond, [Return False])]* -> (conds, rest)"""
    conds = []
    i = 0
    while i < len(stmts):
        s = stmts[i]
        if isinstance(s, ast.If) and not s.orelse and len(s.body) == 1 and isinstance(s.body[0], ast.Return) and \
                isinstance(s.body[0].value, ast.Constant) and s.body[0].value.value is False:
            conds.append(tr.cond(s.test))
            i += 1
        else:
            break
    return conds, stmts[i:]

def _nodoc(body):
    if body and isinstance(body[0], ast.Expr) and isinstance(body[0].value, ast.Constant) and isinstance(body[0].value.value, str):
        return body[1:]
    return body

def table_filter(repo):
    src = open(os.path.join(repo, 'moPepGen/svgraph/VariantPeptideTable.py')).read()
    fn = _find(ast.parse(src), 'VariantPeptideTable', 'is_valid')
    if fn is None:
        return ['FBad'], False
    b, rest = _binds(_nodoc(fn.body))
    conds, rest = _chain(rest, Tr(['seq'], 'canonical_peptides', b))
    ok = len(rest) == 1 and isinstance(rest[0], ast.Return) and isinstance(rest[0].value, ast.Constant) and rest[0].value.value is True
    return conds, ok

def pool_filter(repo):
    src = open(os.path.join(repo, 'moPepGen/aa/VariantPeptidePool.py')).read()
    fn = _find(ast.parse(src), 'VariantPeptidePool', 'add_peptide')
    if fn is None:
        return ['FBad'], False
    body = _nodoc(fn.body)
    if not body or not isinstance(body[0], ast.If):
        return ['FBad'], False
    t = body[0].test
    if not (isinstance(t, ast.UnaryOp) and isinstance(t.op, ast.Not) and isinstance(t.operand, ast.Name)
            and t.operand.id == 'skip_checking' and not body[0].orelse):
        return ['FBad'], False
    b, rest = _binds(body[0].body)
    conds, rest = _chain(rest, Tr(['peptide.seq'], 'canonical_peptides', b))
    # after the guard: the merge code, ending in `return True`; no other `return False` may occur
    tail_ok = not rest and isinstance(body[-1], ast.Return) and isinstance(body[-1].value, ast.Constant) and body[-1].value.value is True
    for s in body[1:]:
        for n in ast.walk(s):
            if isinstance(n, ast.Return) and not (isinstance(n.value, ast.Constant) and n.value.value is True):
                tail_ok = False
    return conds, tail_ok

def run(repo, gendir):
    tc, tok = table_filter(repo)
    pc, pok = pool_filter(repo)
    b = lambda x: 'true' if x else 'false'
    out = ['(* GENERATED by harness/translate/pepfilter.py from moPepGen/svgraph/VariantPeptideTable.py (is_valid) and',
           '   moPepGen/aa/VariantPeptidePool.py (add_peptide) -- do not edit *)',
           'From MoPep Require Import Model.Base Model.PepFilterLang.', 'Open Scope Z_scope.',
           'Definition table_filter : list fcond := [%s].' % ';\n  '.join(tc),
           'Definition table_shape_ok : bool := %s.' % b(tok),
           'Definition pool_filter : list fcond := [%s].' % ';\n  '.join(pc),
           'Definition pool_shape_ok : bool := %s.' % b(pok), '']
    text = '\n'.join(out)
    path = os.path.join(gendir, 'PepFilter.v')
    if os.path.exists(path) and open(path).read() == text:
        return False
    open(path, 'w').write(text)
    return True
