"""Translate the option tables of moPepGen/cli/decoy_fasta.py into coq/Gen/DecoyCli.v.

Read with ast (never imported).  Extracted:
  cli_methods / cli_orders           the `choices=` lists of --method / --order
  handled_methods / handled_orders   the string literals `self.method` / `self.order` is compared with, in the
                                     order of the if/elif chains of generate_decoy_sequence /
                                     iterate_target_decoy_database (position = the code used by Model/Decoy.v)
  default_max_attempts               default of --shuffle-max-attempts
  trypsin_exception_literal          the exception name passed for --enzyme trypsin
  site_index_shift                   0 if fixed_indices += <find_all_enzymatic_cleave_sites call>
                                     1 if fixed_indices += [i - 1 for i in <that call>]
  sort_key_variant                   key of self.target_db.sort(key=lambda x: ...) in main:
                                     0 = x.seq   1 = (x.seq, x.description)   99 = anything else
Fail-closed: anything not understood becomes the marker value (a list holding the string "?" / the
number 99), which makes the obligation cli_options_modelled in Props/C20.v fail.
"""
import ast, os

MARK = ['?']

def S(s):
    return '[' + '; '.join(str(ord(c)) for c in s) + ']'

def SS(l):
    return '[' + '; '.join(S(x) for x in l) + ']'

def choices_of(tree, flag):
    for node in ast.walk(tree):
        if isinstance(node, ast.Call) and getattr(node.func, 'attr', '') == 'add_argument' and node.args \
                and isinstance(node.args[0], ast.Constant) and node.args[0].value == flag:
            out = {}
            for kw in node.keywords:
                if kw.arg in ('choices', 'default'):
                    try:
                        out[kw.arg] = ast.literal_eval(kw.value)
                    except Exception:
                        out[kw.arg] = None
            return out
    return {}

def compared_literals(func, attr):
    """string literals X in tests `self.<attr> == X` of the if/elif chain, in source order"""
    out = []
    for node in ast.walk(func):
        if isinstance(node, ast.Compare) and isinstance(node.left, ast.Attribute) and node.left.attr == attr \
                and isinstance(node.left.value, ast.Name) and node.left.value.id == 'self' \
                and len(node.ops) == 1 and isinstance(node.ops[0], ast.Eq) \
                and isinstance(node.comparators[0], ast.Constant) and isinstance(node.comparators[0].value, str):
            out.append((node.lineno, node.col_offset, node.comparators[0].value))
    return [v for _, _, v in sorted(out)]

def find_func(tree, name):
    for node in ast.walk(tree):
        if isinstance(node, ast.FunctionDef) and node.name == name:
            return node
    return None

def is_sites_call(e):
    return isinstance(e, ast.Call) and isinstance(e.func, ast.Attribute) and e.func.attr == 'find_all_enzymatic_cleave_sites'

def fixed_shift(func):
    """how the cleavage sites enter fixed_indices"""
    if func is None:
        return 99, '?'
    shift, exc = 99, '?'
    for node in ast.walk(func):
        if isinstance(node, ast.AugAssign) and isinstance(node.target, ast.Name) and node.target.id == 'fixed_indices' \
                and isinstance(node.op, ast.Add):
            v = node.value
            if is_sites_call(v):
                shift = 0
            elif isinstance(v, ast.ListComp) and len(v.generators) == 1 and is_sites_call(v.generators[0].iter) \
                    and not v.generators[0].ifs and isinstance(v.generators[0].target, ast.Name) \
                    and isinstance(v.elt, ast.BinOp) and isinstance(v.elt.op, ast.Sub) \
                    and isinstance(v.elt.left, ast.Name) and v.elt.left.id == v.generators[0].target.id \
                    and isinstance(v.elt.right, ast.Constant) and v.elt.right.value == 1:
                shift = 1
        if isinstance(node, ast.Assign) and len(node.targets) == 1 and isinstance(node.targets[0], ast.Name) \
                and node.targets[0].id == 'exception' and isinstance(node.value, ast.IfExp) \
                and isinstance(node.value.body, ast.Constant) and isinstance(node.value.body.value, str):
            exc = node.value.body.value
    return shift, exc

def sort_key(func):
    """the key of the target sort in main (exactly one `self.target_db.sort(key=lambda x: ...)`)"""
    if func is None:
        return 99, '?'
    calls = [n for n in ast.walk(func) if isinstance(n, ast.Call) and isinstance(n.func, ast.Attribute)
             and n.func.attr == 'sort' and ast.unparse(n.func.value) == 'self.target_db']
    sorts = [n for n in ast.walk(func) if isinstance(n, ast.Call) and
             ((isinstance(n.func, ast.Attribute) and n.func.attr == 'sort') or
              (isinstance(n.func, ast.Name) and n.func.id == 'sorted'))]
    if len(calls) != 1 or len(sorts) != 1 or calls[0].args or len(calls[0].keywords) != 1 \
            or calls[0].keywords[0].arg != 'key' or not isinstance(calls[0].keywords[0].value, ast.Lambda):
        return 99, '?'
    lam = calls[0].keywords[0].value
    if len(lam.args.args) != 1:
        return 99, '?'
    v = lam.args.args[0].arg
    body = ast.unparse(lam.body)
    if body == '%s.seq' % v:
        return 0, body
    if body == '(%s.seq, %s.description)' % (v, v):
        return 1, body
    return 99, body

def run(repo, gendir):
    path = os.path.join(repo, 'moPepGen/cli/decoy_fasta.py')
    try:
        tree = ast.parse(open(path).read())
    except Exception:
        tree = ast.parse('')
    m, o = choices_of(tree, '--method'), choices_of(tree, '--order')
    att = choices_of(tree, '--shuffle-max-attempts').get('default')
    gen, it = find_func(tree, 'generate_decoy_sequence'), find_func(tree, 'iterate_target_decoy_database')
    hm = compared_literals(gen, 'method') if gen else MARK
    ho = compared_literals(it, 'order') if it else MARK
    shift, exc = fixed_shift(find_func(tree, 'find_fixed_indices'))
    skey, skey_src = sort_key(find_func(tree, 'main'))
    def strs(x):
        return list(x) if isinstance(x, (list, tuple)) and all(isinstance(y, str) for y in x) and x else MARK
    L = ['(* GENERATED by harness/translate/decoy_cli.py from moPepGen/cli/decoy_fasta.py -- do not edit *)',
         'From MoPep Require Import Model.Base.', 'Open Scope Z_scope.',
         'Definition cli_methods : list (list Z) := %s.   (* %s *)' % (SS(strs(m.get('choices'))), strs(m.get('choices'))),
         'Definition cli_orders : list (list Z) := %s.   (* %s *)' % (SS(strs(o.get('choices'))), strs(o.get('choices'))),
         'Definition handled_methods : list (list Z) := %s.   (* %s *)' % (SS(strs(hm)), strs(hm)),
         'Definition handled_orders : list (list Z) := %s.   (* %s *)' % (SS(strs(ho)), strs(ho)),
         'Definition default_max_attempts : Z := %d.' % (att if isinstance(att, int) else -99),
         'Definition trypsin_exception_literal : list Z := %s.   (* %s *)' % (S(exc), exc),
         'Definition site_index_shift : Z := %d.' % shift,
         'Definition sort_key_variant : Z := %d.   (* %s *)' % (skey, skey_src.replace('*)', '* )'))]
    text = '\n'.join(L) + '\n'
    out = os.path.join(gendir, 'DecoyCli.v')
    old = open(out).read() if os.path.exists(out) else None
    if old != text:
        open(out, 'w').write(text)
        return True
    return False
