"""Translate the failure-handling skeleton of moPepGen/cli/call_variant_peptide.py into
coq/Gen/WrapperShape.v (read with ast, never imported):

  call_variant_peptides_wrapper
     main block    : index of success_flags cleared in the skip_failed branch, bare `raise` otherwise
     fusion loop   : same (the whole loop body must be the try statement)
     circRNA loop  : same, plus whether the three statements that consume `cgraph`, `pgraph`, `peptide_map`
                     run only after a successful call: the skip_failed branch ends with `continue`
                     (proposed_fixes/C07_D4.patch), or the statements live inside the try body / its
                     `else:` clause  -> sh_circ_cont = true;  as in the unchanged tree (after the try, reached
                     by fall-through)  -> false
     denylist      : `if main_peptides: denylist.update(...)` between the fusion and the circRNA loop
  call_variant_peptide
     tally         : `if not success_flags[k]: caller.tally.n_transcripts_failed[<key>] += 1`, each k once
     FASTA         : peptide_table.write_fasta(...) exactly once, after the transcript loop
  gather_data_for_call_variant
     invalid series: except ValueError: if self.args.skip_failed: n_transcripts_invalid += 1; return None ; raise
     accepter series: try: dummy_pool[add_tx] = pool[add_tx]  except KeyError: continue  and, after
                     proposed_fixes/C07_acc_invalid.patch,  except ValueError: if self.args.skip_failed: continue; raise

Fail-closed: whatever is not recognised becomes the marker 99 / false, which makes the obligation
`source_modelled` of coq/Props/C07.v fail (shape_known source_shape = true no longer computes).
"""
import ast, os

KEYS = {'variant': 0, 'fusion': 1, 'circRNA': 2}

def _fn(tree, name):
    for n in ast.walk(tree):
        if isinstance(n, ast.FunctionDef) and n.name == name:
            return n
    return None

def _calls(node, fname):
    return [n for n in ast.walk(node) if isinstance(n, ast.Call) and isinstance(n.func, ast.Name) and n.func.id == fname]

def _handler(tr):
    """(flag index | 99, reraise bool, skip-branch ends with continue) of `except: if skip_failed: ... else: ... raise`"""
    if len(tr.handlers) != 1 or tr.finalbody:
        return 99, False, False
    h = tr.handlers[0]
    if h.type is not None and ast.unparse(h.type) not in ('Exception', 'BaseException'):
        return 99, False, False
    if len(h.body) != 1 or not isinstance(h.body[0], ast.If) or ast.unparse(h.body[0].test) != 'skip_failed':
        return 99, False, False
    br = h.body[0]
    idx = 99
    assigns = [s for s in br.body if isinstance(s, ast.Assign)]
    others = [s for s in br.body if not isinstance(s, (ast.Assign, ast.Expr, ast.Continue))]
    if len(assigns) == 1 and not others and ast.unparse(assigns[0].targets[0]) == 'success_flags' \
            and isinstance(assigns[0].value, ast.Tuple) and len(assigns[0].value.elts) == 3:
        elts = assigns[0].value.elts
        false_at = [i for i, e in enumerate(elts) if isinstance(e, ast.Constant) and e.value is False]
        keep = [i for i, e in enumerate(elts) if ast.unparse(e) == 'success_flags[%d]' % i]
        if len(false_at) == 1 and sorted(false_at + keep) == [0, 1, 2]:
            idx = false_at[0]
    # expression statements in the branch may only be logger calls
    for s in br.body:
        if isinstance(s, ast.Expr) and not ast.unparse(s).startswith('logger.'):
            idx = 99
    conts = [s for s in br.body if isinstance(s, ast.Continue)]
    cont = bool(conts) and isinstance(br.body[-1], ast.Continue) and len(conts) == 1
    if conts and not cont:
        idx = 99
    reraise = bool(br.orelse) and isinstance(br.orelse[-1], ast.Raise) and br.orelse[-1].exc is None \
        and all(isinstance(s, ast.Expr) and ast.unparse(s).startswith('logger.') for s in br.orelse[:-1])
    return idx, reraise, cont

POST = ['dgraphs[2][circ_model.id] = cgraph', 'pgraphs[2][circ_model.id] = pgraph', 'add_peptide_anno(peptide_map)']

def classify(src):
    out = dict(main_flag=99, fusion_flag=99, circ_flag=99, main_reraise=False, fusion_reraise=False,
               circ_reraise=False, circ_cont=False, tally_keys=[99, 99, 99], fasta_after_loop=False,
               invalid_guarded=False, acc_guarded=False)
    notes = []
    try:
        tree = ast.parse(src)
    except SyntaxError:
        return out, ['syntax error']
    w = _fn(tree, 'call_variant_peptides_wrapper')
    if w is None:
        notes.append('wrapper not found')
    else:
        body = w.body
        # ---- main block
        mains = [s for s in body if isinstance(s, ast.If) and ast.unparse(s.test) == 'variant_series.transcriptional']
        if len(mains) == 1 and len(mains[0].body) == 1 and isinstance(mains[0].body[0], ast.Try) and not mains[0].orelse:
            tr = mains[0].body[0]
            inside = _calls(ast.Module(body=tr.body, type_ignores=[]), 'call_peptide_main')
            if len(inside) == 1 and len(_calls(w, 'call_peptide_main')) == 1 and not tr.orelse:
                out['main_flag'], out['main_reraise'], c = _handler(tr)
                if c:
                    out['main_flag'] = 99      # `continue` outside a loop cannot occur; be strict
            else:
                notes.append('main call not inside its try')
        else:
            notes.append('main block not understood')
        # ---- fusion loop
        fl = [s for s in body if isinstance(s, ast.For) and ast.unparse(s.iter) == 'variant_series.fusion']
        if len(fl) == 1 and len(fl[0].body) == 1 and isinstance(fl[0].body[0], ast.Try) and not fl[0].orelse:
            tr = fl[0].body[0]
            tb = ast.Module(body=tr.body, type_ignores=[])
            if len(_calls(tb, 'call_peptide_fusion')) == 1 and len(_calls(w, 'call_peptide_fusion')) == 1 \
                    and not tr.orelse and ast.unparse(tr.body[-1]) == 'add_peptide_anno(peptide_map)':
                out['fusion_flag'], out['fusion_reraise'], _c = _handler(tr)
            else:
                notes.append('fusion try body not understood')
        else:
            notes.append('fusion loop not understood')
        # ---- circRNA loop
        cl = [s for s in body if isinstance(s, ast.For) and ast.unparse(s.iter) == 'variant_series.circ_rna']
        if len(cl) == 1 and cl[0].body and isinstance(cl[0].body[0], ast.Try) and not cl[0].orelse \
                and ast.unparse(cl[0].target) == 'circ_model':
            tr = cl[0].body[0]
            after = [ast.unparse(s) for s in cl[0].body[1:]]
            tb = ast.Module(body=tr.body, type_ignores=[])
            ok_call = len(_calls(tb, 'call_peptide_circ_rna')) == 1 and len(_calls(w, 'call_peptide_circ_rna')) == 1 \
                and isinstance(tr.body[0], ast.Assign) and ast.unparse(tr.body[0].targets[0]) == '(peptide_map, cgraph, pgraph)'
            idx, rer, cont = _handler(tr)
            in_try = [ast.unparse(s) for s in tr.body[1:]]
            in_else = [ast.unparse(s) for s in tr.orelse]
            if ok_call and after == POST and not in_try and not in_else:
                out['circ_flag'], out['circ_reraise'], out['circ_cont'] = idx, rer, cont
            elif ok_call and not after and not cont and ((in_try == POST and not in_else) or (in_else == POST and not in_try)):
                out['circ_flag'], out['circ_reraise'], out['circ_cont'] = idx, rer, True
            else:
                notes.append('circRNA loop body not understood')
        else:
            notes.append('circRNA loop not understood')
        # ---- denylist update between the two loops
        if len(fl) == 1 and len(cl) == 1:
            i1, i2 = body.index(fl[0]), body.index(cl[0])
            mid = body[i1 + 1:i2]
            if not (len(mid) == 1 and isinstance(mid[0], ast.If) and ast.unparse(mid[0].test) == 'main_peptides'
                    and len(mid[0].body) == 1 and ast.unparse(mid[0].body[0]).startswith('denylist.update(')):
                notes.append('denylist update not understood')
                out['circ_flag'] = 99
    # ---- CLI level
    c = _fn(tree, 'call_variant_peptide')
    if c is None:
        notes.append('call_variant_peptide not found')
    else:
        keys = {}
        bad = False
        for n in ast.walk(c):
            if isinstance(n, ast.AugAssign) and 'n_transcripts_failed' in ast.unparse(n.target):
                bad = True      # must be matched below exactly once each
        for n in ast.walk(c):
            if isinstance(n, ast.If) and ast.unparse(n.test).startswith('not success_flags['):
                t = n.test.operand
                if len(n.body) == 1 and isinstance(n.body[0], ast.AugAssign) and isinstance(n.body[0].op, ast.Add) \
                        and isinstance(n.body[0].value, ast.Constant) and n.body[0].value.value == 1 and not n.orelse \
                        and isinstance(t, ast.Subscript) and isinstance(t.slice, ast.Constant):
                    tgt = n.body[0].target
                    k = t.slice.value
                    if isinstance(tgt, ast.Subscript) and ast.unparse(tgt.value) == 'caller.tally.n_transcripts_failed' \
                            and isinstance(tgt.slice, ast.Constant) and tgt.slice.value in KEYS and k not in keys:
                        keys[k] = KEYS[tgt.slice.value]
                        continue
                keys['bad'] = 99
        n_aug = sum(1 for n in ast.walk(c) if isinstance(n, ast.AugAssign) and 'n_transcripts_failed' in ast.unparse(n.target))
        if set(keys) == {0, 1, 2} and n_aug == 3:
            out['tally_keys'] = [keys[0], keys[1], keys[2]]
        else:
            notes.append('tally not understood')
        # FASTA: exactly one write_fasta call, a top-level statement of the `with` body, after the transcript loop
        wf = [n for n in ast.walk(c) if isinstance(n, ast.Call) and ast.unparse(n.func).endswith('write_fasta')]
        withs = [n for n in c.body if isinstance(n, ast.With)]
        if len(wf) == 1 and len(withs) == 1:
            wb = withs[0].body
            loops = [i for i, s in enumerate(wb) if isinstance(s, ast.For) and ast.unparse(s.iter) == 'tx_sorted']
            pos = [i for i, s in enumerate(wb) if isinstance(s, ast.Expr) and s.value is wf[0]]
            if len(loops) == 1 and len(pos) == 1 and pos[0] > loops[0]:
                out['fasta_after_loop'] = True
        if not out['fasta_after_loop']:
            notes.append('FASTA write not understood')
    g = _fn(tree, 'gather_data_for_call_variant')
    if g is not None:
        trs = [s for s in g.body if isinstance(s, ast.Try)]
        if trs and len(trs[0].handlers) == 1 and trs[0].handlers[0].type is not None \
                and ast.unparse(trs[0].handlers[0].type) == 'ValueError' \
                and ast.unparse(trs[0].body[0]) == 'variant_series = pool[tx_id]':
            hb = trs[0].handlers[0].body
            if len(hb) == 2 and isinstance(hb[0], ast.If) and ast.unparse(hb[0].test) == 'self.args.skip_failed' \
                    and [ast.unparse(s) for s in hb[0].body] == ['self.tally.n_transcripts_invalid += 1', 'return None'] \
                    and not hb[0].orelse and isinstance(hb[1], ast.Raise) and hb[1].exc is None:
                out['invalid_guarded'] = True
        # the accepter's series:  for add_tx in tx_ids: if add_tx != tx_id: try: dummy_pool[add_tx] = pool[add_tx] ...
        acc = [t for t in ast.walk(g) if isinstance(t, ast.Try) and len(t.body) == 1
               and ast.unparse(t.body[0]) == 'dummy_pool[add_tx] = pool[add_tx]']
        if len(acc) == 1 and not acc[0].orelse and not acc[0].finalbody:
            hs = acc[0].handlers
            key_ok = hs and hs[0].type is not None and ast.unparse(hs[0].type) == 'KeyError' \
                and [ast.unparse(x) for x in hs[0].body] == ['continue']
            if key_ok and len(hs) == 1:
                out['acc_guarded'] = False
            elif key_ok and len(hs) == 2 and hs[1].type is not None and ast.unparse(hs[1].type) == 'ValueError' \
                    and len(hs[1].body) == 2 and isinstance(hs[1].body[0], ast.If) \
                    and ast.unparse(hs[1].body[0].test) == 'self.args.skip_failed' \
                    and [ast.unparse(x) for x in hs[1].body[0].body] == ['continue'] and not hs[1].body[0].orelse \
                    and isinstance(hs[1].body[1], ast.Raise) and hs[1].body[1].exc is None:
                out['acc_guarded'] = True
            else:
                out['invalid_guarded'] = False
                notes.append('accepter-series handling not understood')
        else:
            out['invalid_guarded'] = False
            notes.append('accepter-series try not found')
    if not out['invalid_guarded']:
        notes.append('invalid-series handling not understood')
    return out, notes

def render(o, notes):
    b = lambda x: 'true' if x else 'false'
    return ('(* GENERATED by harness/translate/wrapper_shape.py from moPepGen/cli/call_variant_peptide.py -- do not edit *)\n'
            'From MoPep Require Import Model.Base Model.Wrapper.\nOpen Scope Z_scope.\n'
            '(* notes: %s *)\n'
            'Definition source_shape : shape :=\n'
            '  {| sh_main_flag := %d; sh_fusion_flag := %d; sh_circ_flag := %d;\n'
            '     sh_main_reraise := %s; sh_fusion_reraise := %s; sh_circ_reraise := %s;\n'
            '     sh_circ_cont := %s; sh_tally_keys := [%s]; sh_fasta_after_loop := %s;\n'
            '     sh_invalid_guarded := %s; sh_acc_guarded := %s |}.\n' % (
                '; '.join(notes).replace('*)', '* )') or 'none',
                o['main_flag'], o['fusion_flag'], o['circ_flag'], b(o['main_reraise']), b(o['fusion_reraise']),
                b(o['circ_reraise']), b(o['circ_cont']), '; '.join(str(k) for k in o['tally_keys']),
                b(o['fasta_after_loop']), b(o['invalid_guarded']), b(o['acc_guarded'])))

def run(repo, gendir):
    path = os.path.join(repo, 'moPepGen/cli/call_variant_peptide.py')
    try:
        o, notes = classify(open(path).read())
    except Exception as e:   # fail-closed
        o, notes = classify('def x(:')[0], [repr(e)]
    text = render(o, notes)
    out = os.path.join(gendir, 'WrapperShape.v')
    old = open(out).read() if os.path.exists(out) else None
    if old != text:
        open(out, 'w').write(text)
        return True
    return False
