"""Run one translator: _run.py <name> <repo> <gendir>; prints CHANGED/SAME as the last line."""
import sys, os, importlib
sys.path.insert(0, os.path.dirname(os.path.abspath(__file__)))
name, repo, gendir = sys.argv[1:4]
mod = importlib.import_module(name)
changed = mod.run(repo, gendir)
print('CHANGED' if changed else 'SAME')
