"""Translate the header-grammar constants and two code shapes of /repo into coq/Gen/HeaderCfg.v.

From the SOURCE TEXT (ast, nothing imported):
  moPepGen/constant.py        VariantPrefix members, ctbv(), alt_translation(); SOURCE_* names,
                              SEC_TERMINATION_TYPE, CODON_REASSIGNMENTS_TYPES
  moPepGen/__init__.py        VARIANT_PEPTIDE_SOURCE_DELIMITER, SPLIT_DATABASE_KEY_SEPARATER
  moPepGen/aa/VariantPeptideIdentifier.py
      BaseVariantPeptideIdentifier.is_alternative_splicing : the list alt_splice_types and WHICH test is
          applied to a variant id (substring `y in x`  or  prefix `x.startswith(y_) or '-y_' in x`)
      Circ/Fusion __str__ : whether the ORF id is appended before or after the variant ids
  moPepGen/aa/PeptidePoolSplitter.py
      __init__ : `isinstance(sources, str)` (tests the constructor argument, so plain names are iterated
          character by character) or `isinstance(source_group, str)`
      create_wildcard_map : range(start, len(individual_sources)) or range(start, len(individual_sources) + 1)
Fail-closed: anything not recognised sets cfg_recognised := false (an obligation of Props/C18.v and
Props/C19.v) and the generated file still compiles.
"""
import ast, os

def _s(x):
    return '[%s]' % '; '.join(str(ord(c)) for c in x)

def _ls(xs):
    return '[%s]' % '; '.join(_s(x) for x in xs)

def _const_assigns(tree):
    out = {}
    for n in tree.body:
        if isinstance(n, ast.Assign) and len(n.targets) == 1 and isinstance(n.targets[0], ast.Name):
            try:
                out[n.targets[0].id] = ast.literal_eval(n.value)
            except Exception:
                pass
    return out

def _find_class(tree, name):
    for n in tree.body:
        if isinstance(n, ast.ClassDef) and n.name == name:
            return n
    return None

def _find_method(cls, name):
    for n in cls.body:
        if isinstance(n, ast.FunctionDef) and n.name == name:
            return n
    return None

def _norm_stmt(src):
    return ast.dump(ast.parse(src).body[0])

def _norm(src):
    return ast.dump(ast.parse(src, mode='eval').body)

SUBSTR = _norm("any(any(y in x for y in alt_splice_types) for x in self.variant_ids)")
PREFIX = _norm("any(any(x.startswith(f\"{y}_\") or f\"-{y}_\" in x for y in alt_splice_types) for x in self.variant_ids)")

def _orf_first(cls, var_attr_names):
    """position of `if self.orf_id: x.append(self.orf_id)` relative to the first `x += <variants>`"""
    m = _find_method(cls, '__str__')
    if m is None:
        return None
    pos_orf = pos_var = None
    for i, st in enumerate(m.body):
        d = ast.dump(st)
        if isinstance(st, ast.If) and "attr='orf_id'" in ast.dump(st.test) and pos_orf is None:
            pos_orf = i
        if isinstance(st, ast.AugAssign) and any(("attr='%s'" % a) in d for a in var_attr_names) and pos_var is None:
            pos_var = i
    if pos_orf is None or pos_var is None:
        return None
    return pos_orf < pos_var

def run(repo, gendir):
    ok = True
    notes = []
    def fail(msg):
        nonlocal ok
        ok = False
        notes.append(msg)
    # ---- constants
    members, ctbv, altt = {}, [], []
    consts, inits = {}, {}
    try:
        tree = ast.parse(open(os.path.join(repo, 'moPepGen/constant.py')).read())
        consts = _const_assigns(tree)
        vp = _find_class(tree, 'VariantPrefix')
        for n in vp.body:
            if isinstance(n, ast.Assign) and isinstance(n.targets[0], ast.Name) and isinstance(n.value, ast.Constant):
                members[n.targets[0].id] = n.value.value
        def ret_list(name):
            m = _find_method(vp, name)
            r = [s for s in m.body if isinstance(s, ast.Return)][0].value
            out = []
            for e in r.elts:
                if not (isinstance(e, ast.Attribute) and isinstance(e.value, ast.Name) and e.value.id == 'cls'):
                    raise ValueError('unexpected element')
                out.append(members[e.attr])
            return out
        ctbv = ret_list('ctbv')
        altt = ret_list('alt_translation')
    except Exception as e:  # noqa
        fail('constant.py: %r' % e)
    try:
        inits = _const_assigns(ast.parse(open(os.path.join(repo, 'moPepGen/__init__.py')).read()))
    except Exception as e:  # noqa
        fail('__init__.py: %r' % e)
    def need(d, k, typ):
        v = d.get(k)
        if not isinstance(v, typ):
            fail('%s not found' % k)
            return typ()
        return v
    delim = need(inits, 'VARIANT_PEPTIDE_SOURCE_DELIMITER', str)
    keysep = need(inits, 'SPLIT_DATABASE_KEY_SEPARATER', str)
    if len(delim) != 1:
        fail('entry delimiter is not one character'); delim = ' '
    if len(keysep) != 1:
        fail('key separator is not one character'); keysep = '-'
    src_novel = need(consts, 'SOURCE_NOVEL_ORF', str)
    src_codon = need(consts, 'SOURCE_CODON_REASSIGNMENT', str)
    src_sect = need(consts, 'SOURCE_SEC_TERMINATION', str)
    sect_type = need(consts, 'SEC_TERMINATION_TYPE', str)
    codon_types = need(consts, 'CODON_REASSIGNMENTS_TYPES', list)
    for k in ('FUSION', 'CI', 'CIRC'):
        if members.get(k) != k:
            fail('VariantPrefix.%s changed' % k)
    # ---- code shapes
    splice_types, splice_test = [], 9
    circ_first = fusion_first = True
    try:
        tree = ast.parse(open(os.path.join(repo, 'moPepGen/aa/VariantPeptideIdentifier.py')).read())
        base = _find_class(tree, 'BaseVariantPeptideIdentifier')
        m = _find_method(base, 'is_alternative_splicing')
        body = [s for s in m.body if not (isinstance(s, ast.Expr) and isinstance(s.value, ast.Constant))]
        if len(body) != 2 or not isinstance(body[0], ast.Assign) or not isinstance(body[1], ast.Return):
            raise ValueError('is_alternative_splicing has an unexpected shape')
        if body[0].targets[0].id != 'alt_splice_types':
            raise ValueError('alt_splice_types not found')
        splice_types = ast.literal_eval(body[0].value)
        d = ast.dump(body[1].value)
        if d == SUBSTR:
            splice_test = 0
        elif d == PREFIX:
            splice_test = 2
        else:
            raise ValueError('is_alternative_splicing: unrecognised test')
        c = _orf_first(_find_class(tree, 'CircRNAVariantPeptideIdentifier'), ['variant_ids'])
        f = _orf_first(_find_class(tree, 'FusionVariantPeptideIdentifier'), ['first_variants'])
        if c is None or f is None:
            raise ValueError('__str__ of circRNA/fusion identifier has an unexpected shape')
        circ_first, fusion_first = c, f
    except Exception as e:  # noqa
        fail('VariantPeptideIdentifier.py: %r' % e)
    # ---- PeptidePoolSplitter: how self.sources is initialised, and the bound of the wildcard expansion
    by_char, upper_excl = True, True
    try:
        tree = ast.parse(open(os.path.join(repo, 'moPepGen/aa/PeptidePoolSplitter.py')).read())
        cls = _find_class(tree, 'PeptidePoolSplitter')
        init = ast.dump(_find_method(cls, '__init__'))
        a = _norm("isinstance(sources, str)") in init
        b = _norm("isinstance(source_group, str)") in init
        if a == b:
            raise ValueError('__init__: isinstance test on the order keys not recognised')
        by_char = a
        wm = ast.dump(_find_method(cls, 'create_wildcard_map'))
        e = _norm("range(start, len(individual_sources))") in wm
        i = _norm("range(start, len(individual_sources) + 1)") in wm
        if e == i:
            raise ValueError('create_wildcard_map: range of the expansion not recognised')
        upper_excl = e
    except Exception as e:  # noqa
        fail('PeptidePoolSplitter.py: %r' % e)
    # ---- LabelSourceMapping.add_record (used by summarizeFasta): overwrite, or keep the first source
    last_wins = True
    try:
        tree = ast.parse(open(os.path.join(repo, 'moPepGen/aa/VariantPeptideLabel.py')).read())
        m = _find_method(_find_class(tree, 'LabelSourceMapping'), 'add_record')
        stmts = [st for st in m.body if not (isinstance(st, ast.Expr) and isinstance(st.value, ast.Constant))]
        assign = _norm_stmt("self.data[gene_id][label] = source")
        guard = _norm("label not in self.data[gene_id]")
        top_assign = any(ast.dump(st) == assign for st in stmts)
        guarded = any(isinstance(st, ast.If) and ast.dump(st.test) == guard and
                      any(ast.dump(x) == assign for x in st.body) for st in stmts)
        if top_assign == guarded:
            raise ValueError('add_record not recognised')
        last_wins = top_assign
    except Exception as e:  # noqa
        fail('VariantPeptideLabel.py: %r' % e)
    L = []
    w = L.append
    w('(* GENERATED by harness/translate/header_cfg.py from /repo -- do not edit *)')
    w('From MoPep Require Import Model.Base.')
    w('Open Scope Z_scope.')
    for n in notes:
        w('(* NOT RECOGNISED: %s *)' % n.replace('*)', '* )'))
    w('Definition cfg_recognised : bool := %s.' % ('true' if ok else 'false'))
    w('Definition cfg_ctbv_prefixes : list (list Z) := %s.  (* %s *)' % (_ls(ctbv), ' '.join(ctbv)))
    w('Definition cfg_alt_translation_prefixes : list (list Z) := %s.  (* %s *)' % (_ls(altt), ' '.join(altt)))
    w('Definition cfg_alt_splice_types : list (list Z) := %s.  (* %s *)' % (_ls(splice_types), ' '.join(splice_types)))
    w('Definition cfg_splice_test : Z := %d.  (* 0: substring `y in x`; 2: x.startswith(y_) or -y_ in x; 9: not recognised *)' % splice_test)
    w('Definition cfg_circ_orf_first : bool := %s.' % ('true' if circ_first else 'false'))
    w('Definition cfg_fusion_orf_first : bool := %s.' % ('true' if fusion_first else 'false'))
    w('Definition cfg_init_sources_by_char : bool := %s.  (* __init__ iterates a plain source name character by character *)' % ('true' if by_char else 'false'))
    w('Definition cfg_wild_upper_exclusive : bool := %s.  (* range(start, len(individual_sources)) without + 1 *)' % ('true' if upper_excl else 'false'))
    w('Definition cfg_summary_last_wins : bool := %s.  (* LabelSourceMapping.add_record overwrites an earlier source *)' % ('true' if last_wins else 'false'))
    w('Definition cfg_entry_delim : Z := %d.' % ord(delim))
    w('Definition cfg_key_sep : Z := %d.' % ord(keysep))
    w('Definition cfg_source_novel_orf : list Z := %s.  (* %s *)' % (_s(src_novel), src_novel))
    w('Definition cfg_source_codon_reassign : list Z := %s.  (* %s *)' % (_s(src_codon), src_codon))
    w('Definition cfg_source_sect : list Z := %s.  (* %s *)' % (_s(src_sect), src_sect))
    w('Definition cfg_sect_type : list Z := %s.  (* %s *)' % (_s(sect_type), sect_type))
    w('Definition cfg_codon_reassign_types : list (list Z) := %s.  (* %s *)' % (_ls(codon_types), ' '.join(codon_types)))
    text = '\n'.join(L) + '\n'
    out = os.path.join(gendir, 'HeaderCfg.v')
    old = open(out).read() if os.path.exists(out) else None
    if old != text:
        open(out, 'w').write(text)
        return True
    return False
