"""Python-subset -> Gallina translator (function BODIES, not tables).

For every target listed in py2coq_config.TARGETS the function is read from the source text of
/repo with `ast` (never imported) and translated into Coq definitions in coq/Gen/Py_<Module>.v.
coq/Proofs/Py2Coq*Proofs.v then proves   forall args, Gen.<fn> args = Model.<fn> args   so every
theorem about the hand-written model transfers to what the code says NOW, and a semantic edit of
the code breaks that equality obligation.  See docs/py2coq.md.

Fail-closed: any construct outside the subset (or a missing function, or generated text that
coqc rejects) makes the translator REFUSE the function: it emits
    Definition <fn>_untranslated : bool := true.     (* reason *)
    Definition <fn> <args> : <ret> := <stub>.
so the file always compiles and the equality obligation (and <fn>_untranslated = false) fails.

Translation scheme (docs/py2coq.md has the details)
  * statements are translated with an explicit continuation (the code that follows is inlined
    into every branch that reaches it) so definite assignment, UnboundLocalError and the type of
    a local (int vs int|None) are path-sensitive for free;
  * `x = e`, `x op= e`        -> let v_x := e in ...
  * if / elif / else          -> if .. then .. else ..   (`and`/`or`/`not` with operands that can
                                 raise are desugared into nested ifs to keep short-circuiting)
  * `for x in L` / reversed(L) with break / continue / return / raise
        -> a structurally recursive Fixpoint <fn>_loop<N> over the list carrying the live locals,
           result type lres: Continue state | Done result; the code after the loop consumes the state
  * `while c:`                -> Fixpoint on explicit fuel (config gives the bound), out of fuel is
                                 a distinct error value
  * xs[0], xs[-1], xs[i]      -> nth_error / py_index, None -> the IndexError constructor
  * raise ValueError(..)      -> the constructor the config assigns to the message
  * an unbound local on a path -> the UnboundLocalError constructor
  * int|None used as a number -> the TypeError constructor
"""
import ast, os, re, subprocess, tempfile, shutil, sys

sys.path.insert(0, os.path.dirname(os.path.abspath(__file__)))


class Refuse(Exception):
    pass


def refuse(why, node=None):
    if node is not None and hasattr(node, 'lineno'):
        why = '%s (line %d)' % (why, node.lineno)
    raise Refuse(why)


# ------------------------------------------------------------------------------------ patterns
def pmatch(p, n, b):
    """structural match of pattern AST p against node n; Names starting with '_' are metavariables"""
    if isinstance(p, ast.Name) and p.id.startswith('_') and len(p.id) > 1 and not p.id.endswith('__'):
        if p.id in b:
            return ast.dump(b[p.id]) == ast.dump(n)
        b[p.id] = n
        return True
    if type(p) is not type(n):
        return False
    for f in p._fields:
        if f == 'ctx':
            continue
        a, c = getattr(p, f, None), getattr(n, f, None)
        if isinstance(a, ast.AST):
            if not isinstance(c, ast.AST) or not pmatch(a, c, b):
                return False
        elif isinstance(a, list):
            if not isinstance(c, list) or len(a) != len(c):
                return False
            for x, y in zip(a, c):
                if isinstance(x, ast.AST):
                    if not isinstance(y, ast.AST) or not pmatch(x, y, b):
                        return False
                elif x != y:
                    return False
        elif a != c:
            return False
    return True


class Pat:
    def __init__(self, src, types, template, ty, mode='eval'):
        self.src = src
        self.stmt_ast = None
        try:
            self.ast = ast.parse(src, mode='eval').body
        except SyntaxError:
            # a statement pattern that is not an expression (`obj.attr += 1`)
            self.stmt_ast = ast.parse(src).body[0]
            self.ast = ast.Constant(value='@@never@@')
        self.types, self.template, self.ty = types, template, ty


BASE_COQ_TY = {'Z': 'Z', 'bool': 'bool', 'optZ': 'option Z', 'nat': 'nat', 'unit': 'unit'}
COQ_TY = dict(BASE_COQ_TY)


def coq_ty(t):
    if t in COQ_TY:
        return COQ_TY[t]
    if t.startswith('opt '):
        return 'option (%s)' % coq_ty(t[4:])
    if t.startswith('unb '):
        return 'option (%s)' % coq_ty(t[4:])
    if t.startswith('iter '):
        return 'list (%s)' % coq_ty(t[5:])
    return re.sub(r'[A-Za-z_]\w*', lambda m: COQ_TY.get(m.group(0), m.group(0)) if m.group(0) not in ('Z', 'bool', 'nat', 'unit') else m.group(0), t)


# ------------------------------------------------------------------------------------ environment
class Env:
    """python local name -> dict(coq, ty, st) in binding order; st = 'bound' | 'maybe'.
    cache: option-valued Coq expression already matched `Some b` in the enclosing scope -> b"""
    def __init__(self, vars=None, cache=None):
        self.vars = dict(vars or {})
        self.cache = dict(cache or {})

    def bind(self, name, coq, ty, st='bound'):
        e = Env(self.vars, self.cache)
        if name in e.vars:
            # keep the original position (state-tuple order must not depend on re-assignment)
            e.vars[name] = dict(coq=coq, ty=ty, st=st)
        else:
            e.vars[name] = dict(coq=coq, ty=ty, st=st)
        return e

    def cached(self, k, v):
        e = Env(self.vars, self.cache)
        e.cache[k] = v
        return e

    def nocache(self):
        return Env(self.vars, {})


class Ctx:
    def __init__(self, ret, brk=None, cont=None, exc=None):
        # exc: inside `try: .. except:` -- what a raising construct continues with (the handler), given the
        # environment at the point of failure
        self.ret, self.brk, self.cont, self.exc = ret, brk, cont, exc


# ------------------------------------------------------------------------------------ translator
class FnTranslator:
    def __init__(self, cfg, fn):
        self.cfg, self.fn = cfg, fn
        self.name = cfg['coq_name']
        self.args = cfg['args']                       # [(coq name, coq type)]
        self.ret_ty = cfg['ret_ty']                   # python-level type of the returned value ('Z', 'list seq')
        self.res_ty = cfg['res_ty']                   # Coq type of the function result ('res Z')
        self.ok = cfg['ok']                           # template for a normal result
        self.errors = cfg.get('errors', {})           # exception class -> Coq term
        self.raises = cfg.get('raises', [])           # [(class, kind, regex-or-name, Coq term)]
        self.patterns = [Pat(*p) for p in cfg.get('patterns', [])]
        self.stmt_patterns = [(Pat(sp[0], sp[1], sp[3], sp[4] if len(sp) > 4 else None), sp[2]) for sp in cfg.get('stmt_patterns', [])]
        self.binds = cfg.get('binds', {})             # unparse(rhs) -> symbolic object type
        self.seq_binds = cfg.get('seq_binds', [])     # [([stmt texts], var, coq term, type)]
        self.skip_defs = dict(cfg.get('skip_defs', {}))   # nested def name -> exact ast.unparse text it must have
        self.var_types = cfg.get('var_types', {})     # type of `x = []`
        self.fuel = list(cfg.get('fuel', []))
        self.yields = cfg.get('yields')               # element type of a generator function (yield -> accumulated list)
        self.attr_assign = cfg.get('attr_assign', {}) # (record type, attribute) -> template over {cur} and {val}
        self.truthy = cfg.get('truthy', {})           # config type -> bool template ({0} = the value)
        self.ignore = [re.compile(r) for r in cfg.get('ignore_stmts', [])]   # statements without effect on the model
        self.rewrites = cfg.get('stmt_rewrites', [])  # (exact text | 'sha256:<hex>', replacement python source)
        COQ_TY.clear()
        COQ_TY.update(BASE_COQ_TY)                    # config types are per target
        for t, c in cfg.get('types', {}).items():
            COQ_TY[t] = c
        self.loops = []                               # emitted Fixpoints (text)
        self.nloop = 0
        self.ninst = 0
        self.loop_by_text = {}
        self.nbind = 0
        self.locals = self._locals(fn)
        self.argnames = {a for a, _ in self.args}

    # -- helpers
    def _locals(self, fn):
        names = set()
        for n in ast.walk(fn):
            if isinstance(n, ast.Name) and isinstance(n.ctx, (ast.Store, ast.Del)):
                names.add(n.id)
            elif isinstance(n, ast.FunctionDef) and n is not fn:
                names.add(n.name)
        for (pat, tgt) in self.stmt_patterns:
            names.add(tgt)
        return names

    def fresh(self, base):
        self.nbind += 1
        return '%s__%d' % (base, self.nbind)

    def err(self, cls, node=None):
        if cls not in self.errors:
            refuse('the code can raise %s and the config maps it to no constructor' % cls, node)
        return self.errors[cls]

    def emit_loop(self, placeholder, fix):
        """a loop reached through several inlined continuations is emitted once"""
        # canonical binder numbers inside the loop (so that two inlined copies of one loop coincide)
        seen = {}
        def ren(mo):
            if mo.group(0) not in seen:
                seen[mo.group(0)] = '%s__%d' % (mo.group(1), len(seen) + 1)
            return seen[mo.group(0)]
        fix = re.sub(r'\b([a-z])__(\d+)\b', ren, fix)
        key = fix.replace(placeholder, '@SELF@')
        if key in self.loop_by_text:
            return self.loop_by_text[key]
        self.nloop += 1
        real = '%s_loop%d' % (self.name, self.nloop)
        self.loop_by_text[key] = real
        self.loops.append(fix.replace(placeholder, real))
        return real

    def coerce(self, term, ty, want):
        """a value known to be a T on this path used where T|None is expected"""
        if ty == want:
            return term
        if want == 'opt ' + ty or (want == 'optZ' and ty == 'Z') or want == 'unb ' + ty:
            return '(Some %s)' % term
        return None

    def mangle(self, name):
        return 'v_' + name

    # -- expressions:  tr(n, env) -> (guards, term, ty)
    #    guards (evaluation order): ('opt', binder, option-term, exception class) | ('fail', exception class)
    #                               | ('res', binder, term of the model's result type)
    def tr(self, n, env):
        for pat in self.patterns:
            b = {}
            if not pmatch(pat.ast, n, b):
                continue
            try:
                guards, subst, ok = [], {}, True
                for mv, sub in b.items():
                    if pat.types.get(mv) == 'literal':   # a global NAME that begins with '_' (e.g. _STRAND_LEVELS): itself only
                        if not (isinstance(sub, ast.Name) and sub.id == mv):
                            ok = False
                            break
                        subst[mv] = ''
                        continue
                    if pat.types.get(mv) == '*':         # any expression, not translated (its meaning is the template's)
                        subst[mv] = ''
                        continue
                    g, t, ty = self.tr(sub, env)
                    want = pat.types.get(mv)
                    if want is not None and ty != want:
                        c = self.coerce(t, ty, want) if t is not None else None
                        if c is None and t is not None and ty == 'opt ' + want and 'NoneValue' in self.errors:
                            # a value that may be None where the model's type has no None: a distinct error value
                            b3 = self.fresh('u')
                            g = g + [('opt', b3, t, 'NoneValue')]
                            c = b3
                        if c is None:
                            ok = False
                            break
                        t, ty = c, want
                    if t is None and ('{%s}' % mv) in pat.template:
                        ok = False
                        break
                    guards += g
                    subst[mv] = t
                if not ok:
                    continue
            except Refuse:
                continue
            term = pat.template.format(**subst)
            if pat.ty.startswith('opt:'):
                # a mapped call that can raise: the template is an option, None = the named exception
                _, cls, rty = pat.ty.split(':', 2)
                self.err(cls, n)
                b2 = self.fresh('o')
                return guards + [('opt', b2, term, cls)], b2, rty
            if pat.ty.startswith('resx:'):
                _, rname, rty = pat.ty.split(':', 2)
                b2 = self.fresh('r')
                return guards + [('resx', b2, term, rname)], b2, rty
            if pat.ty.startswith('res '):
                # a call of another translated function (mapped to ITS model): propagate its error
                b2 = self.fresh('r')
                return guards + [('res', b2, term)], b2, pat.ty[4:]
            return guards, term, pat.ty
        return self.tr_generic(n, env)

    def num(self, n, env):
        """translate n and coerce to Z (int|None used as a number raises TypeError)"""
        g, t, ty = self.tr(n, env)
        if ty == 'optZ':
            b = self.fresh('n')
            self.err('TypeError', n)
            return g + [('opt', b, t, 'TypeError')], b, 'Z'
        if ty == 'nat' and t is not None:
            return g, '(Z.of_nat %s)' % t, 'Z'
        if ty != 'Z' or t is None:
            refuse('integer expected, got %s: %s' % (ty, ast.unparse(n)), n)
        return g, t, ty

    def pure(self, guards, n):
        if guards:
            refuse('operand that can raise in a position where hoisting would change evaluation order: %s' % ast.unparse(n), n)

    def tr_generic(self, n, env):
        if isinstance(n, ast.Constant):
            if isinstance(n.value, bool):
                return [], 'true' if n.value else 'false', 'bool'
            if isinstance(n.value, int):
                return [], ('%d' % n.value) if n.value >= 0 else '(%d)' % n.value, 'Z'
            refuse('constant %r' % (n.value,), n)
        if isinstance(n, ast.Name):
            if n.id == 'self':
                return [], None, 'self'
            if n.id in env.vars:
                v = env.vars[n.id]
                if v['st'] != 'bound':
                    refuse('local %s may be unbound here' % n.id, n)
                if v['ty'] == 'opaque':
                    refuse('opaque (string) local %s used in a translated expression' % n.id, n)
                if v['ty'].startswith('unb '):
                    # a local first assigned inside a loop (config maybe_locals): None = not bound yet
                    self.err('UnboundLocalError', n)
                    b = self.fresh('w')
                    return [('opt', b, v['coq'], 'UnboundLocalError')], b, v['ty'][4:]
                return [], v['coq'], v['ty']
            if n.id in self.locals:
                self.err('UnboundLocalError', n)
                return [('fail', 'UnboundLocalError')], '0', 'Z'
            refuse('global name %s' % n.id, n)
        if isinstance(n, ast.UnaryOp):
            if isinstance(n.op, ast.USub):
                if isinstance(n.operand, ast.Constant) and isinstance(n.operand.value, int) and not isinstance(n.operand.value, bool):
                    return [], '(-%d)' % n.operand.value if n.operand.value else '0', 'Z'
                g, t, ty = self.num(n.operand, env)
                return g, '(- %s)' % t, 'Z'
            if isinstance(n.op, ast.Not):
                g, t, ty = self.tr(n.operand, env)
                if ty != 'bool':
                    refuse('`not` of a non-bool (truthiness is outside the subset)', n)
                return g, '(negb %s)' % t, 'bool'
            refuse('unary operator', n)
        if isinstance(n, ast.BinOp):
            ops = {ast.Add: '+', ast.Sub: '-', ast.Mult: '*'}
            if isinstance(n.op, ast.Add):
                try:
                    gl, tl, tyl = self.tr(n.left, env)
                    gr, tr_, tyr = self.tr(n.right, env)
                except Refuse:
                    tyl = tyr = ''
                if tyl.startswith('list ') and tyl == tyr and tl is not None and tr_ is not None:
                    return gl + gr, '(%s ++ %s)' % (tl, tr_), tyl
            gl, tl, _ = self.num(n.left, env)
            gr, tr_, _ = self.num(n.right, env)
            if type(n.op) in ops:
                return gl + gr, '(%s %s %s)' % (tl, ops[type(n.op)], tr_), 'Z'
            if isinstance(n.op, (ast.FloorDiv, ast.Mod)):
                if not (isinstance(n.right, ast.Constant) and isinstance(n.right.value, int) and n.right.value > 0):
                    refuse('// and % only with a positive constant divisor', n)
                return gl + gr, '(%s %s %s)' % (tl, '/' if isinstance(n.op, ast.FloorDiv) else 'mod', tr_), 'Z'
            refuse('binary operator %s' % type(n.op).__name__, n)
        if isinstance(n, ast.BoolOp):
            # the `x or k` idiom for x : int | None
            if isinstance(n.op, ast.Or) and len(n.values) == 2:
                g0, t0, ty0 = self.tr(n.values[0], env)
                if ty0 == 'optZ':
                    g1, t1, ty1 = self.tr(n.values[1], env)
                    self.pure(g1, n.values[1])
                    if ty1 != 'Z':
                        refuse('`or` default of type %s' % ty1, n)
                    return g0, '(py_or_optZ %s %s)' % (t0, t1), 'Z'
            parts, guards = [], []
            for i, v in enumerate(n.values):
                g, t, ty = self.tr(v, env)
                if ty != 'bool':
                    refuse('and/or on non-bool operands (truthiness is outside the subset)', n)
                if i > 0:
                    self.pure(g, v)
                guards += g
                parts.append(t)
            return guards, '(%s)' % (' && ' if isinstance(n.op, ast.And) else ' || ').join(parts), 'bool'
        if isinstance(n, ast.Compare) and len(n.ops) == 1 and isinstance(n.ops[0], (ast.Is, ast.IsNot)) \
                and isinstance(n.comparators[0], ast.Constant) and n.comparators[0].value is None:
            g, t, ty = self.tr(n.left, env)
            if t is None:
                refuse('`is None` on a symbolic object', n)
            if ty == 'optZ' or ty.startswith('opt '):
                isn = '(match %s with None => true | Some _ => false end)' % t
            else:
                isn = 'false'                      # a value of a non-optional type is never None
            return g, isn if isinstance(n.ops[0], ast.Is) else '(negb %s)' % isn, 'bool'
        if isinstance(n, ast.Compare) and len(n.ops) == 1 and isinstance(n.ops[0], (ast.Eq, ast.NotEq)):
            # int|None == int: None compares unequal, no TypeError
            gl, tl, tyl = self.tr(n.left, env)
            gr, tr_, tyr = self.tr(n.comparators[0], env)
            if tyl == 'optZ' and tyr == 'Z' and tl is not None:
                eq = '(match %s with None => false | Some n__ => n__ =? %s end)' % (tl, tr_)
                return gl + gr, eq if isinstance(n.ops[0], ast.Eq) else '(negb %s)' % eq, 'bool'
        if isinstance(n, ast.Compare) and len(n.ops) == 1 and isinstance(n.ops[0], (ast.In, ast.NotIn)) \
                and isinstance(n.comparators[0], ast.Tuple) and n.comparators[0].elts:
            # x in (a, b, ..)  ==  x == a or x == b or ..   (x must not raise: it is evaluated once)
            gx, _, _ = self.tr(n.left, env)
            self.pure(gx, n.left)
            eqs = [ast.Compare(left=n.left, ops=[ast.Eq()], comparators=[e]) for e in n.comparators[0].elts]
            d = eqs[0] if len(eqs) == 1 else ast.BoolOp(op=ast.Or(), values=eqs)
            d = ast.fix_missing_locations(ast.copy_location(d, n))
            g, t, ty = self.tr(d, env)
            return g, t if isinstance(n.ops[0], ast.In) else '(negb %s)' % t, 'bool'
        if isinstance(n, ast.Compare):
            cops = {ast.Lt: '<?', ast.LtE: '<=?', ast.Gt: '>?', ast.GtE: '>=?', ast.Eq: '=?'}
            operands = [n.left] + list(n.comparators)
            trs = []
            for i, o in enumerate(operands):
                g, t, ty = self.num(o, env)
                if i >= 2:
                    self.pure(g, o)           # evaluated only when the earlier comparisons hold
                if 0 < i < len(operands) - 1 and g:
                    refuse('middle operand of a chained comparison can raise', o)
                trs.append((g, t))
            guards = [x for g, _ in trs for x in g]
            parts = []
            for i, op in enumerate(n.ops):
                a, b = trs[i][1], trs[i + 1][1]
                if type(op) in cops:
                    parts.append('(%s %s %s)' % (a, cops[type(op)], b))
                elif isinstance(op, ast.NotEq):
                    parts.append('(negb (%s =? %s))' % (a, b))
                else:
                    refuse('comparison operator %s' % type(op).__name__, n)
            return guards, parts[0] if len(parts) == 1 else '(%s)' % ' && '.join(parts), 'bool'
        if isinstance(n, ast.Subscript):
            g, t, ty = self.tr(n.value, env)
            if not ty.startswith('list ') or t is None:
                refuse('indexing a non-list: %s' % ast.unparse(n), n)
            ety = ty[5:]
            self.err('IndexError', n)
            idx = n.slice
            k = None
            if isinstance(idx, ast.Constant) and isinstance(idx.value, int) and not isinstance(idx.value, bool):
                k = idx.value
            elif isinstance(idx, ast.UnaryOp) and isinstance(idx.op, ast.USub) and isinstance(idx.operand, ast.Constant) \
                    and isinstance(idx.operand.value, int):
                k = -idx.operand.value
            if k is not None and k >= 0:
                opt = 'nth_error %s %d%%nat' % (t, k)
            elif k is not None and k == -1:
                opt = 'nth_error %s (length %s - 1)%%nat' % (t, t)
            elif k is not None:
                opt = 'py_index %s (%d)' % (t, k)
            else:
                gi, ti, _ = self.num(idx, env)
                g = g + gi
                opt = 'py_index %s %s' % (t, ti)
            if opt in env.cache:
                return g, env.cache[opt], ety
            b = self.fresh('e')
            return g + [('opt', b, opt, 'IndexError')], b, ety
        if isinstance(n, ast.Call):
            if isinstance(n.func, ast.Name) and n.func.id == 'len' and len(n.args) == 1 and not n.keywords \
                    and 'len' not in self.locals:
                g, t, ty = self.tr(n.args[0], env)
                if ty.startswith('list ') and t is not None:
                    return g, '(Z.of_nat (length %s))' % t, 'Z'
                refuse('len() of %s' % ty, n)
            if isinstance(n.func, ast.Name) and n.func.id == 'sum' and len(n.args) == 1 and not n.keywords \
                    and not isinstance(n.args[0], ast.GeneratorExp) and 'sum' not in self.locals:
                g, t, ty = self.tr(n.args[0], env)
                if ty == 'list Z' and t is not None:
                    return g, '(fold_left Z.add %s 0)' % t, 'Z'
                refuse('sum() of %s' % ty, n)
            if isinstance(n.func, ast.Name) and n.func.id == 'sum' and len(n.args) == 1 and not n.keywords \
                    and isinstance(n.args[0], ast.GeneratorExp) and 'sum' not in self.locals:
                ge = n.args[0]
                if len(ge.generators) != 1 or ge.generators[0].ifs or ge.generators[0].is_async \
                        or not isinstance(ge.generators[0].target, ast.Name):
                    refuse('generator expression shape', n)
                g, t, ty = self.tr(ge.generators[0].iter, env)
                if not ty.startswith('list ') or t is None:
                    refuse('sum over a non-list', n)
                x = self.mangle(ge.generators[0].target.id)
                env2 = env.bind(ge.generators[0].target.id, x, ty[5:])
                ge_g, ge_t, ge_ty = self.num(ge.elt, env2)
                self.pure(ge_g, ge.elt)
                return g, '(fold_left (fun acc__ %s => acc__ + %s) %s 0)' % (x, ge_t, t), 'Z'
            if isinstance(n.func, ast.Name) and n.func.id in ('any', 'all') and len(n.args) == 1 and not n.keywords \
                    and isinstance(n.args[0], ast.GeneratorExp) and n.func.id not in self.locals:
                ge = n.args[0]
                if len(ge.generators) != 1 or ge.generators[0].ifs or ge.generators[0].is_async \
                        or not isinstance(ge.generators[0].target, ast.Name):
                    refuse('generator expression shape', n)
                g, t, ty = self.tr(ge.generators[0].iter, env)
                if not ty.startswith('list ') or t is None:
                    refuse('any/all over a non-list', n)
                x = self.mangle(ge.generators[0].target.id)
                env2 = env.bind(ge.generators[0].target.id, x, ty[5:])
                ge_g, ge_t, ge_ty = self.tr(ge.elt, env2)
                self.pure(ge_g, ge.elt)        # an element that can raise needs a config pattern for the whole call
                if ge_ty != 'bool':
                    refuse('any/all over non-bool elements', n)
                return g, '(%s (fun %s => %s) %s)' % ('existsb' if n.func.id == 'any' else 'forallb', x, ge_t, t), 'bool'
            if isinstance(n.func, ast.Name) and n.func.id == 'max' and len(n.args) == 1 and not n.keywords \
                    and isinstance(n.args[0], ast.GeneratorExp) and 'max' not in self.locals:
                ge = n.args[0]
                if len(ge.generators) != 1 or ge.generators[0].ifs or ge.generators[0].is_async \
                        or not isinstance(ge.generators[0].target, ast.Name):
                    refuse('generator expression shape', n)
                g, t, ty = self.tr(ge.generators[0].iter, env)
                if not ty.startswith('list ') or t is None:
                    refuse('max over a non-list', n)
                x = self.mangle(ge.generators[0].target.id)
                env2 = env.bind(ge.generators[0].target.id, x, ty[5:])
                ge_g, ge_t, ge_ty = self.num(ge.elt, env2)
                self.pure(ge_g, ge.elt)
                self.err('ValueError', n)          # max() of an empty sequence
                b = self.fresh('m')
                return g + [('opt', b, 'py_max_map (fun %s => %s) %s' % (x, ge_t, t), 'ValueError')], b, 'Z'
            refuse('call %s' % ast.unparse(n.func), n)
        if isinstance(n, ast.Tuple) and n.elts and self.cfg.get('tuple_wrap'):
            # (e1, .., en) of mixed types -> a list of tagged values; config tuple_wrap = {'elem': {type: template}, 'ty': type}
            tw = self.cfg['tuple_wrap']
            parts, guards = [], []
            for i, e in enumerate(n.elts):
                g, t, ty = self.tr(e, env)
                if i > 0:
                    self.pure(g, e)
                if t is None or ty not in tw['elem']:
                    refuse('tuple element of type %s: %s' % (ty, ast.unparse(e)), e)
                guards += g
                parts.append(tw['elem'][ty].format(t))
            return guards, '[%s]' % '; '.join(parts), tw['ty']
        if isinstance(n, ast.List) and not n.elts:
            refuse('empty list literal without a declared type', n)
        if isinstance(n, ast.List):
            # [a, b, ..]: elements of one type, evaluated left to right
            guards, parts, tys = [], [], []
            for e in n.elts:
                if isinstance(e, ast.Starred):
                    refuse('starred list element', n)
                g, t, ty = self.tr(e, env)
                if t is None or ty in ('opaque', '*'):
                    refuse('list element of type %s: %s' % (ty, ast.unparse(e)), e)
                guards += g
                parts.append(t)
                tys.append(ty)
            if len(set(tys)) != 1:
                refuse('list literal with elements of different types: %s' % ast.unparse(n), n)
            return guards, '[%s]' % '; '.join(parts), 'list ' + tys[0]
        refuse('expression %s' % type(n).__name__, n)

    def wrap(self, guards, env, ctx, k):
        if not guards:
            return k(env)
        g = guards[0]
        if g[0] == 'fail':
            return ctx.exc(env, ('class', g[1])) if ctx.exc else ctx.ret(self.err(g[1]))
        if g[0] == 'resx':
            rt = self.cfg['res_types'][g[3]]
            if not ctx.exc:
                refuse('a call returning %s outside a try statement' % g[3])
            arms = ' '.join('| %s => %s' % (c, ctx.exc(env, (c, g[3]))) for c in rt['errs'])
            return '(match %s with %s %s => %s %s end)' % (g[2], rt['ok'], g[1], self.wrap(guards[1:], env, ctx, k), arms)
        if g[0] == 'res' and self.cfg.get('res_ctors'):
            # a result type with several constant error constructors (config res_ctors): each is propagated
            arms = ' '.join('| %s => %s' % (c, ctx.exc(env, None) if ctx.exc else ctx.ret(c)) for c in self.cfg['res_ctors'])
            return '(match %s with %s %s => %s %s end)' % (g[2], self.cfg.get('res_names', ('Ok', 'Err'))[0], g[1],
                                                          self.wrap(guards[1:], env, ctx, k), arms)
        if g[0] == 'res':
            okc, errc = self.cfg.get('res_names', ('Ok', 'Err'))
            return '(match %s with %s err__ => %s | %s %s => %s end)' % (
                g[2], errc, ctx.exc(env, ('err__', self.cfg.get('res_err_type', 'err'))) if ctx.exc else ctx.ret('(%s err__)' % errc), okc, g[1],
                self.wrap(guards[1:], env, ctx, k))
        _, b, opt, cls = g
        env2 = env.cached(opt, b) if 'v_' not in opt and opt.startswith('nth_error') else env
        return '(match %s with None => %s | Some %s => %s end)' % (
            opt, ctx.exc(env, ('class', cls)) if ctx.exc else ctx.ret(self.err(cls)), b, self.wrap(guards[1:], env2, ctx, k))

    # -- conditions with short-circuit operands that can raise
    def cond(self, test, env, ctx, kt, kf):
        if isinstance(test, ast.UnaryOp) and isinstance(test.op, ast.Not):
            return self.cond(test.operand, env, ctx, kf, kt)
        if isinstance(test, ast.Compare) and len(test.ops) == 1 and isinstance(test.ops[0], (ast.In, ast.NotIn)) \
                and isinstance(test.comparators[0], ast.Tuple) and len(test.comparators[0].elts) > 1:
            # x in (a, b, ..) with members that can raise: the short-circuit `or` of the equalities
            gx, _, _ = self.tr(test.left, env)
            self.pure(gx, test.left)
            eqs = [ast.Compare(left=test.left, ops=[ast.Eq()], comparators=[e]) for e in test.comparators[0].elts]
            d = ast.fix_missing_locations(ast.copy_location(ast.BoolOp(op=ast.Or(), values=eqs), test))
            if isinstance(test.ops[0], ast.NotIn):
                kt, kf = kf, kt
            return self.cond(d, env, ctx, kt, kf)
        if isinstance(test, ast.BoolOp):
            try:
                g, t, ty = self.tr(test, env)
            except Refuse:
                g = None
            if g is None:
                first, rest = test.values[0], test.values[1:]
                rest_t = rest[0] if len(rest) == 1 else ast.BoolOp(op=test.op, values=rest)
                if isinstance(test.op, ast.Or):
                    return self.cond(first, env, ctx, kt, lambda e: self.cond(rest_t, e, ctx, kt, kf))
                return self.cond(first, env, ctx, lambda e: self.cond(rest_t, e, ctx, kt, kf), kf)
        g, t, ty = self.tr(test, env)
        if ty in self.truthy and t is not None:
            t, ty = self.truthy[ty].format(t), 'bool'
        elif ty.startswith('list ') and t is not None:
            t, ty = '(match %s with [] => false | _ :: _ => true end)' % t, 'bool'
        if ty != 'bool':
            refuse('condition of type %s (truthiness is outside the subset): %s' % (ty, ast.unparse(test)), test)
        return self.wrap(g, env, ctx, lambda e: '(if %s then %s else %s)' % (t, kt(e), kf(e)))

    # -- statements
    def assigned(self, stmts):
        out = []
        def add(x):
            if x not in out:
                out.append(x)
        for s in stmts:
            for n in ast.walk(s):
                if isinstance(n, ast.Name) and isinstance(n.ctx, ast.Store):
                    add(n.id)
                elif isinstance(n, ast.Yield):
                    add('yield__')
                elif isinstance(n, ast.Call) and isinstance(n.func, ast.Name) and n.func.id == 'next' and n.args \
                        and isinstance(n.args[0], ast.Name):
                    add(n.args[0].id)              # next(it, ..) advances the iterator
                elif isinstance(n, ast.Attribute) and isinstance(n.ctx, ast.Store) and isinstance(n.value, ast.Name):
                    add(n.value.id)
                elif isinstance(n, ast.Expr):
                    for pat, tgt in self.stmt_patterns:
                        if pmatch(pat.ast, n.value, {}):
                            add(tgt)
                elif isinstance(n, ast.stmt):
                    for pat, tgt in self.stmt_patterns:
                        if pat.stmt_ast is not None and pmatch(pat.stmt_ast, n, {}):
                            add(tgt)
        return out

    def names_used(self, nodes):
        s = set()
        for x in nodes:
            for n in ast.walk(x):
                if isinstance(n, ast.Name):
                    s.add(n.id)
        return s

    def state_of(self, env, names):
        return [(env.vars[v]['coq'], env.vars[v]['ty']) for v in names]

    def tuple_term(self, coqs):
        if not coqs:
            return 'tt'
        return coqs[0] if len(coqs) == 1 else '(%s)' % ', '.join(coqs)

    def tuple_ty(self, tys):
        if not tys:
            return 'unit'
        return '(%s)' % coq_ty(tys[0]) if len(tys) == 1 else '(%s)' % ' * '.join(coq_ty(t) for t in tys)

    def with_maybe_locals(self, env, body_nodes):
        for v in self.assigned(body_nodes):
            if v not in env.vars and v in self.cfg.get('maybe_locals', {}):
                t = self.cfg['maybe_locals'][v]
                env = env.bind(v, '(@None (%s))' % coq_ty(t), 'unb ' + t)
        return env

    def loop_common(self, s, env, body_nodes):
        """state variables, closure variables and the environment at the head of the loop body"""
        asg = self.assigned(body_nodes)
        # order of first assignment inside the loop: stable under renaming and under reordering of the initialisations
        state = [v for v in asg if v in env.vars and env.vars[v]['st'] == 'bound' and env.vars[v]['ty'] not in ('opaque',)]
        for v in state:
            if env.vars[v]['coq'] is None:
                refuse('symbolic object %s re-assigned in a loop' % v, s)
        body_locals = [v for v in asg if v not in state]
        used = self.names_used(body_nodes)
        closure = [v for v in env.vars if v not in state and v in used and env.vars[v]['st'] == 'bound'
                   and env.vars[v]['coq'] is not None and env.vars[v]['ty'] != 'opaque'
                   and env.vars[v]['coq'] not in self.argnames and re.fullmatch(r'\w+', env.vars[v]['coq'])]
        benv = env.nocache()
        # inside the Fixpoint the state variables are its formal parameters v_<name>
        for v in state:
            benv = benv.bind(v, self.mangle(v), env.vars[v]['ty'])
        for v in body_locals:
            benv = benv.bind(v, self.mangle(v), '?', st='maybe')
        return state, body_locals, closure, benv

    def block(self, stmts, env, ctx, k):
        if not stmts:
            return k(env)
        # config: a run of statements replaced by one binding
        for texts, var, term, ty in self.seq_binds:
            if len(stmts) >= len(texts) and [ast.unparse(x) for x in stmts[:len(texts)]] == list(texts):
                return self.block(stmts[len(texts):], env.bind(var, term, ty), ctx, k)
        s, rest = stmts[0], stmts[1:]
        krest = lambda e: self.block(rest, e, ctx, k)
        for pat, tgt in self.stmt_patterns:
            if pat.stmt_ast is not None and not isinstance(s, ast.Expr):
                b = {}
                if pmatch(pat.stmt_ast, s, b):
                    if tgt not in env.vars or env.vars[tgt]['st'] != 'bound':
                        refuse('statement pattern target %s unbound' % tgt, s)
                    guards, subst = [], {}
                    for mv, sub in b.items():
                        g, t, ty = self.tr(sub, env)
                        if pat.types.get(mv) is not None and ty != pat.types[mv]:
                            refuse('statement pattern %s: %s has type %s' % (pat.src, mv, ty), s)
                        guards += g
                        subst[mv] = t
                    cur = env.vars[tgt]
                    term = pat.template.format(cur=cur['coq'], **subst)
                    name = self.mangle(tgt)
                    return self.wrap(guards, env, ctx, lambda e: '(let %s := %s in %s)' % (
                        name, term, krest(e.bind(tgt, name, cur['ty']))))
        if isinstance(s, ast.Expr) and isinstance(s.value, ast.Yield):
            if not self.yields or s.value.value is None:
                refuse('yield in a function the config does not declare as a generator', s)
            g, t, ty = self.tr(s.value.value, env)
            cur = env.vars['yield__']
            def emit(e, val):
                return '(let v_yield__ := (%s ++ [%s]) in %s)' % (e.vars['yield__']['coq'], val, krest(e.bind('yield__', 'v_yield__', cur['ty'])))
            if ty == self.yields:
                return self.wrap(g, env, ctx, lambda e: emit(e, t))
            if ty == 'opt ' + self.yields:
                # Python would yield None; the declared element type has no None: a distinct error value
                b = self.fresh('y')
                self.err('YieldNone', s)
                return self.wrap(g + [('opt', b, t, 'YieldNone')], env, ctx, lambda e: emit(e, b))
            refuse('yield of a %s (generator of %s)' % (ty, self.yields), s)
        if isinstance(s, ast.Assign) and len(s.targets) == 1 and isinstance(s.targets[0], ast.Attribute) \
                and isinstance(s.targets[0].value, ast.Name) and s.targets[0].value.id in env.vars:
            # obj.attr = v on a local record: the local is re-bound to the updated record
            x, attr = s.targets[0].value.id, s.targets[0].attr
            gx, tx, tyx = self.tr(s.targets[0].value, env)
            base = tyx[4:] if tyx.startswith('opt ') else tyx
            if (base, attr) not in self.attr_assign:
                refuse('attribute assignment %s.%s on a %s' % (x, attr, tyx), s)
            gv, tv, tyv = self.tr(s.value, env)
            guards = gx + gv
            if tyx.startswith('opt '):
                b = self.fresh('a')
                self.err('AttributeError', s)           # None.attr = v
                guards = gx + [('opt', b, tx, 'AttributeError')] + gv
                tx = b
            name = self.mangle(x)
            term = self.attr_assign[(base, attr)].format(cur=tx, val=tv)
            return self.wrap(guards, env, ctx, lambda e: '(let %s := %s in %s)' % (name, term, krest(e.bind(x, name, base))))
        if isinstance(s, ast.Expr):
            if isinstance(s.value, ast.Constant) and isinstance(s.value.value, str):
                return krest(env)                      # docstring
            for pat, tgt in self.stmt_patterns:
                b = {}
                if pmatch(pat.ast, s.value, b):
                    if tgt not in env.vars or env.vars[tgt]['st'] != 'bound':
                        refuse('statement pattern target %s unbound' % tgt, s)
                    guards, subst = [], {}
                    for mv, sub in b.items():
                        g, t, ty = self.tr(sub, env)
                        want = pat.types.get(mv)
                        if want is not None and ty != want:
                            c = self.coerce(t, ty, want) if t is not None else None
                            if c is None and t is not None and ty == 'opt ' + want and 'NoneValue' in self.errors:
                                b3 = self.fresh('u')
                                g = g + [('opt', b3, t, 'NoneValue')]
                                c = b3
                            if c is None:
                                refuse('statement pattern %s: %s has type %s' % (pat.src, mv, ty), s)
                            t = c
                        guards += g
                        subst[mv] = t
                    cur = env.vars[tgt]
                    curv, curty = cur['coq'], cur['ty']
                    if pat.ty is not None and pat.ty != curty:
                        curv = self.coerce(curv, curty, pat.ty)
                        if curv is None:
                            refuse('statement pattern %s: %s has type %s' % (pat.src, tgt, curty), s)
                        curty = pat.ty
                    term = pat.template.format(cur=curv, **subst)
                    name = self.mangle(tgt)
                    return self.wrap(guards, env, ctx, lambda e: '(let %s := %s in %s)' % (
                        name, term, krest(e.bind(tgt, name, curty))))
            refuse('expression statement %s' % ast.unparse(s)[:60], s)
        if isinstance(s, ast.Pass):
            return krest(env)
        if isinstance(s, ast.FunctionDef):
            if s.name in self.skip_defs:
                if ast.unparse(s) != self.skip_defs[s.name]:
                    refuse('nested def %s is mapped by the config to a model function but its text changed' % s.name, s)
                return krest(env)
            refuse('nested def %s' % s.name, s)
        if isinstance(s, (ast.Assign, ast.AugAssign, ast.AnnAssign)):
            if isinstance(s, ast.Assign):
                if len(s.targets) != 1:
                    refuse('multiple assignment targets', s)
                target, value = s.targets[0], s.value
            elif isinstance(s, ast.AnnAssign):
                if s.value is None:
                    return krest(env)
                target, value = s.target, s.value
            else:
                target = s.target
                value = ast.BinOp(left=ast.Name(id=s.target.id, ctx=ast.Load()) if isinstance(s.target, ast.Name) else s.target,
                                  op=s.op, right=s.value)
                ast.copy_location(value, s)
                ast.fix_missing_locations(value)
            if isinstance(s, ast.Assign) and isinstance(target, ast.Tuple) and isinstance(value, ast.Tuple) \
                    and len(target.elts) == len(value.elts) and all(isinstance(e, ast.Name) for e in target.elts):
                # a, b = x, y : the right-hand sides are evaluated first (simultaneous assignment)
                vals, guards = [], []
                for v in value.elts:
                    g, t, ty = self.tr(v, env)
                    if t is None:
                        refuse('tuple assignment of a symbolic value', s)
                    guards += g
                    vals.append((t, ty))
                tmps = [self.fresh('t') for _ in vals]
                def kk2(e):
                    e2 = e
                    txt_open, txt_close = '', ''
                    for tmp, (t, ty) in zip(tmps, vals):
                        txt_open += '(let %s := %s in ' % (tmp, t); txt_close += ')'
                    for tgt, tmp, (t, ty) in zip(target.elts, tmps, vals):
                        txt_open += '(let %s := %s in ' % (self.mangle(tgt.id), tmp); txt_close += ')'
                        e2 = e2.bind(tgt.id, self.mangle(tgt.id), ty)
                    return txt_open + krest(e2) + txt_close
                return self.wrap(guards, env, ctx, kk2)
            if isinstance(s, ast.Assign) and isinstance(target, ast.Tuple) and all(isinstance(e, ast.Name) for e in target.elts) \
                    and self.cfg.get('tuple_first'):
                # a, b, c = mapped_call(..): the model's value is the first component, the others are opaque
                g, t, ty = self.tr(value, env)
                if t is None:
                    refuse('tuple assignment from an unmapped value', s)
                name = self.mangle(target.elts[0].id)
                def kk(e):
                    e2 = e.bind(target.elts[0].id, name, ty)
                    for o in target.elts[1:]:
                        e2 = e2.bind(o.id, None, 'opaque')
                    return '(let %s := %s in %s)' % (name, t, krest(e2))
                return self.wrap(g, env, ctx, kk)
            if not isinstance(target, ast.Name):
                refuse('assignment to a non-local target %s' % ast.unparse(target), s)
            if isinstance(s, ast.Assign) and isinstance(target, ast.Name) and isinstance(value, ast.Call) \
                    and isinstance(value.func, ast.Name) and not value.keywords:
                # it = iter(L): an iterator over a list is the list of the elements not yet consumed
                if value.func.id == 'iter' and len(value.args) == 1 and 'iter' not in self.locals:
                    g, t, ty = self.tr(value.args[0], env)
                    if not ty.startswith('list ') or t is None:
                        refuse('iter() of a non-list', s)
                    name = self.mangle(target.id)
                    return self.wrap(g, env, ctx, lambda e: '(let %s := %s in %s)' % (name, t, krest(e.bind(target.id, name, 'iter ' + ty[5:]))))
                # x = next(it, None): x is the head or None, the iterator advances
                if value.func.id == 'next' and len(value.args) == 2 and isinstance(value.args[0], ast.Name) \
                        and isinstance(value.args[1], ast.Constant) and value.args[1].value is None and 'next' not in self.locals \
                        and value.args[0].id in env.vars and env.vars[value.args[0].id]['ty'].startswith('iter ') \
                        and env.vars[value.args[0].id]['st'] == 'bound':
                    itn = value.args[0].id
                    itv = env.vars[itn]
                    ety = itv['ty'][5:]
                    name, iname = self.mangle(target.id), self.mangle(itn)
                    return '(let %s := hd_error %s in (let %s := tl %s in %s))' % (
                        name, itv['coq'], iname, itv['coq'],
                        krest(env.bind(target.id, name, 'opt ' + ety).bind(itn, iname, itv['ty'])))
            if isinstance(s, ast.Assign) and isinstance(value, ast.BoolOp):
                try:
                    self.tr(value, env)
                    impure = False
                except Refuse:
                    impure = True
                if impure:
                    # x = a and b (booleans; b can raise)  ==  if a: x = b  else: x = False      (dually for or)
                    mk = lambda v: ast.copy_location(ast.Assign(targets=[ast.Name(id=target.id, ctx=ast.Store())], value=v, lineno=s.lineno), s)
                    first, others = value.values[0], value.values[1:]
                    rest_v = others[0] if len(others) == 1 else ast.BoolOp(op=value.op, values=others)
                    g0, t0, ty0 = self.tr(first, env)
                    if ty0 != 'bool':
                        refuse('and/or on non-bool operands', s)
                    if isinstance(value.op, ast.And):
                        st = ast.If(test=first, body=[mk(rest_v)], orelse=[mk(ast.Constant(value=False))])
                    else:
                        st = ast.If(test=first, body=[mk(ast.Constant(value=True))], orelse=[mk(rest_v)])
                    ast.copy_location(st, s)
                    ast.fix_missing_locations(st)
                    return self.block([st] + list(rest), env, ctx, k)
            if isinstance(s, ast.Assign) and isinstance(value, ast.IfExp):
                # x = a if c else b   ==   if c: x = a  else: x = b
                mk = lambda v: ast.copy_location(ast.Assign(targets=[ast.Name(id=target.id, ctx=ast.Store())], value=v, lineno=s.lineno), s)
                st = ast.copy_location(ast.If(test=value.test, body=[mk(value.body)], orelse=[mk(value.orelse)]), s)
                ast.fix_missing_locations(st)
                return self.block([st] + list(rest), env, ctx, k)
            x = target.id
            if x == 'self':
                refuse('assignment to self', s)
            if isinstance(s, (ast.Assign, ast.AnnAssign)):
                u = ast.unparse(value)
                if u in self.binds:
                    return krest(env.bind(x, None, self.binds[u]))
                if isinstance(value, ast.JoinedStr) or (isinstance(value, ast.Constant) and isinstance(value.value, str)):
                    if not any(pmatch(pt.ast, value, {}) for pt in self.patterns):
                        return krest(env.bind(x, None, 'opaque'))
                if isinstance(value, ast.Constant) and value.value is None:
                    if not self.var_types.get(x, '').startswith('opt '):
                        refuse('%s = None without a declared optional type' % x, s)
                    name = self.mangle(x)
                    return '(let %s : %s := None in %s)' % (name, coq_ty(self.var_types[x]), krest(env.bind(x, name, self.var_types[x])))
                if isinstance(value, ast.List) and not value.elts:
                    if x not in self.var_types:
                        refuse('empty list literal without a declared type for %s' % x, s)
                    name = self.mangle(x)
                    return '(let %s : %s := [] in %s)' % (name, coq_ty(self.var_types[x]), krest(env.bind(x, name, self.var_types[x])))
            g, t, ty = self.tr(value, env)
            if t is None or ty in ('self',):
                refuse('assignment of a symbolic object not declared in the config: %s' % ast.unparse(s), s)
            name = self.mangle(x)
            return self.wrap(g, env, ctx, lambda e: '(let %s := %s in %s)' % (name, t, krest(e.bind(x, name, ty))))
        if isinstance(s, ast.If):
            return self.cond(s.test, env, ctx,
                             lambda e: self.block(s.body, e, ctx, krest),
                             lambda e: self.block(s.orelse, e, ctx, krest))
        if isinstance(s, ast.Return):
            if s.value is None:
                if self.yields:
                    return ctx.ret(self.ok.format(env.vars['yield__']['coq']))
                refuse('bare return', s)
            names = lambda e: {v: d['coq'] for v, d in e.vars.items() if d['coq'] and v.isidentifier()}
            if isinstance(s.value, ast.Constant) and s.value.value is None:
                if 'ok_none' not in self.cfg:
                    refuse('return None', s)
                return ctx.ret(self.cfg['ok_none'].format(**names(env)))
            if isinstance(s.value, ast.BoolOp) and self.ret_ty == 'bool':
                try:
                    self.tr(s.value, env)
                except Refuse:
                    # an operand that can raise behind a short-circuit: return (if X then True else False)
                    return self.cond(s.value, env, ctx, lambda e: ctx.ret(self.ok.format('true', **names(e))),
                                     lambda e: ctx.ret(self.ok.format('false', **names(e))))
            g, t, ty = self.tr(s.value, env)
            if ty != self.ret_ty or t is None:
                refuse('return value of type %s (expected %s)' % (ty, self.ret_ty), s)
            return self.wrap(g, env, ctx, lambda e: ctx.ret(self.ok.format(t, **names(e))))
        if isinstance(s, ast.With):
            # `with <declared context manager> as h: BODY` = BODY (the config lists the managers without effect on the model)
            if not all(ast.unparse(it.context_expr) in self.cfg.get('allow_with', []) for it in s.items):
                refuse('with statement over an undeclared context manager', s)
            return self.block(list(s.body) + list(rest), env, ctx, k)
        if isinstance(s, ast.Try):
            # try: BODY  except [T [as e]]: HANDLER ...   (typed handlers first, at most one bare handler last)
            hs = s.handlers
            def h_ok(hd, last):
                if hd.type is None:
                    return last and hd.name is None
                return ast.unparse(hd.type) in self.cfg.get('caught_types', [])
            if not self.cfg.get('allow_try') or s.orelse or s.finalbody or not hs \
                    or not all(h_ok(hd, i == len(hs) - 1) for i, hd in enumerate(hs)):
                refuse('try statement outside the subset (handlers `except T [as e]:` with T declared, then at most one '
                       'bare `except:`; no else / finally)', s)
            if ctx.exc is not None:
                refuse('nested try', s)
            def on_exc(e, val):
                # val: None (class unknown) | ('class', name) | (term, type) = the exception VALUE of a mapped call
                def run(hd):
                    hctx = Ctx(ret=ctx.ret, brk=ctx.brk, cont=ctx.cont)
                    hctx.in_handler = True
                    hctx.exc_term = val[0] if val is not None and val[0] != 'class' else None
                    e2 = e
                    if hd.name is not None and val is not None and val[0] != 'class':
                        e2 = e.bind(hd.name, val[0], val[1])
                    return self.block(hd.body, e2, hctx, krest)
                def chain(i):
                    if i >= len(hs):
                        # no handler applies: the exception escapes
                        if val is not None and val[0] != 'class' and 'reraise' in self.cfg:
                            return ctx.ret(self.cfg['reraise'].format(e=val[0]))
                        refuse('an exception of the try body may escape all handlers', s)
                    hd = hs[i]
                    if hd.type is None:
                        return run(hd)
                    cls = ast.unparse(hd.type)
                    if val is None:
                        if len(hs) == 1:
                            return run(hd)           # single declared handler: the config declares the body raises only T
                        refuse('cannot decide which handler applies (exception class not modelled)', s)
                    if val[0] == 'class':
                        return run(hd) if val[1] == cls else chain(i + 1)
                    tests = self.cfg.get('handler_tests', {})
                    if cls not in tests:
                        return run(hd) if len(hs) == 1 else refuse('handler class %s has no test on the exception value' % cls, s)
                    return '(if %s then %s else %s)' % (tests[cls].format(e=val[0]), run(hd), chain(i + 1))
                return chain(0)
            bctx = Ctx(ret=ctx.ret, brk=ctx.brk, cont=ctx.cont, exc=on_exc)
            return self.block(s.body, env, bctx, lambda e: self.block(rest, e, ctx, k))
        if isinstance(s, ast.Raise) and s.exc is None:
            if not getattr(ctx, 'in_handler', False) or 'reraise' not in self.cfg:
                refuse('bare raise outside an except handler', s)
            return ctx.ret(self.cfg['reraise'].format(e=getattr(ctx, 'exc_term', None) or ''))
        if isinstance(s, ast.Raise):
            if ctx.exc is not None:
                return ctx.exc(env, None)
            return ctx.ret(self.raise_term(s))
        if isinstance(s, ast.Break):
            if ctx.brk is None:
                refuse('break outside a loop', s)
            return ctx.brk(env)
        if isinstance(s, ast.Continue):
            if ctx.cont is None:
                refuse('continue outside a loop', s)
            return ctx.cont(env)
        if isinstance(s, ast.For):
            return self.for_loop(s, env, ctx, krest)
        if isinstance(s, ast.While):
            return self.while_loop(s, env, ctx, krest)
        refuse('statement %s' % type(s).__name__, s)

    def raise_term(self, s):
        e = s.exc
        if not isinstance(e, ast.Call) or not isinstance(e.func, (ast.Name, ast.Attribute)) or e.keywords \
                or (s.cause is not None and not isinstance(s.cause, ast.Name)):
            refuse('raise of something other than Cls(...) [from name]', s)
        cls = ast.unparse(e.func)
        key, text = None, ''
        if len(e.args) == 1 and isinstance(e.args[0], ast.Name):
            key = e.args[0].id
        else:
            for a in e.args:
                for n in ast.walk(a):
                    if isinstance(n, ast.Constant) and isinstance(n.value, str):
                        text += n.value
        for (c, kind, what, term) in self.raises:
            if c != cls:
                continue
            if kind == 'name' and key == what:
                return term
            if kind == 're' and key is None and re.search(what, text):
                return term
            if kind == 'any':
                return term
        refuse('raise %s not mapped by the config' % cls, s)

    def after_loop_env(self, env, state, body_locals, extra_maybe=()):
        e = env
        for v in state:
            e = e.bind(v, self.mangle(v), env.vars[v]['ty'])
        for v in list(body_locals) + list(extra_maybe):
            e = e.bind(v, self.mangle(v), '?', st='maybe')
        return e

    def formal_args(self):
        return ' '.join('(%s : %s)' % (a, coq_ty(t)) for a, t in self.args)

    def actual_args(self):
        return ' '.join(a for a, _ in self.args)

    def for_loop(self, s, env, ctx, krest):
        if ctx.exc is not None:
            refuse('loop inside a try body', s)
        if s.orelse:
            refuse('for ... else', s)
        it = s.iter
        ix = None                                  # `for i, x in enumerate(L)`: i is an implicit counter from 0
        if isinstance(s.target, ast.Tuple) and len(s.target.elts) == 2 and all(isinstance(e, ast.Name) for e in s.target.elts) \
                and isinstance(it, ast.Call) and isinstance(it.func, ast.Name) and it.func.id == 'enumerate' \
                and len(it.args) == 1 and not it.keywords and 'enumerate' not in self.locals:
            ix, target, it = s.target.elts[0].id, s.target.elts[1], it.args[0]
        else:
            target = s.target
        pair = None
        if isinstance(target, ast.Tuple) and len(target.elts) == 2 and all(isinstance(e, ast.Name) for e in target.elts):
            # for a, b in L  over a list of pairs (config pair_types: element type -> (type of a, type of b))
            pair = (target.elts[0].id, target.elts[1].id)
            target = ast.Name(id='pair__' + pair[0], ctx=ast.Store())
        if not isinstance(target, ast.Name):
            refuse('tuple loop target', s)
        x = target.id
        rev = False
        if isinstance(it, ast.Call) and isinstance(it.func, ast.Name) and it.func.id == 'reversed' and len(it.args) == 1 \
                and not it.keywords and 'reversed' not in self.locals:
            rev, it = True, it.args[0]
        g, lt, lty = self.tr(it, env)
        if not lty.startswith('list ') or lt is None:
            refuse('for over a non-list: %s' % ast.unparse(s.iter), s)
        ety = lty[5:]
        if ix is not None and (ix in self.assigned(s.body) or ix == x):
            refuse('loop counter assigned in the body', s)
        # the loop variable itself may be re-bound in the body (it is bound afresh by every iteration)
        env = self.with_maybe_locals(env, s.body)
        state, body_locals, closure, benv = self.loop_common(s, env, s.body)
        if x in body_locals:
            body_locals.remove(x)
        for v in (x, ix):
            if v in state:
                state.remove(v)
            if v in closure:
                closure.remove(v)
        self.ninst += 1
        lname = '@L%d@' % self.ninst
        xc = self.mangle(x)
        benv = benv.bind(x, xc, ety)
        if pair is not None:
            if ety not in self.cfg.get('pair_types', {}):
                refuse('for a, b in L over elements of type %s (not a declared pair type)' % ety, s)
            ta, tb = self.cfg['pair_types'][ety]
            if pair[0] in self.assigned(s.body) or pair[1] in self.assigned(s.body):
                refuse('loop variable assigned in the body', s)
            benv = benv.bind(pair[0], '(fst %s)' % xc, ta).bind(pair[1], '(snd %s)' % xc, tb)
        ixc = self.mangle(ix) if ix is not None else None
        if ix is not None:
            benv = benv.bind(ix, ixc, 'Z')
        st_formal = self.state_of(benv, state)
        cl_formal = [(self.mangle(v) if env.vars[v]['coq'] == self.mangle(v) else env.vars[v]['coq'], env.vars[v]['ty']) for v in closure]
        S = self.tuple_ty([t for _, t in st_formal])
        call_prefix = ' '.join([lname, self.actual_args()] + [c for c, _ in cl_formal])
        st_ty = {v: benv.vars[v]['ty'] for v in state}
        def st_val(e, v):
            c = self.coerce(e.vars[v]['coq'], e.vars[v]['ty'], st_ty[v])
            if c is None:
                refuse('loop state variable %s changes type (%s -> %s)' % (v, st_ty[v], e.vars[v]['ty']), s)
            return c
        def st_tuple(e):
            return self.tuple_term([st_val(e, v) for v in state])
        def st_args(e):
            return ' '.join(st_val(e, v) for v in state)
        lctx = Ctx(ret=lambda r: '(Done %s)' % r,
                   brk=lambda e: '(Continue %s)' % st_tuple(e),
                   cont=lambda e: ('(%s t__ %s%s)' % (call_prefix, '(%s + 1) ' % ixc if ix is not None else '', st_args(e))).replace(' )', ')'))
        body = self.block(s.body, benv, lctx, lctx.cont)
        fix = 'Fixpoint %s %s%s (l__ : list %s)%s%s {struct l__} : lres %s (%s) :=\n  match l__ with\n  | [] => Continue %s\n  | %s :: t__ =>\n      %s\n  end.' % (
            lname, self.formal_args(),
            ''.join(' (%s : %s)' % (c, coq_ty(t)) for c, t in cl_formal),
            coq_ty(ety), ' (%s : Z)' % ixc if ix is not None else '',
            ''.join(' (%s : %s)' % (c, coq_ty(t)) for c, t in st_formal),
            S, self.res_ty, st_tuple(benv), xc, pretty(body, 6))
        real = self.emit_loop(lname, fix)
        call_prefix = call_prefix.replace(lname, real)
        maybe = [x] + ([ix] if ix is not None else []) + (list(pair) if pair is not None else [])
        pat = self.tuple_term([self.mangle(v) for v in state]) if state else '_'
        lterm = '(rev %s)' % lt if rev else lt
        return self.wrap(g, env, ctx, lambda e: '(match %s %s %s%s with Done r__ => %s | Continue %s => %s end)' % (
            call_prefix, lterm, '0 ' if ix is not None else '', st_args(e), ctx.ret('r__'), pat,
            krest(self.after_loop_env(e, state, body_locals, maybe))))

    def while_loop(self, s, env, ctx, krest):
        if ctx.exc is not None:
            refuse('loop inside a try body', s)
        if s.orelse:
            refuse('while ... else', s)
        if not self.fuel:
            refuse('while loop without a fuel bound in the config', s)
        fuel = self.fuel.pop(0)
        self.err('OutOfFuel', s)
        state, body_locals, closure, benv = self.loop_common(s, env, [s.test] + s.body)
        # variables only read by the test are closure variables too (loop_common looked at test + body)
        self.ninst += 1
        lname = '@L%d@' % self.ninst
        st_formal = self.state_of(benv, state)
        cl_formal = [(env.vars[v]['coq'], env.vars[v]['ty']) for v in closure]
        S = self.tuple_ty([t for _, t in st_formal])
        call_prefix = ' '.join([lname, self.actual_args()] + [c for c, _ in cl_formal])
        st_ty = {v: benv.vars[v]['ty'] for v in state}
        def st_val(e, v):
            c = self.coerce(e.vars[v]['coq'], e.vars[v]['ty'], st_ty[v])
            if c is None:
                refuse('loop state variable %s changes type (%s -> %s)' % (v, st_ty[v], e.vars[v]['ty']), s)
            return c
        def st_tuple(e):
            return self.tuple_term([st_val(e, v) for v in state])
        def st_args(e):
            return ' '.join(st_val(e, v) for v in state)
        lctx = Ctx(ret=lambda r: '(Done %s)' % r,
                   brk=lambda e: '(Continue %s)' % st_tuple(e),
                   cont=lambda e: ('(%s fuel__ %s)' % (call_prefix, st_args(e))).replace(' )', ')'))
        body = self.cond(s.test, benv, lctx,
                         lambda e: self.block(s.body, e, lctx, lctx.cont),
                         lambda e: '(Continue %s)' % st_tuple(e))
        fix = 'Fixpoint %s %s%s (fuel__ : nat)%s {struct fuel__} : lres %s (%s) :=\n  match fuel__ with\n  | O => Done (%s)\n  | S fuel__ =>\n      %s\n  end.' % (
            lname, self.formal_args(),
            ''.join(' (%s : %s)' % (c, coq_ty(t)) for c, t in cl_formal),
            ''.join(' (%s : %s)' % (c, coq_ty(t)) for c, t in st_formal),
            S, self.res_ty, self.errors['OutOfFuel'], pretty(body, 6))
        real = self.emit_loop(lname, fix)
        call_prefix = call_prefix.replace(lname, real)
        pat = self.tuple_term([self.mangle(v) for v in state]) if state else '_'
        fuel_term = fuel.format(**{v: env.vars[v]['coq'] for v in env.vars if env.vars[v]['coq']})
        return '(match %s (%s) %s with Done r__ => %s | Continue %s => %s end)' % (
            call_prefix, fuel_term, st_args(env), ctx.ret('r__'), pat,
            krest(self.after_loop_env(env, state, body_locals)))

    # -- slicing / preprocessing driven by the config (every rule is exact-text or regex on ast.unparse)
    def slice_body(self, fn):
        """config 'slice': (text of the first statement, header text of the last compound statement): translate only
        that run of top-level statements of the (possibly nested) block that contains it, between synthetic
        'slice_pre' / 'slice_post' python statements"""
        sl = self.cfg.get('slice')
        if not sl:
            return fn.body
        first, last = sl
        found = []
        for n in ast.walk(fn):
            for f in ('body', 'orelse', 'finalbody'):
                blk = getattr(n, f, None)
                if not isinstance(blk, list):
                    continue
                for a, st in enumerate(blk):
                    if isinstance(st, ast.stmt) and (ast.unparse(st) == first or
                                                     (first.endswith(':') and ast.unparse(st).split('\n')[0] == first)):
                        for b in range(a, len(blk)):
                            if ast.unparse(blk[b]).split('\n')[0] == last:
                                found.append(blk[a:b + 1])
                                break
        if len(found) != 1:
            refuse('slice %r .. %r found %d times' % (first, last, len(found)), fn)
        pre = ast.parse('\n'.join(self.cfg.get('slice_pre', []))).body
        post = ast.parse('def f__():\n' + '\n'.join('    ' + l for l in self.cfg.get('slice_post', ['pass']))).body[0].body
        return pre + found[0] + post

    def apply_rewrites(self, stmts):
        """exact-text statement rewrites of the config (before the ignore pass, so that the names a replaced
        statement mentioned no longer count as used by translated code)"""
        import hashlib
        out = []
        for st in stmts:
            text = ast.unparse(st)
            rep = None
            for key, src in self.rewrites:
                if key == text or (key.startswith('sha256:') and key[7:] == hashlib.sha256(text.encode()).hexdigest()):
                    rep = ast.parse(src).body
                    for r in rep:
                        for n in ast.walk(r):
                            if hasattr(n, 'lineno'):
                                n.lineno = n.end_lineno = st.lineno
            if rep is not None:
                out += rep
                continue
            if not isinstance(st, ast.FunctionDef):
                for f in ('body', 'orelse', 'finalbody'):
                    blk = getattr(st, f, None)
                    if isinstance(blk, list) and blk and isinstance(blk[0], ast.stmt):
                        setattr(st, f, self.apply_rewrites(blk))
                for hd in getattr(st, 'handlers', []):
                    hd.body = self.apply_rewrites(hd.body)
            out.append(st)
        return out

    def preprocess(self, stmts, loop=None, top=None):
        """drop the statements the config declares irrelevant (ignore_stmts), apply the exact-text rewrites.
        An ignored statement may not store a name that translated code uses -- except the target of the
        enclosing for loop when nothing after the statement in that loop body reads it."""
        import hashlib, collections
        if top is None:
            top = stmts
            self._ignored = []
            def collect(ss):
                for x in ss:
                    if any(r.search(ast.unparse(x)) for r in self.ignore) and not isinstance(x, (ast.Return, ast.Raise, ast.Break, ast.Continue)):
                        self._ignored.append(x)
                        continue
                    for f in ('body', 'orelse'):
                        blk = getattr(x, f, None)
                        if isinstance(blk, list) and blk and isinstance(blk[0], ast.stmt) and not isinstance(x, ast.FunctionDef):
                            collect(blk)
                    for hd in getattr(x, 'handlers', []):
                        collect(hd.body)
            collect(stmts)
        def names(nodes, kind=None):
            c = collections.Counter()
            for x in nodes:
                for n in ast.walk(x):
                    if isinstance(n, ast.Name) and (kind is None or isinstance(n.ctx, kind)):
                        c[n.id] += 1
            return c
        out = []
        for st in stmts:
            text = ast.unparse(st)
            if any(r.search(text) for r in self.ignore) and not isinstance(st, (ast.Return, ast.Raise, ast.Break, ast.Continue)):
                others = names(top) - names(self._ignored)      # what the TRANSLATED statements mention
                def outer_stores(node, acc):
                    # names bound by a comprehension are local to it
                    for ch in ast.iter_child_nodes(node):
                        if isinstance(ch, (ast.ListComp, ast.SetComp, ast.DictComp, ast.GeneratorExp)):
                            continue
                        if isinstance(ch, ast.Name) and isinstance(ch.ctx, ast.Store):
                            acc.add(ch.id)
                        outer_stores(ch, acc)
                    return acc
                for v in sorted(outer_stores(st, set())):
                    if others[v] == 0:
                        continue
                    later = [x for x in (loop.body if loop is not None else []) if x.lineno > st.lineno]
                    if loop is not None and isinstance(loop.target, ast.Name) and loop.target.id == v \
                            and not any(v in names([x], ast.Load) for x in later) \
                            and not any(v in names([x], ast.Load) for x in stmts if x.lineno > st.lineno):
                        continue
                    if v in self.cfg.get('ignore_may_store', []):
                        continue
                    refuse('ignored statement assigns %s, which translated code uses' % v, st)
                continue
            for f in ('body', 'orelse'):
                blk = getattr(st, f, None)
                if isinstance(blk, list) and blk and isinstance(blk[0], ast.stmt) and not isinstance(st, ast.FunctionDef):
                    new = self.preprocess(blk, st if isinstance(st, ast.For) else loop, top)
                    setattr(st, f, new if (new or f == 'orelse') else [ast.Pass()])
            for hd in getattr(st, 'handlers', []):
                hd.body = self.preprocess(hd.body, loop, top) or [ast.Pass()]
            out.append(st)
        return out

    # -- whole function
    def translate(self):
        fn = self.fn
        if [ast.unparse(d) for d in fn.decorator_list] not in ([], self.cfg.get('decorators', [])):
            refuse('decorated function', fn)
        a = fn.args
        if a.vararg or a.posonlyargs or (a.kwarg and not self.cfg.get('allow_kwargs')):
            refuse('*args / **kwargs', fn)
        body_stmts = self.preprocess(self.apply_rewrites(self.slice_body(fn)))
        scan = ast.Module(body=body_stmts, type_ignores=[])
        for n in ast.walk(scan):
            if isinstance(n, ast.Yield) and self.yields:
                continue
            if isinstance(n, ast.Try) and self.cfg.get('allow_try'):
                continue
            if isinstance(n, ast.With) and self.cfg.get('allow_with'):
                continue
            if isinstance(n, (ast.Global, ast.Nonlocal, ast.Try, ast.With, ast.Yield, ast.YieldFrom, ast.Lambda,
                              ast.Await, ast.AsyncFor, ast.AsyncWith, ast.ClassDef, ast.Import, ast.ImportFrom,
                              ast.Delete, ast.Assert, ast.NamedExpr, ast.Starred, ast.Match)):
                # anything inside a skipped nested def is not looked at
                if not any(n in list(ast.walk(d)) for d in body_stmts if isinstance(d, ast.FunctionDef) and d.name in self.skip_defs):
                    refuse('construct %s' % type(n).__name__, n)
        pmap = self.cfg.get('params', {})
        env = Env()
        for name, (coq, ty) in self.cfg.get('pre_env', {}).items():
            env = env.bind(name, coq, ty)
        pyparams = [x.arg for x in a.args + a.kwonlyargs]
        if set(pyparams) - {'self'} != set(pmap):
            refuse('parameter list %s differs from the config %s' % (pyparams, sorted(pmap)), fn)
        for p in pyparams:
            if p == 'self':
                continue
            coq, ty = pmap[p]
            env = env.bind(p, coq, ty)
        fctx = Ctx(ret=lambda r: r)
        if self.yields:
            env = env.bind('yield__', '[]', 'list ' + self.yields)
        def fall(e):
            if self.yields:
                return self.ok.format(e.vars['yield__']['coq'])
            refuse('control can fall off the end of the function (implicit return None)', fn)
        body = self.block(body_stmts, env, fctx, fall)
        if self.fuel:
            refuse('config lists more while loops than the function has', fn)
        text = '\n\n'.join(self.loops + ['Definition %s %s : %s :=\n  %s.' % (self.name, self.formal_args(), self.res_ty, pretty(body))])
        return text


def pretty(text, base=2):
    """line-break the generated term (purely cosmetic: only whitespace is inserted)"""
    out, depth, i, n = [], 0, 0, len(text)
    while i < n:
        c = text[i]
        if c == '(':
            if any(text.startswith(k, i) for k in ('(if ', '(let ', '(match ')) and out:
                out.append('\n' + ' ' * (base + 2 * depth))
            depth += 1
            out.append(c)
        elif c == ')':
            depth -= 1
            out.append(c)
        elif text.startswith(' else ', i) or text.startswith(' | Some ', i) or text.startswith(' | Continue ', i):
            out.append('\n' + ' ' * (base + 2 * depth - 2))
            out.append(text[i + 1])
            i += 1
        else:
            out.append(c)
        i += 1
    return ''.join(out)


def find_function(tree, cls, func):
    found = []
    for n in tree.body:
        if cls is None and isinstance(n, ast.FunctionDef) and n.name == func:
            found.append(n)
        if cls is not None and isinstance(n, ast.ClassDef) and n.name == cls:
            for f in n.body:
                if isinstance(f, ast.FunctionDef) and f.name == func:
                    found.append(f)
    return found


def stub(cfg, why):
    COQ_TY.clear()
    COQ_TY.update(BASE_COQ_TY)
    for t, c in cfg.get('types', {}).items():
        COQ_TY[t] = c
    args = ' '.join('(%s : %s)' % (a, coq_ty(t)) for a, t in cfg['args'])
    why = why.replace('*)', '* )').replace('(*', '( *')
    return ('(* REFUSED: %s *)\nDefinition %s_untranslated : bool := true.\n'
            'Definition %s %s : %s :=\n  %s.' % (why, cfg['coq_name'], cfg['coq_name'], args, cfg['res_ty'], cfg['stub']))


def translate_target(repo, cfg):
    """-> (text, ok, reason)"""
    try:
        src = open(os.path.join(repo, cfg['file'])).read()
        tree = ast.parse(src)
        fs = find_function(tree, cfg.get('cls'), cfg['func'])
        if len(fs) != 1:
            raise Refuse('function %s.%s found %d times' % (cfg.get('cls'), cfg['func'], len(fs)))
        for cname, ctext in cfg.get('module_consts', {}).items():
            # a module-level constant the patterns give a meaning to: its text is pinned (fail closed)
            got = [ast.unparse(st.value) for st in tree.body if isinstance(st, ast.Assign) and len(st.targets) == 1
                   and isinstance(st.targets[0], ast.Name) and st.targets[0].id == cname]
            if got != [ctext]:
                raise Refuse('module constant %s is %s, the config pins %s' % (cname, got, ctext))
        body = FnTranslator(cfg, fs[0]).translate()
        head = '(* %s %s of %s, lines %d-%d *)\nDefinition %s_untranslated : bool := false.\n' % (
            cfg.get('cls') or 'function', cfg['func'], cfg['file'], fs[0].lineno, fs[0].end_lineno, cfg['coq_name'])
        return head + body, True, ''
    except Refuse as e:
        return stub(cfg, str(e)), False, str(e)
    except Exception as e:     # a translator bug is a refusal too
        return stub(cfg, 'translator error %r' % (e,)), False, repr(e)


def header(mod, imports):
    return ('(* GENERATED by harness/translate/py2coq.py from the source text of /repo -- do not edit.\n'
            '   One Definition (plus one Fixpoint per loop) per target function; see docs/py2coq.md. *)\n'
            'From Coq Require Import ZArith List Bool.\n'
            'From MoPep Require Import Model.Base Model.PyRt %s.\n'
            'Import ListNotations.\nOpen Scope Z_scope.\n\n' % ' '.join(imports))


def coq_ok(coqdir, text):
    """does coqc accept the text?  None when it cannot be decided (models not built yet)"""
    need = [os.path.join(coqdir, 'Model', 'PyRt.vo'), os.path.join(coqdir, 'Model', 'Anno.vo'),
            os.path.join(coqdir, 'Model', 'Digest.vo')]
    # the Model files the text itself imports must be built as well (a model added since the last build is not:
    # the candidate cannot be judged yet, which is not a refusal)
    for m in re.findall(r'\b(Model\.\w+)', text.split('Import ListNotations', 1)[0]):
        need.append(os.path.join(coqdir, *m.split('.')) + '.vo')
    if not all(os.path.exists(p) for p in need) or shutil.which('coqc') is None:
        return None
    work = os.path.join(os.path.dirname(coqdir), '.work')      # git-ignored scratch area of the framework
    os.makedirs(work, exist_ok=True)
    d = tempfile.mkdtemp(prefix='py2coq', dir=work)
    try:
        open(os.path.join(d, 'Cand.v'), 'w').write(text)
        p = subprocess.run(['timeout', '120', 'coqc', '-Q', coqdir, 'MoPep', '-Q', d, 'Py2CoqCand', os.path.join(d, 'Cand.v')],
                           stdout=subprocess.PIPE, stderr=subprocess.STDOUT, text=True)
        return p.returncode == 0
    except Exception:
        return None
    finally:
        shutil.rmtree(d, ignore_errors=True)


def run(repo, gendir):
    import _py2coq_config as C
    changed = False
    coqdir = os.path.dirname(os.path.abspath(gendir))
    mods = {}
    for cfg in C.TARGETS:
        mods.setdefault(cfg['out'], []).append(cfg)
    for mod, cfgs in mods.items():
        imports = []
        for c in cfgs:
            for i in c.get('imports', []):
                if i not in imports:
                    imports.append(i)
        parts = [translate_target(repo, c) for c in cfgs]
        text = header(mod, imports) + '\n\n'.join(p[0] for p in parts) + '\n'
        out = os.path.join(gendir, mod + '.v')
        old = open(out).read() if os.path.exists(out) else None
        if old == text:
            continue
        # new text: make sure it compiles; a target whose text coqc rejects is refused
        if any(p[1] for p in parts) and coq_ok(coqdir, text) is False:
            fixed = []
            for c, p in zip(cfgs, parts):
                if p[1] and coq_ok(coqdir, header(mod, imports) + p[0] + '\n') is False:
                    fixed.append((stub(c, 'generated text rejected by coqc'), False, 'coqc'))
                else:
                    fixed.append(p)
            parts = fixed
            text = header(mod, imports) + '\n\n'.join(p[0] for p in parts) + '\n'
        if old != text:
            open(out, 'w').write(text)
            changed = True
    return changed


if __name__ == '__main__':
    import _py2coq_config as C
    repo = sys.argv[1] if len(sys.argv) > 1 else '/repo'
    for cfg in C.TARGETS:
        t, ok, why = translate_target(repo, cfg)
        print(t)
        print()
