"""Translate the constants C12's index model depends on into coq/Gen/Version.v.

Read with ast only (the repo is never imported).  Extracted:
  mopepgen_version        moPepGen/__init__.py      __version__
  minimal_version         moPepGen/version.py       MINIMAL_VERSION
  is_valid_shape_ok       MetaVersion.is_valid is  python == and biopython == and is_valid_mpg_version(mopepgen);
                          is_valid_mpg_version is  get_semver(version) >= get_semver(MINIMAL_VERSION);
                          get_semver is  tuple(int(x) for x in version.split('-')[0].split('.'));
                          IndexDir.validate_metadata raises InvalidIndexError when `not cur_version.is_valid(...)`
  lit_auto / lit_trypsin / lit_trypsin_exception, resolve_shape_ok
                          moPepGen/params.py CleavageParams.__init__:
                              if self.exception == 'auto':
                                  if enzyme == 'trypsin': self.exception = 'trypsin_exception'
                                  else:                   self.exception = None
  eq_fields               the attributes compared by IndexMetadata.get_canonical_pool: keys of the base dict of
                          CleavageParams.jsonfy (each must map key k to self.k), as field codes
                          0 enzyme 1 exception 2 miscleavage 3 min_mw 4 min_length 5 max_length (others: 99)
  lookup_shape_ok         get_canonical_pool compares jsonfy(graph_params=False) of both sides with ==, returns the first match
  fn_prefix/fn_width/fn_suffix   the f-string of the pool file name  f"canonical_peptides_{index:03}.pkl"
  index_rule              1 iff   index = max(it.index for it in self.canonical_pools) + 1 if self.canonical_pools else 1
  pool_exc_resolved       generate_index and update_index pass exception=cleavage_params.exception to
                          create_unique_peptide_pool (D8 guard)
Fail-closed: anything not understood becomes a marker (string "?", number 99, false) that makes an
obligation of Props/C12.v (index_constants_ok) fail; the generated file always compiles.
"""
import ast, os

def S(s):
    return '[' + '; '.join(str(ord(c)) for c in s) + ']'

def parse(repo, rel):
    try:
        return ast.parse(open(os.path.join(repo, rel)).read())
    except Exception:
        return ast.parse('')

def find(tree, cls, name):
    for node in ast.walk(tree):
        if isinstance(node, ast.ClassDef) and node.name == cls:
            for f in node.body:
                if isinstance(f, ast.FunctionDef) and f.name == name:
                    return f
    return None

def find_func(tree, name):
    for node in ast.walk(tree):
        if isinstance(node, ast.FunctionDef) and node.name == name:
            return node
    return None

def body_wo_doc(f):
    b = list(f.body)
    if b and isinstance(b[0], ast.Expr) and isinstance(b[0].value, ast.Constant) and isinstance(b[0].value.value, str):
        b = b[1:]
    return b

def dump(n):
    return ast.dump(n, annotate_fields=False).replace('Store()', 'Load()')

def same(node, src):
    """structural equality of an expression with the expression parsed from src"""
    try:
        return dump(node) == dump(ast.parse(src, mode='eval').body)
    except Exception:
        return False

def same_stmt(node, src):
    try:
        return dump(node) == dump(ast.parse(src).body[0])
    except Exception:
        return False

def module_str(tree, name):
    for node in tree.body:
        if isinstance(node, ast.Assign) and len(node.targets) == 1 and isinstance(node.targets[0], ast.Name) \
                and node.targets[0].id == name and isinstance(node.value, ast.Constant) and isinstance(node.value.value, str):
            return node.value.value
    return '?'

FIELD = {'enzyme': 0, 'exception': 1, 'miscleavage': 2, 'min_mw': 3, 'min_length': 4, 'max_length': 5}

def run(repo, gendir):
    init = parse(repo, 'moPepGen/__init__.py')
    ver = parse(repo, 'moPepGen/version.py')
    par = parse(repo, 'moPepGen/params.py')
    idx = parse(repo, 'moPepGen/index.py')
    gen = parse(repo, 'moPepGen/cli/generate_index.py')
    upd = parse(repo, 'moPepGen/cli/update_index.py')

    mpg = module_str(init, '__version__')
    minimal = module_str(ver, 'MINIMAL_VERSION')

    # ---- MetaVersion.is_valid / is_valid_mpg_version / get_semver / validate_metadata
    ok_valid = False
    f1, f2, f3 = find(ver, 'MetaVersion', 'is_valid'), find(ver, 'MetaVersion', 'is_valid_mpg_version'), find(ver, 'MetaVersion', 'get_semver')
    f4 = find(idx, 'IndexDir', 'validate_metadata')
    f5 = find(ver, 'MetaVersion', '__init__')
    try:
        b1, b2, b3, b4, b5 = body_wo_doc(f1), body_wo_doc(f2), body_wo_doc(f3), body_wo_doc(f4), body_wo_doc(f5)
        ok_valid = (
            len(b1) == 1 and isinstance(b1[0], ast.Return) and same(b1[0].value,
                'self.python == version.python and self.biopython == version.biopython and self.is_valid_mpg_version(version.mopepgen)')
            and len(b2) == 3 and same_stmt(b2[0], 'that = self.get_semver(version)')
            and same_stmt(b2[1], 'minimal = self.get_semver(MINIMAL_VERSION)') and same_stmt(b2[2], 'return that >= minimal')
            and len(b3) == 1 and same_stmt(b3[0], "return tuple(int(x) for x in version.split('-')[0].split('.'))")
            and len(b4) == 3 and same_stmt(b4[0], 'cur_version = MetaVersion()')
            and same_stmt(b4[1], 'if not cur_version.is_valid(self.metadata.version):\n    raise err.InvalidIndexError(cur_version, self.metadata.version)')
            and same_stmt(b4[2], 'return True')
            and len(b5) == 3 and same_stmt(b5[0], "self.python = python or '.'.join([str(x) for x in sys.version_info[:3]])")
            and same_stmt(b5[1], 'self.biopython = biopython or Bio.__version__')
            and same_stmt(b5[2], 'self.mopepgen = mopepgen or __version__'))
    except Exception:
        ok_valid = False

    # ---- CleavageParams.__init__: the 'auto' resolution
    lit_auto = lit_tryp = lit_exc = '?'
    ok_resolve = False
    f = find(par, 'CleavageParams', '__init__')
    try:
        ifs = [s for s in body_wo_doc(f) if isinstance(s, ast.If)]
        plain = [s for s in body_wo_doc(f) if not isinstance(s, ast.If)]
        attrs_ok = all(isinstance(s, ast.Assign) and len(s.targets) == 1 and isinstance(s.targets[0], ast.Attribute)
                       and isinstance(s.value, ast.Name) and s.targets[0].attr == s.value.id for s in plain)
        if len(ifs) == 1 and attrs_ok and body_wo_doc(f)[-1] is ifs[0]:
            o = ifs[0]
            t = o.test
            inner = o.body[0] if len(o.body) == 1 else None
            if isinstance(t, ast.Compare) and same(t.left, 'self.exception') and isinstance(t.ops[0], ast.Eq) \
                    and isinstance(t.comparators[0], ast.Constant) and not o.orelse and isinstance(inner, ast.If):
                it = inner.test
                if isinstance(it, ast.Compare) and same(it.left, 'enzyme') and isinstance(it.ops[0], ast.Eq) \
                        and isinstance(it.comparators[0], ast.Constant) and len(inner.body) == 1 and len(inner.orelse) == 1:
                    a, b = inner.body[0], inner.orelse[0]
                    if isinstance(a, ast.Assign) and same(a.targets[0], 'self.exception') and isinstance(a.value, ast.Constant) \
                            and isinstance(a.value.value, str) and same_stmt(b, 'self.exception = None'):
                        lit_auto, lit_tryp, lit_exc = t.comparators[0].value, it.comparators[0].value, a.value.value
                        ok_resolve = all(isinstance(x, str) for x in (lit_auto, lit_tryp, lit_exc))
    except Exception:
        ok_resolve = False
    if not ok_resolve:
        lit_auto = lit_tryp = lit_exc = '?'

    # ---- CleavageParams.jsonfy base keys
    fields = [99]
    f = find(par, 'CleavageParams', 'jsonfy')
    try:
        b = body_wo_doc(f)
        d = b[0]
        if isinstance(d, ast.Assign) and same(d.targets[0], 'data') and isinstance(d.value, ast.Dict) \
                and same_stmt(b[-1], 'return data') and len(b) == 3 and isinstance(b[1], ast.If) and same(b[1].test, 'graph_params') \
                and not b[1].orelse:
            fields = []
            for k, v in zip(d.value.keys, d.value.values):
                if isinstance(k, ast.Constant) and isinstance(v, ast.Attribute) and same(v.value, 'self') and v.attr == k.value:
                    fields.append(FIELD.get(k.value, 99))
                else:
                    fields.append(99)
    except Exception:
        fields = [99]

    # ---- IndexMetadata.get_canonical_pool / register_canonical_pool
    ok_lookup = False
    index_rule = 99
    prefix, width, suffix = '?', 99, '?'
    f = find(idx, 'IndexMetadata', 'get_canonical_pool')
    try:
        b = body_wo_doc(f)
        ok_lookup = (len(b) == 3 and same_stmt(b[0], 'this = cleavage_params.jsonfy(graph_params=False)')
                     and same_stmt(b[1], 'for pool in self.canonical_pools:\n    that = pool.cleavage_params.jsonfy(graph_params=False)\n    if this == that:\n        return pool')
                     and same_stmt(b[2], 'return None'))
    except Exception:
        ok_lookup = False
    f = find(idx, 'IndexMetadata', 'register_canonical_pool')
    try:
        b = body_wo_doc(f)
        if len(b) == 5 and same_stmt(b[0], 'if self.get_canonical_pool(cleavage_params):\n    raise ValueError("Canonical peptide pool already exists with the parameters.")') \
                and same_stmt(b[3], 'self.canonical_pools.append(pool)') and same_stmt(b[4], 'return pool'):
            if same_stmt(b[1], 'index = max(it.index for it in self.canonical_pools) + 1 if self.canonical_pools else 1'):
                index_rule = 1
            call = b[2].value
            kws = {k.arg: k.value for k in call.keywords}
            if same(call.func, 'CanonicalPoolMetadata') and same(kws['index'], 'index') and same(kws['cleavage_params'], 'cleavage_params') \
                    and isinstance(kws['filename'], ast.JoinedStr):
                parts = kws['filename'].values
                if len(parts) == 3 and isinstance(parts[0], ast.Constant) and isinstance(parts[2], ast.Constant) \
                        and isinstance(parts[1], ast.FormattedValue) and same(parts[1].value, 'index') and parts[1].conversion == -1 \
                        and isinstance(parts[1].format_spec, ast.JoinedStr) and len(parts[1].format_spec.values) == 1:
                    spec = parts[1].format_spec.values[0].value
                    if isinstance(spec, str) and len(spec) == 2 and spec[0] == '0' and spec[1] in '123456789':
                        prefix, width, suffix = parts[0].value, int(spec[1]), parts[2].value
            else:
                index_rule = 99
    except Exception:
        index_rule = 99

    # ---- D8 guard: exception=cleavage_params.exception in the pool construction of both commands
    def exc_resolved(tree, fname):
        f = find_func(tree, fname)
        if f is None:
            return False
        calls = [n for n in ast.walk(f) if isinstance(n, ast.Call) and isinstance(n.func, ast.Attribute)
                 and n.func.attr == 'create_unique_peptide_pool']
        if len(calls) != 1:
            return False
        kws = {k.arg: k.value for k in calls[0].keywords}
        return 'exception' in kws and same(kws['exception'], 'cleavage_params.exception')
    ok_exc = exc_resolved(gen, 'generate_index') and exc_resolved(upd, 'update_index')

    def B(b):
        return 'true' if b else 'false'
    L = ['(* GENERATED by harness/translate/version.py from moPepGen/{__init__,version,params,index}.py and',
         '   moPepGen/cli/{generate,update}_index.py -- do not edit *)',
         'From MoPep Require Import Model.Base.', 'Open Scope Z_scope.',
         'Definition mopepgen_version : list Z := %s.   (* %s *)' % (S(mpg), mpg),
         'Definition minimal_version : list Z := %s.   (* %s *)' % (S(minimal), minimal),
         'Definition is_valid_shape_ok : bool := %s.' % B(ok_valid),
         'Definition lit_auto : list Z := %s.   (* %s *)' % (S(lit_auto), lit_auto),
         'Definition lit_trypsin : list Z := %s.   (* %s *)' % (S(lit_tryp), lit_tryp),
         'Definition lit_trypsin_exception : list Z := %s.   (* %s *)' % (S(lit_exc), lit_exc),
         'Definition resolve_shape_ok : bool := %s.' % B(ok_resolve),
         'Definition eq_fields : list Z := [%s].' % '; '.join(str(x) for x in fields),
         'Definition lookup_shape_ok : bool := %s.' % B(ok_lookup),
         'Definition fn_prefix : list Z := %s.   (* %s *)' % (S(prefix), prefix),
         'Definition fn_width : Z := %d.' % width,
         'Definition fn_suffix : list Z := %s.   (* %s *)' % (S(suffix), suffix),
         'Definition index_rule : Z := %d.' % index_rule,
         'Definition pool_exc_resolved : bool := %s.' % B(ok_exc)]
    text = '\n'.join(L) + '\n'
    out = os.path.join(gendir, 'Version.v')
    old = open(out).read() if os.path.exists(out) else None
    if old != text:
        open(out, 'w').write(text)
        return True
    return False
