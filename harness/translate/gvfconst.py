"""Translate the GVF codec's constants from the *source text* of the repo into coq/Gen/GvfConst.v.

  constant.py                 ATTRS_POSITION, SINGLE_NUCLEOTIDE_SUBSTITUTION
  seqvar/VariantRecord.py     _VARIANT_TYPES; the `_type not in [...]` list of __init__ (no length check);
                              to_string: the literal '<FUSION>' and the list of types written as '<' + upper[:3] + '>'
  seqvar/VariantRecord.py     info: the test deciding which keys are written as value + 1  (disjunction of atoms)
  seqvar/io.py                parse_attrs: the test deciding which keys are read as value - 1 (disjunction of atoms);
                              the rest of both loops is checked statement by statement
  seqvar/io.py                line_to_variant_record: the chain  alt == '<X>' -> (_type, end from attrs['END'] or start+1)
  circ/CircRNA.py             to_string: the six INFO keys in the order written, by the role of the value formatted
  circ/io.py                  line_to_circ_model: keys parsed as int lists, the INTRON key, the six keys looked up, by role

Fail-closed: anything not understood makes `shape_ok := false` (Props/C13.v has the obligation
`gvfconst_shape_ok : shape_ok = true`) and the corresponding table becomes a marker value ([[-1]]); the
generated file always compiles.
"""
import ast, os

def S(s):
    return '[' + '; '.join(str(ord(c)) for c in s) + ']'

def SL(l):
    return '[' + '; '.join(S(x) for x in l) + ']'

MARK = '[[-1]]'

def str_list(node):
    if isinstance(node, (ast.List, ast.Tuple)) and all(isinstance(e, ast.Constant) and isinstance(e.value, str) for e in node.elts):
        return [e.value for e in node.elts]
    return None

def module_assign(tree, name):
    for n in tree.body:
        if isinstance(n, ast.Assign) and len(n.targets) == 1 and isinstance(n.targets[0], ast.Name) and n.targets[0].id == name:
            return n.value
        if isinstance(n, ast.AnnAssign) and isinstance(n.target, ast.Name) and n.target.id == name:
            return n.value
    return None

def find_func(tree, name, cls=None):
    for n in ast.walk(tree):
        if cls and isinstance(n, ast.ClassDef) and n.name == cls:
            for m in n.body:
                if isinstance(m, ast.FunctionDef) and m.name == name:
                    return m
        if not cls and isinstance(n, ast.FunctionDef) and n.name == name:
            return n
    return None

def kpred(node, var, consts):
    """test over the key variable `var` -> list of atoms, or None if not understood.
    atoms: ('in', [..]) | ('eq', s) | ('ends', s) | ('starts', s)"""
    if isinstance(node, ast.BoolOp) and isinstance(node.op, ast.Or):
        out = []
        for v in node.values:
            a = kpred(v, var, consts)
            if a is None:
                return None
            out += a
        return out
    if isinstance(node, ast.Compare) and len(node.ops) == 1 and isinstance(node.left, ast.Name) and node.left.id == var:
        op, rhs = node.ops[0], node.comparators[0]
        if isinstance(op, ast.In):
            l = str_list(rhs)
            if l is None and ast.unparse(rhs) in consts and consts[ast.unparse(rhs)] is not None:
                l = consts[ast.unparse(rhs)]
            return [('in', l)] if l is not None else None
        if isinstance(op, ast.Eq) and isinstance(rhs, ast.Constant) and isinstance(rhs.value, str):
            return [('eq', rhs.value)]
        return None
    if isinstance(node, ast.Call) and isinstance(node.func, ast.Attribute) and isinstance(node.func.value, ast.Name) \
            and node.func.value.id == var and node.func.attr in ('endswith', 'startswith') and len(node.args) == 1 \
            and not node.keywords:
        a = node.args[0]
        kind = 'ends' if node.func.attr == 'endswith' else 'starts'
        if isinstance(a, ast.Constant) and isinstance(a.value, str):
            return [(kind, a.value)]
        if isinstance(a, ast.Tuple) and all(isinstance(e, ast.Constant) and isinstance(e.value, str) for e in a.elts):
            return [(kind, e.value) for e in a.elts]
    return None

def translate(repo):
    ok = True
    notes = []
    out = {}
    def fail(what):
        nonlocal ok
        ok = False
        notes.append(what)

    def parse(rel):
        try:
            return ast.parse(open(os.path.join(repo, rel)).read())
        except Exception as e:  # noqa
            fail('cannot parse %s: %r' % (rel, e))
            return ast.parse('')

    # ---- constant.py
    t = parse('moPepGen/constant.py')
    for name in ('ATTRS_POSITION', 'SINGLE_NUCLEOTIDE_SUBSTITUTION'):
        v = module_assign(t, name)
        l = str_list(v) if v is not None else None
        if l is None:
            fail('constant.%s is not a list of string literals' % name)
        out[name] = l

    # ---- VariantRecord.py
    t = parse('moPepGen/seqvar/VariantRecord.py')
    v = module_assign(t, '_VARIANT_TYPES')
    out['VARIANT_TYPES'] = str_list(v) if v is not None else None
    if out['VARIANT_TYPES'] is None:
        fail('_VARIANT_TYPES not a literal list')
    init = find_func(t, '__init__', 'VariantRecord')
    nolen = None
    if init is not None:
        for n in ast.walk(init):
            if isinstance(n, ast.Compare) and len(n.ops) == 1 and isinstance(n.ops[0], ast.NotIn) \
                    and isinstance(n.left, ast.Name) and n.left.id == '_type':
                l = str_list(n.comparators[0])
                if l is not None:
                    nolen = l
                    break
    if nolen is None:
        fail('VariantRecord.__init__: length-check exemption list not found')
    out['NO_LEN_CHECK'] = nolen
    # to_string chain:  if type in constant.SINGLE_NUCLEOTIDE_SUBSTITUTION / elif == 'Fusion' / elif in [..] / else
    ts = find_func(t, 'to_string', 'VariantRecord')
    fusion_alt, three = None, None
    try:
        chain = [n for n in ts.body if isinstance(n, ast.If)][0]
        c0 = chain.test
        assert isinstance(c0, ast.Compare) and isinstance(c0.ops[0], ast.In) and ast.unparse(c0.comparators[0]) == 'constant.SINGLE_NUCLEOTIDE_SUBSTITUTION'
        assert [ast.unparse(s) for s in chain.body] == ['ref = str(self.ref)', 'alt = str(self.alt)']
        c1 = chain.orelse[0]
        assert ast.unparse(c1.test) == "self.type == 'Fusion'"
        assert ast.unparse(c1.body[0]) == 'ref = str(self.ref[0])'
        fusion_alt = c1.body[1].value.value
        assert isinstance(fusion_alt, str)
        c2 = c1.orelse[0]
        assert isinstance(c2.test, ast.Compare) and isinstance(c2.test.ops[0], ast.In) and ast.unparse(c2.test.left) == 'self.type'
        three = str_list(c2.test.comparators[0])
        assert three is not None
        assert ast.unparse(c2.body[0]) == 'ref = str(self.ref[0])'
        assert ast.unparse(c2.body[1]) == "alt = f'<{self.type.upper()[:3]}>'"
        assert [ast.unparse(s) for s in c2.orelse] == ['ref = str(self.ref[0])', "alt = f'<{self.type.upper()}>'"]
        # the line layout
        ret = [n for n in ts.body if isinstance(n, ast.Return)][0]
        assert ast.unparse(ret.value) == "'\\t'.join([chrom, pos, _id, ref, alt, qual, _filter, info])"
    except Exception as e:  # noqa
        fail('VariantRecord.to_string has an unexpected shape: %r' % (e,))
        fusion_alt, three = None, None
    out['FUSION_ALT'] = fusion_alt
    out['UPPER3_TYPES'] = three

    # ---- VariantRecord.info : which keys are shifted on write
    consts = {'constant.ATTRS_POSITION': out.get('ATTRS_POSITION')}
    wpred = None
    try:
        f = find_func(t, 'info', 'VariantRecord')
        body = [n for n in f.body if not (isinstance(n, ast.Expr) and isinstance(n.value, ast.Constant))]
        assert ast.unparse(body[0]) == "out = ''" and ast.unparse(body[2]) == "return out.rstrip(';')"
        loop = body[1]
        assert isinstance(loop, ast.For) and ast.unparse(loop.target) == '(key, val)' and ast.unparse(loop.iter) == 'self.attrs.items()'
        chain = loop.body[0]
        assert isinstance(chain, ast.If) and [ast.unparse(x) for x in chain.body] == ['val = str(int(val) + 1)']
        c1 = chain.orelse
        assert len(c1) == 1 and isinstance(c1[0], ast.If) and ast.unparse(c1[0].test) == 'isinstance(val, list)' and not c1[0].orelse
        assert [ast.unparse(x) for x in c1[0].body] == ["val = ','.join([str(x) for x in val])"]
        assert [ast.unparse(x) for x in loop.body[1:]] == ["out += f'{key.upper()}={val};'"]
        wpred = kpred(chain.test, 'key', consts)
        assert wpred is not None, 'shift test of the writer: ' + ast.unparse(chain.test)
    except Exception as e:  # noqa
        fail('VariantRecord.info has an unexpected shape: %r' % (e,))
        wpred = None
    out['W_SHIFT'] = wpred

    # ---- seqvar/io.py : alt -> (type, end from END?)
    t = parse('moPepGen/seqvar/io.py')
    rpred = None
    try:
        f = find_func(t, 'parse_attrs')
        body = [n for n in f.body if not (isinstance(n, ast.Expr) and isinstance(n.value, ast.Constant))]
        assert ast.unparse(body[0]) == 'attrs = {}' and ast.unparse(body[2]) == 'return attrs'
        loop = body[1]
        assert isinstance(loop, ast.For) and ast.unparse(loop.target) == 'field' and ast.unparse(loop.iter) == "info.split(';')"
        st = loop.body
        assert ast.unparse(st[0]) == "key, val = field.split('=')"
        assert ast.unparse(st[1]) == "val = val.strip('\"')"
        assert isinstance(st[2], ast.If) and not st[2].orelse and [ast.unparse(x) for x in st[2].body] == ['val = str(int(val) - 1)']
        assert ast.unparse(st[3]) == 'attrs[key] = val' and len(st) == 4
        rpred = kpred(st[2].test, 'key', consts)
        assert rpred is not None, 'shift test of the reader: ' + ast.unparse(st[2].test)
    except Exception as e:  # noqa
        fail('seqvar.io.parse_attrs has an unexpected shape: %r' % (e,))
        rpred = None
    out['R_SHIFT'] = rpred
    f = find_func(t, 'line_to_variant_record')
    table = None
    try:
        chain = [n for n in f.body if isinstance(n, ast.If)][0]
        assert ast.unparse(chain.test) == "not alt.startswith('<')"
        rows = []
        cur = chain.orelse
        while cur:
            node = cur[0]
            if isinstance(node, ast.If):
                assert isinstance(node.test, ast.Compare) and isinstance(node.test.ops[0], ast.Eq) and ast.unparse(node.test.left) == 'alt'
                lit = node.test.comparators[0].value
                body = [ast.unparse(s) for s in node.body]
                assert len(body) == 2 and body[1].startswith('_type = ')
                typ = node.body[1].value.value
                if body[0] == 'end = start + 1':
                    from_end = False
                elif body[0] == "end = int(attrs['END'])":
                    from_end = True
                else:
                    raise AssertionError('end rule ' + body[0])
                rows.append((lit, typ, from_end))
                cur = node.orelse
            else:
                assert isinstance(node, ast.Raise) and 'ValueError' in ast.unparse(node)
                cur = None
        table = rows
        # the non-symbolic arm
        b = [ast.unparse(s) for s in chain.body]
        assert b[0] == 'end = start + len(ref)'
        assert ast.unparse(chain.body[1]).replace('\n', ' ').replace('    ', '') == \
            "if len(ref) == len(alt) == 1: _type = 'SNV' elif len(ref) == 1 or len(alt) == 1: _type = 'INDEL' else: _type = 'MNV'"
    except Exception as e:  # noqa
        fail('seqvar.io.line_to_variant_record has an unexpected shape: %r' % (e,))
        table = None
    out['ALT_TABLE'] = table

    # ---- circ writer keys by role
    t = parse('moPepGen/circ/CircRNA.py')
    f = find_func(t, 'to_string', 'CircRNAModel')
    wkeys = None
    try:
        info = [n for n in f.body if isinstance(n, ast.Assign) and ast.unparse(n.targets[0]) == 'info'][0]
        parts = []
        def flat(n):
            if isinstance(n, ast.BinOp) and isinstance(n.op, ast.Add):
                flat(n.left); flat(n.right)
            elif isinstance(n, ast.JoinedStr):
                parts.extend(n.values)
            else:
                raise AssertionError('info expr')
        flat(info.value)
        text = ''
        for p in parts:
            if isinstance(p, ast.Constant):
                text += p.value
            else:
                text += '{' + ast.unparse(p.value) + '}'
        pairs = [x.split('=') for x in text.split(';')]
        roles = ['{offset}', '{length}', '{intron}', '{tx_id}', '{gene_name}', '{self.genomic_position}']
        assert [p[1] for p in pairs] == roles, text
        wkeys = [p[0] for p in pairs]
        ret = [n for n in f.body if isinstance(n, ast.Return)][0]
        assert ast.unparse(ret.value) == "'\\t'.join([gene_id, start, circ_id, '.', '.', '.', '.', info])"
    except Exception as e:  # noqa
        fail('CircRNAModel.to_string has an unexpected shape: %r' % (e,))
    out['CIRC_WKEYS'] = wkeys

    # ---- circ reader keys by role
    t = parse('moPepGen/circ/io.py')
    f = find_func(t, 'line_to_circ_model')
    rkeys = None
    try:
        look = {}
        for n in f.body:
            if isinstance(n, ast.Assign) and isinstance(n.targets[0], ast.Name):
                tgt = n.targets[0].id
                v = n.value
                if isinstance(v, ast.Subscript) and ast.unparse(v.value) == 'attrs':
                    look[tgt] = ('idx', v.slice.value)
                elif isinstance(v, ast.Call) and ast.unparse(v.func) == 'attrs.get':
                    assert v.args[1].value == ''
                    look[tgt] = ('get', v.args[0].value)
        roles = ['offsets', 'lengths', 'introns', 'tx_id', 'gene_name', 'genomic_location']
        assert all(r in look for r in roles), look
        assert [look[r][0] for r in roles] == ['idx'] * 5 + ['get']
        rkeys = [look[r][1] for r in roles]
        loop = [n for n in f.body if isinstance(n, ast.For) and ast.unparse(n.iter) == "fields[7].split(';')"][0]
        chain = [n for n in loop.body if isinstance(n, ast.If)][0]
        intkeys = str_list(chain.test.comparators[0])
        assert ast.unparse(chain.test.left) == 'key' and isinstance(chain.test.ops[0], ast.In)
        c1 = chain.orelse[0]
        assert ast.unparse(c1.test.left) == 'key' and isinstance(c1.test.ops[0], ast.Eq)
        intron_key = c1.test.comparators[0].value
        assert not c1.orelse
        assert sorted(intkeys) == sorted(rkeys[:2]) and intron_key == rkeys[2]
    except Exception as e:  # noqa
        fail('circ.io.line_to_circ_model has an unexpected shape: %r' % (e,))
        rkeys = None
    out['CIRC_RKEYS'] = rkeys
    return ok, notes, out

def render(ok, notes, o):
    L = []
    w = L.append
    w('(* GENERATED by harness/translate/gvfconst.py from the source text of the repo -- do not edit *)')
    w('From MoPep Require Import Model.Base Model.Gvf.')
    w('Open Scope Z_scope.')
    for n in notes:
        w('(* NOT UNDERSTOOD: %s *)' % n.replace('*)', '* )').replace('(*', '( *'))
    w('Definition shape_ok : bool := %s.' % ('true' if ok else 'false'))
    def lst(name, key):
        v = o.get(key)
        w('Definition %s : list (list Z) := %s.%s' % (name, SL(v) if v is not None else MARK,
                                                      (' (* %s *)' % ' '.join(v)) if v is not None else ''))
    lst('attrs_position', 'ATTRS_POSITION')
    lst('single_nucleotide_substitution', 'SINGLE_NUCLEOTIDE_SUBSTITUTION')
    lst('variant_types', 'VARIANT_TYPES')
    lst('no_len_check_types', 'NO_LEN_CHECK')
    lst('upper3_types', 'UPPER3_TYPES')
    w('Definition fusion_alt : list Z := %s.' % (S(o['FUSION_ALT']) if o.get('FUSION_ALT') is not None else '[-1]'))
    t = o.get('ALT_TABLE')
    if t is None:
        w('Definition alt_table : list (list Z * (list Z * bool)) := [([-1], ([-1], false))].')
    else:
        w('Definition alt_table : list (list Z * (list Z * bool)) := [')
        w(';\n'.join('  (%s, (%s, %s)) (* %s -> %s, end %s *)' % (S(a), S(ty), 'true' if fe else 'false', a, ty,
                                                                     "from attrs['END']" if fe else '= start + 1') for a, ty, fe in t))
        w('].')
    def pred(name, key):
        v = o.get(key)
        if v is None:
            w('Definition %s : list katom := [KUnknown].' % name)
            return
        atoms = []
        for kind, x in v:
            if kind == 'in':
                atoms.append('KIn %s' % SL(x))
            else:
                atoms.append('%s %s' % ({'eq': 'KEq', 'ends': 'KEnds', 'starts': 'KStarts'}[kind], S(x)))
        w('Definition %s : list katom := [%s]. (* %s *)' % (name, '; '.join(atoms), ' or '.join('%s %s' % (k, x) for k, x in v)))
    pred('writer_shift', 'W_SHIFT')
    pred('reader_shift', 'R_SHIFT')
    lst('circ_wkeys', 'CIRC_WKEYS')
    lst('circ_rkeys', 'CIRC_RKEYS')
    return '\n'.join(L) + '\n'

def run(repo, gendir):
    ok, notes, o = translate(repo)
    text = render(ok, notes, o)
    out = os.path.join(gendir, 'GvfConst.v')
    old = open(out).read() if os.path.exists(out) else None
    if old != text:
        open(out, 'w').write(text)
        return True
    return False

if __name__ == '__main__':
    import sys
    ok, notes, o = translate(sys.argv[1])
    print(render(ok, notes, o))
