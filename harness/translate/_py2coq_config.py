"""Per-target configuration of harness/translate/py2coq.py  (TRUSTED: see docs/py2coq.md).

A target names one Python function and says how the objects it touches are represented in the
hand-written Coq model it is compared with:

  out, file, cls, func      where the function lives, which coq/Gen/<out>.v receives it
  coq_name                  name of the generated Coq function (and prefix of its loop Fixpoints)
  imports                   Model files the generated text refers to
  args                      formal parameters of the generated function, in the order of the MODEL function
  params                    python parameter -> (Coq term, type); type 'opaque' = never read by translated code
  ret_ty / res_ty / ok      python-level type of the returned value, Coq result type, template of a normal result
  stub                      body used when the function is refused (must make the equality obligation false)
  errors                    python exception class that the translated constructs can raise -> Coq term
  raises                    explicit `raise Cls(msg)`: (Cls, 'name', CONSTANT_NAME, term) | (Cls, 're', regex on the
                            literal parts of the message, term) | (Cls, 'any', None, term); first match wins
  patterns                  (python expression with _metavariables, {_mv: required type}, Coq template, result type):
                            how attribute chains / library calls map to projections of the model's records
  binds                     `x = <rhs>` with exactly this right-hand side makes x a symbolic object of the given type
  stmt_patterns             (python expression statement, types, target local, template using {cur}) = assignment to a local
  seq_binds                 a run of statements (exact text) replaced by binding one local to a Coq term
  skip_defs                 nested function definitions that are mapped through stmt_patterns instead
  var_types                 element type of locals initialised with []
  fuel                      one bound per `while` loop, in source order (Coq term of type nat)
"""

ANNO_ERRORS = {'IndexError': '(Err EIndex)', 'UnboundLocalError': '(Err EUnbound)', 'TypeError': '(Err EType)'}

# exon / CDS records of the parser: SeqFeature with a FeatureLocation (start, end); the model's exon is (start, end)
EXON = [
    ('_e.location.start', {'_e': 'exon'}, '(fst {_e})', 'Z'),
    ('_e.location.end', {'_e': 'exon'}, '(snd {_e})', 'Z'),
    ('len(_e.location)', {'_e': 'exon'}, '(snd {_e} - fst {_e})', 'Z'),      # FeatureLocation.__len__
    ('len(_e)', {'_e': 'exon'}, '(exon_len {_e})', 'Z'),                     # SeqFeature.__len__ = len(location)
    ('_p in _e', {'_p': 'Z', '_e': 'exon'}, '(in_exon {_p} {_e})', 'bool'),  # SeqFeature.__contains__(int)
    ('_p not in _e', {'_p': 'Z', '_e': 'exon'}, '(negb (in_exon {_p} {_e}))', 'bool'),
]
CDS = [
    ('_c.location.start', {'_c': 'cds'}, '(c_start {_c})', 'Z'),
    ('_c.location.end', {'_c': 'cds'}, '(c_end {_c})', 'Z'),
    ('_c.frame', {'_c': 'cds'}, '(c_frame {_c})', 'optZ'),
]
TXMODEL_SELF = [
    ('self.transcript.strand', {}, 'strand', 'Z'),
    ('self.exon', {}, 'ex', 'list exon'),
    ('self.cds', {}, 'cs', 'list cds'),
]

TAM = dict(out='Py_TranscriptAnnotationModel', file='moPepGen/gtf/TranscriptAnnotationModel.py',
           cls='TranscriptAnnotationModel', imports=['Model.Anno'], errors=ANNO_ERRORS)
GA = dict(out='Py_GenomicAnnotation', file='moPepGen/gtf/GenomicAnnotation.py',
          cls='GenomicAnnotation', imports=['Model.Anno'], errors=ANNO_ERRORS)

TARGETS = [
    # (1) genomic -> transcript        vs Anno.g2tx
    dict(TAM, func='get_transcript_index', coq_name='get_transcript_index',
         args=[('strand', 'Z'), ('ex', 'list exon'), ('g', 'Z')],
         params={'genomic_index': ('g', 'Z')},
         ret_ty='Z', res_ty='res Z', ok='(Ok {})', stub='Err EValue',
         raises=[('ValueError', 'name', 'ERROR_INDEX_IN_INTRON', '(Err EIntron)'),
                 ('ValueError', 're', r'in the range of this transcript', '(Err ERange)'),
                 ('ValueError', 'any', None, '(Err EValue)')],
         patterns=TXMODEL_SELF + EXON),
    #     membership of a genomic position in an exon        vs Anno.exonic
    dict(TAM, func='is_exonic', coq_name='is_exonic',
         args=[('ex', 'list exon'), ('g', 'Z')],
         params={'pos': ('g', 'Z')},
         ret_ty='bool', res_ty='bool', ok='{}', stub='false', raises=[],
         patterns=TXMODEL_SELF + EXON),
    # (3) ORF start                    vs Anno.cds_start_index
    dict(TAM, func='get_cds_start_index', coq_name='get_cds_start_index',
         args=[('strand', 'Z'), ('ex', 'list exon'), ('cs', 'list cds')],
         params={},
         ret_ty='Z', res_ty='res Z', ok='(Ok {})', stub='Err EValue',
         raises=[('ValueError', 're', r'Strand must not be unknown', '(Err EStrand)'),
                 ('ValueError', 'any', None, '(Err EValue)')],
         patterns=TXMODEL_SELF + EXON + CDS),
    # (2) transcript -> genomic        vs Anno.tx2g
    dict(GA, func='coordinate_transcript_to_genomic', coq_name='coordinate_transcript_to_genomic',
         args=[('strand', 'Z'), ('ex', 'list exon'), ('i', 'Z')],
         params={'index': ('i', 'Z'), 'transcript': (None, 'opaque')},
         binds={'self.transcripts[transcript]': 'txmodel'},
         ret_ty='Z', res_ty='res Z', ok='(Ok {})', stub='Err EValue',
         raises=[('ValueError', 're', r'Index out of range', '(Err ERange)'),
                 ('ValueError', 're', r'unstranded', '(Err EStrand)'),
                 ('ValueError', 'any', None, '(Err EValue)')],
         patterns=[('_t.transcript.strand', {'_t': 'txmodel'}, 'strand', 'Z'),
                   ('_t.exon', {'_t': 'txmodel'}, 'ex', 'list exon')] + EXON),
    #     genomic -> gene              vs Anno.g2gene
    dict(GA, func='coordinate_genomic_to_gene', coq_name='coordinate_genomic_to_gene',
         args=[('strand', 'Z'), ('gs', 'Z'), ('ge', 'Z'), ('g', 'Z')],
         params={'index': ('g', 'Z'), 'gene': (None, 'opaque')},
         binds={'self.genes[gene].location': 'geneloc'},
         ret_ty='Z', res_ty='res Z', ok='(Ok {})', stub='Err EValue',
         raises=[('ValueError', 're', r'does not overlap with the gene', '(Err ERange)'),
                 ('ValueError', 're', r'unstranded', '(Err EStrand)'),
                 ('ValueError', 'any', None, '(Err EValue)')],
         patterns=[('_l.start', {'_l': 'geneloc'}, 'gs', 'Z'), ('_l.end', {'_l': 'geneloc'}, 'ge', 'Z'),
                   ('_l.strand', {'_l': 'geneloc'}, 'strand', 'Z')]),
    #     gene -> genomic              vs Anno.gene2g
    dict(GA, func='coordinate_gene_to_genomic', coq_name='coordinate_gene_to_genomic',
         args=[('strand', 'Z'), ('gs', 'Z'), ('ge', 'Z'), ('i', 'Z')],
         params={'index': ('i', 'Z'), 'gene': (None, 'opaque')},
         binds={'self.genes[gene].location': 'geneloc'},
         ret_ty='Z', res_ty='res Z', ok='(Ok {})', stub='Err EValue',
         raises=[('ValueError', 're', r'unstranded', '(Err EStrand)'),
                 ('ValueError', 'any', None, '(Err EValue)')],
         patterns=[('_l.start', {'_l': 'geneloc'}, 'gs', 'Z'), ('_l.end', {'_l': 'geneloc'}, 'ge', 'Z'),
                   ('_l.strand', {'_l': 'geneloc'}, 'strand', 'Z')]),
]

# (4) AminoAcidSeqRecord.enzymatic_cleave: the double while loop        vs Digest.cleave_loop
#     Trusted by this entry (exact source text is pinned, any change is refused = fail closed):
#       * the three statements that build `sites` compute Digest.bounds_of (0 :: sites ++ [len]); the generated
#         function takes that list as its argument `bounds` (as Digest.cleave_loop does);
#       * the closure update_peptides (X test, Bio molecular weight, length window, append) is Digest.update;
#     both are what the C10 correspondence compares on every run.
UPDATE_PEPTIDES = ("def update_peptides(peptide):\n    if 'X' in peptide.seq:\n        return\n"
                   "    mol_wt = SeqUtils.molecular_weight(peptide.seq, 'protein')\n    weight_flag = mol_wt > min_mw\n"
                   "    length_flag = len(peptide.seq) >= min_length and len(peptide.seq) <= max_length\n"
                   "    if weight_flag and length_flag:\n        peptides.append(peptide)")
TARGETS.append(
    dict(out='Py_AminoAcidSeqRecord', file='moPepGen/aa/AminoAcidSeqRecord.py', cls='AminoAcidSeqRecord',
         func='enzymatic_cleave', coq_name='enzymatic_cleave', imports=['Model.Rule', 'Model.Digest'],
         args=[('wt', 'weight_table'), ('water', 'Z'), ('lim', 'limits'), ('s', 'seq'), ('nf', 'bool'), ('bounds', 'list nat')],
         params={'rule': (None, 'opaque'), 'exception': (None, 'opaque'), 'miscleavage': ('(lim_k lim)', 'Z'),
                 'min_mw': (None, 'opaque'), 'min_length': (None, 'opaque'), 'max_length': (None, 'opaque'),
                 'cds_start_nf': ('nf', 'bool')},
         ret_ty='list seq', res_ty='pyres (list seq)', ok='(POk {})', stub='PErr PyValueError',
         errors={'IndexError': '(PErr PyIndexError)', 'OutOfFuel': '(PErr PyOutOfFuel)',
                 'UnboundLocalError': '(PErr PyUnboundLocalError)', 'TypeError': '(PErr PyTypeError)'},
         raises=[],
         var_types={'peptides': 'list seq'},
         seq_binds=[(['sites = [0]',
                      'sites += self.find_all_enzymatic_cleave_sites(rule=rule, exception=exception)',
                      'sites.append(len(self))'], 'sites', 'bounds', 'list nat')],
         skip_defs={'update_peptides': UPDATE_PEPTIDES},
         stmt_patterns=[('update_peptides(_p)', {'_p': 'seq'}, 'peptides', '({cur} ++ update wt water lim {_p})')],
         patterns=[('self[_a:_b]', {'_a': 'nat', '_b': 'nat'}, '(piece s {_a} {_b})', 'seq'),
                   ("_p.seq.startswith('M')", {'_p': 'seq'}, '(starts_with_M {_p})', 'bool'),
                   ('_p[1:]', {'_p': 'seq'}, '(tl {_p})', 'seq')],
         # every iteration of either loop advances an index that is bounded by len(sites)
         fuel=['(S (length bounds))', '(S (length bounds))']))

#     gene -> transcript: composition; calls of other translated methods are mapped to THEIR models
#     (each is tied to its own code by its own obligation)           vs Anno.gene2tx
TARGETS.append(
    dict(GA, func='coordinate_gene_to_transcript', coq_name='coordinate_gene_to_transcript',
         args=[('gstrand', 'Z'), ('gs', 'Z'), ('ge', 'Z'), ('member', 'bool'), ('tstrand', 'Z'), ('ex', 'list exon'), ('i', 'Z')],
         params={'index': ('i', 'Z'), 'gene': (None, 'opaque'), 'transcript': (None, 'opaque')},
         binds={'self.genes[gene]': 'genemodel', 'self.transcripts[transcript]': 'txmodel'},
         ret_ty='Z', res_ty='res Z', ok='(Ok {})', stub='Err EType',
         raises=[('ValueError', 'any', None, '(Err EValue)')],
         patterns=[('self.coordinate_gene_to_genomic(_i, gene)', {'_i': 'Z'}, '(gene2g gstrand gs ge {_i})', 'res Z'),
                   ('transcript not in _g.transcripts', {'_g': 'genemodel'}, '(negb member)', 'bool'),
                   ('_t.get_transcript_index(_p)', {'_t': 'txmodel', '_p': 'Z'}, '(g2tx tstrand ex {_p})', 'res Z')]))

# (5) cli/call_variant_peptide.py: the dispatch (batching) loop of call_variant_peptide        vs Batch.batches_fix
#     Only the run of statements `dispatches = []` .. `for tx_id in tx_sorted:` is translated; the observable
#     is the sequence of batches handed to caller_reducer (synthetic local batches__).  A transcript is the
#     model's (id, skipped?) pair; gather_data_for_call_variant returns its data or None (= skipped).
#     Trusted: logging / tally statements have no effect on the batches (ignore_stmts); the pinned `if
#     caller.threads > 1: ... else: ...` hands Batch.dispatched to the reducer; the loop over `results` only consumes
#     results (the translator checks that it assigns no name the translated statements use, except the outer loop
#     variable tx_id, which nothing reads after it).
TARGETS.append(
    dict(out='Py_call_variant_peptide', file='moPepGen/cli/call_variant_peptide.py', cls=None,
         func='call_variant_peptide', coq_name='call_variant_peptide_batches', imports=['Model.Batch'],
         args=[('threads', 'Z'), ('l', 'list txitem')],
         types={'txitem': '(Z * bool)', 'dispatch': '(Z * bool)'},
         params={'args': (None, 'opaque')},
         pre_env={'tx_sorted': ('l', 'list txitem')},
         slice=('dispatches = []', 'for tx_id in tx_sorted:'),
         slice_pre=['batches__ = []'], slice_post=['return batches__'],
         var_types={'batches__': 'list (list Z)', 'dispatches': 'list Z'},
         ret_ty='list (list Z)', res_ty='list (list Z)', ok='{}', stub='[[0]]',
         errors={}, raises=[],
         ignore_stmts=[r'^logger\.', r'^caller\.tally\.', r'^for .+ in results:'],
         stmt_rewrites=[('if caller.threads > 1:\n    results = process_pool.map(caller_reducer, dispatches)\nelse:\n    results = [caller_reducer(dispatches[0])]',
                         'batches__ = hand_to_reducer__(batches__, dispatches)')],
         truthy={'dispatch': '(negb (snd {0}))'},
         patterns=[('caller.gather_data_for_call_variant(_t, pool)', {'_t': 'txitem'}, '{_t}', 'dispatch'),
                   ('caller.threads', {}, 'threads', 'Z'),
                   ('hand_to_reducer__(_b, _d)', {'_b': 'list (list Z)', '_d': 'list Z'}, '({_b} ++ [dispatched threads {_d}])', 'list (list Z)')],
         stmt_patterns=[('dispatches.append(_d)', {'_d': 'dispatch'}, 'dispatches', '({cur} ++ [fst {_d}])')]))

# ---------------------------------------------------------------------------------------------- C20 decoyFasta
# (6) cli/decoy_fasta.py DecoyFasta.find_fixed_indices / reverse_sequence / shuffle_sequence     vs Model/Decoy.v
#     Trusted: the pinned `if self.enzyme is not None:` block computes Decoy.enzyme_fixed (rule sites minus exception,
#     shifted by one) -- that block is what harness/translate/decoy_cli.py + C20.code_matches_spec tie to the source;
#     `c in self.non_shuffle_pattern` is membership of the one-letter string in the split pattern list; fixed_indices is
#     a list of non-negative ints (list nat); the list comprehension over enumerate(seq) is Decoy.free_indices;
#     random.sample's result is the parameter `shuffled`; str(seq) / list(..) / Seq(''.join(..)) are representation changes.
DECOY_ENZYME_IF = ("if self.enzyme is not None:\n    rule = self.enzyme\n    exception = 'trypsin_exception' if self.enzyme == 'trypsin' else None\n"
                   "    fixed_indices += [i - 1 for i in aa.AminoAcidSeqRecord(seq).find_all_enzymatic_cleave_sites(rule, exception)]")
DEC = dict(out='Py_decoy_fasta', file='moPepGen/cli/decoy_fasta.py', cls='DecoyFasta',
           imports=['Model.Rule', 'Model.Digest', 'Model.Decoy'])
DEC_ERR = {'IndexError': '(PErr PyIndexError)', 'OutOfFuel': '(PErr PyOutOfFuel)',
           'UnboundLocalError': '(PErr PyUnboundLocalError)', 'TypeError': '(PErr PyTypeError)'}
DEC_WALK = [
    ('list(reversed([i for i, _ in enumerate(_s) if i not in _f]))', {'_s': 'list Z', '_f': 'list nat'},
     '(rev (free_indices {_f} (length {_s})))', 'list nat'),
    ('[i for i, _ in enumerate(_s) if i not in _f]', {'_s': 'list Z', '_f': 'list nat'},
     '(free_indices {_f} (length {_s}))', 'list nat'),
    ('_p in fixed_indices', {'_p': 'Z'}, '((0 <=? {_p}) && mem_nat (Z.to_nat {_p}) fixed)', 'bool'),
    ('list(_x)', {'_x': 'list Z'}, '{_x}', 'list Z'),
    ('_s[_a:]', {'_s': 'list Z', '_a': 'Z'}, '(py_slice_from {_s} {_a})', 'list Z'),
    ("Seq(''.join(_x))", {'_x': 'list Z'}, '{_x}', 'list Z'),
]
TARGETS += [
    dict(DEC, func='find_fixed_indices', coq_name='py_find_fixed_indices',
         args=[('cfg', 'config'), ('s', 'list Z')], params={'seq': ('s', 'list Z')},
         var_types={'fixed_indices': 'list nat'},
         ret_ty='list nat', res_ty='list nat', ok='{}', stub='[0%nat; 0%nat; 0%nat]', errors={}, raises=[],
         stmt_rewrites=[(DECOY_ENZYME_IF, 'fixed_indices = fixed_indices + enzyme_fixed__(seq)')],
         patterns=[('enzyme_fixed__(_s)', {'_s': 'list Z'}, '(enzyme_fixed cfg {_s})', 'list nat'),
                   ('self.keep_peptide_nterm', {}, '(c_nterm cfg)', 'bool'),
                   ('self.keep_peptide_cterm', {}, '(c_cterm cfg)', 'bool'),
                   ('_c in self.non_shuffle_pattern', {'_c': 'Z'}, '(mem_seq [{_c}] (c_pattern cfg))', 'bool')],
         stmt_patterns=[('fixed_indices.append(_i)', {'_i': 'Z'}, 'fixed_indices', '({cur} ++ [Z.to_nat {_i}])')]),
    dict(DEC, func='reverse_sequence', coq_name='py_reverse_sequence', decorators=['staticmethod'],
         args=[('s', 'list Z'), ('fixed', 'list nat')],
         params={'seq': ('s', 'list Z'), 'fixed_indices': ('fixed', 'list nat')},
         var_types={'shuffled_seq': 'list Z'},
         ret_ty='list Z', res_ty='pyres (list Z)', ok='(POk {})', stub='PErr PyValueError', errors=DEC_ERR, raises=[],
         stmt_rewrites=[('seq = str(seq)', 'pass')],
         patterns=DEC_WALK,
         stmt_patterns=[('shuffled_seq.append(_c)', {'_c': 'Z'}, 'shuffled_seq', '({cur} ++ [{_c}])')],
         # every iteration advances i + offset, which cannot pass len(seq) without an IndexError, or i
         fuel=['(S (length s + length {reversed_indices}))']),
    dict(DEC, func='shuffle_sequence', coq_name='py_shuffle_sequence', decorators=['staticmethod'],
         args=[('s', 'list Z'), ('fixed', 'list nat'), ('shuffled', 'list nat')],
         params={'seq': ('s', 'list Z'), 'fixed_indices': ('fixed', 'list nat')},
         var_types={'shuffled_seq': 'list Z'},
         ret_ty='list Z', res_ty='pyres (list Z)', ok='(POk {})', stub='PErr PyValueError', errors=DEC_ERR, raises=[],
         stmt_rewrites=[('seq = str(seq)', 'pass')],
         patterns=DEC_WALK + [('random.sample(_a, len(_a))', {'_a': 'list nat'}, 'shuffled', 'list nat')],
         stmt_patterns=[('shuffled_seq.append(_c)', {'_c': 'Z'}, 'shuffled_seq', '({cur} ++ [{_c}])')],
         fuel=['(S (length s + length {shuffled_indices}))']),
]

# ---------------------------------------------------------------------------------------------- C12 index directory
# (7) index.py IndexMetadata.get_canonical_pool / register_canonical_pool, version.py MetaVersion.is_valid_mpg_version /
#     is_valid                                                                       vs Model/Index.v
#     Trusted: `a.jsonfy(graph_params=False) == b.jsonfy(graph_params=False)` is Index.params_eqb (its key list is
#     regenerated by harness/translate/version.py); the file-name f-string is Index.filename_of (prefix / width / suffix
#     regenerated by the same translator); get_semver is Index.get_semver (None = the ValueError out of int());
#     tuple >= is Index.lex_ge; str == is eq_seq; a CanonicalPoolMetadata object is truthy.
IDX = dict(out='Py_index', file='moPepGen/index.py', cls='IndexMetadata', imports=['Gen.Version', 'Model.Index'],
           types={'pjson': 'params', 'optpool': 'option poolmeta'})
VER = dict(out='Py_version', file='moPepGen/version.py', cls='MetaVersion', imports=['Gen.Version', 'Model.Index'])
IDX_PATS = [
    ('self.canonical_pools', {}, '(m_pools m)', 'list poolmeta'),
    ('_p.cleavage_params', {'_p': 'poolmeta'}, '(pm_params {_p})', 'params'),
    ('_p.index', {'_p': 'poolmeta'}, '(pm_index {_p})', 'Z'),
    ('_p.jsonfy(graph_params=False)', {'_p': 'params'}, '{_p}', 'pjson'),
    ('_a == _b', {'_a': 'pjson', '_b': 'pjson'}, '(params_eqb {_a} {_b})', 'bool'),
]
TARGETS += [
    dict(IDX, func='get_canonical_pool', coq_name='py_get_canonical_pool',
         args=[('m', 'meta'), ('cp', 'params')], params={'cleavage_params': ('cp', 'params')},
         ret_ty='poolmeta', res_ty='option poolmeta', ok='(Some {})', ok_none='None',
         stub='Some (mkPM [] 0 cp)', errors={}, raises=[], patterns=IDX_PATS),
    dict(IDX, func='register_canonical_pool', coq_name='py_register_canonical_pool',
         args=[('m', 'meta'), ('cp', 'params')], params={'cleavage_params': ('cp', 'params')},
         pre_env={'pools__': ('(m_pools m)', 'list poolmeta')},
         ret_ty='poolmeta', res_ty='option (poolmeta * meta)', ok='(Some ({}, mkM (m_ver m) {pools__} (m_src m)))',
         stub='Some (mkPM [] 0 cp, m)', errors={'ValueError': 'None'},
         raises=[('ValueError', 'any', None, 'None')],
         truthy={'optpool': '(is_some {0})'},
         patterns=IDX_PATS + [
             ('self.get_canonical_pool(_p)', {'_p': 'params'}, '(get_pool {_p} (m_pools m))', 'optpool'),
             ('CanonicalPoolMetadata(filename=_f, index=_i, cleavage_params=_p)', {'_f': '*', '_i': 'Z', '_p': 'params'},
              '(mkPM (filename_of {_i}) {_i} {_p})', 'poolmeta')],
         stmt_patterns=[('self.canonical_pools.append(_x)', {'_x': 'poolmeta'}, 'pools__', '({cur} ++ [{_x}])')]),
]
VER_PATS = [
    ('self.python', {}, '(v_py cur)', 'str'), ('self.biopython', {}, '(v_bio cur)', 'str'),
    ('_v.python', {'_v': 'version'}, '(v_py {_v})', 'str'), ('_v.biopython', {'_v': 'version'}, '(v_bio {_v})', 'str'),
    ('_v.mopepgen', {'_v': 'version'}, '(v_mpg {_v})', 'str'),
    ('_a == _b', {'_a': 'str', '_b': 'str'}, '(eq_seq {_a} {_b})', 'bool'),
    ('MINIMAL_VERSION', {}, 'minimal_version', 'str'),
    ('self.get_semver(_x)', {'_x': 'str'}, '(get_semver {_x})', 'opt:ValueError:semver'),
    ('_a >= _b', {'_a': 'semver', '_b': 'semver'}, '(lex_ge {_a} {_b})', 'bool'),
]
TARGETS += [
    dict(VER, func='is_valid_mpg_version', coq_name='py_is_valid_mpg_version',
         args=[('cur', 'version'), ('ver', 'list Z')], params={'version': ('ver', 'str')},
         types={'str': 'list Z', 'semver': 'list Z'},
         ret_ty='bool', res_ty='vres', ok='(if {} then VTrue else VFalse)', stub='VRaise',
         errors={'ValueError': 'VRaise'}, raises=[], patterns=VER_PATS),
    dict(VER, func='is_valid', coq_name='py_is_valid',
         args=[('cur', 'version'), ('rec', 'version')], params={'version': ('rec', 'version')},
         types={'str': 'list Z', 'semver': 'list Z'},
         ret_ty='bool', res_ty='vres', ok='(if {} then VTrue else VFalse)', stub='VRaise',
         errors={'ValueError': 'VRaise'}, raises=[],
         patterns=VER_PATS + [
             # the call of the method translated just above (same Gen file)
             ('self.is_valid_mpg_version(_x)', {'_x': 'str'},
              '(match py_is_valid_mpg_version cur {_x} with VRaise => None | VTrue => Some true | VFalse => Some false end)',
              'opt:ValueError:bool')]),
]

# ---------------------------------------------------------------------------------------------- C14 parseREDItools
# (8) parser/REDItoolsParser.py REDItoolsRecord.get_valid_subs (threshold chain)          vs Vep.get_valid_subs
#     Trusted: the row is the model's `redi` record (base_count in the order A C G T, all_subs as (ref, alt) pairs,
#     g_coverage_q an int or None); base_count_order[alt] is Vep.base_order (None = KeyError); the float test
#     `read_count / total_count < min_frequency_alt` is the exact rational comparison with min_frequency_alt = fnum/fden
#     (fden > 0) and raises ZeroDivisionError for total_count = 0 -- the C14 generator keeps thresholds off float boundaries.
TARGETS.append(
    dict(out='Py_REDItoolsParser', file='moPepGen/parser/REDItoolsParser.py', cls='REDItoolsRecord', imports=['Model.Vep'],
         func='get_valid_subs', coq_name='py_get_valid_subs',
         args=[('th', 'thr'), ('r', 'redi')], types={'sub': '(Z * Z)'},
         params={'min_coverage_alt': ('(th_alt th)', 'Z'), 'min_frequency_alt': (None, 'opaque'),
                 'min_coverage_rna': ('(th_rna th)', 'Z'), 'min_coverage_dna': ('(th_dna th)', 'Z')},
         var_types={'valid_subs': 'list sub'},
         ret_ty='list sub', res_ty='option (list (Z * Z))', ok='(Some {})', stub='None',
         errors={'KeyError': 'None', 'IndexError': 'None', 'ZeroDivisionError': 'None', 'TypeError': 'None'}, raises=[],
         patterns=[('self.base_count', {}, '(r_counts r)', 'list Z'),
                   ('self.all_subs', {}, '(r_subs r)', 'list sub'),
                   ('self.g_coverage_q', {}, '(r_gcov r)', 'optZ'),
                   ('_s[1]', {'_s': 'sub'}, '(snd {_s})', 'Z'),
                   ('self.base_count_order[_a]', {'_a': 'Z'}, '(base_order {_a})', 'opt:KeyError:nat'),
                   ('_a / _b < min_frequency_alt', {'_a': 'Z', '_b': 'Z'},
                    '(if {_b} =? 0 then None else Some ({_a} * th_fden th <? th_fnum th * {_b}))', 'opt:ZeroDivisionError:bool')],
         stmt_patterns=[('valid_subs.append(_x)', {'_x': 'sub'}, 'valid_subs', '({cur} ++ [{_x}])')]))

# ---------------------------------------------------------------------------------------------- C19 filterFasta
# (9) aa/VariantPeptidePool.py VariantPeptidePool.filter: the per-entry decision loop            vs Filter.keep_list
#     Only `keep = []` .. `for entry in peptide_entries:` is translated; the observable is the list `keep`.
#     Trusted: an entry is the model's `entry` record (get_transcript_ids / is_fusion / is_circ_rna / is_splice_altering);
#     `x in coding_transcripts` is membership in o_coding; `all(exprs[tx] >= cutoff for tx in ids)` is Filter.all_expr
#     (KeyError, TypeError for a missing cutoff, short-circuit) on the table rows, TypeError when exprs is None.
TARGETS.append(
    dict(out='Py_VariantPeptidePool', file='moPepGen/aa/VariantPeptidePool.py', cls='VariantPeptidePool',
         func='filter', coq_name='py_keep_list',
         imports=['Model.Rule', 'Model.Digest', 'Model.Header', 'Model.Filter'],
         args=[('o', 'opts'), ('d', 'bool'), ('es', 'list entry')],
         types={'rows': '(list (str * Z))', 'coding': '(list str)'},
         params={'exprs': ('(o_exprs o)', 'opt rows'), 'cutoff': (None, 'opaque'), 'coding_transcripts': (None, 'coding'),
                 'keep_all_noncoding': ('(o_kan o)', 'bool'), 'keep_all_coding': ('(o_kac o)', 'bool'),
                 'enzyme': (None, 'opaque'), 'miscleavage_range': (None, 'opaque'), 'denylist': (None, 'opaque'),
                 'keep_canonical': ('(o_keep_canon o)', 'bool')},
         pre_env={'peptide_entries': ('es', 'list entry'), 'is_in_denylist': ('d', 'bool')},
         slice=('keep = []', 'for entry in peptide_entries:'), slice_pre=[], slice_post=['return keep'],
         var_types={'keep': 'list entry'},
         ret_ty='list entry', res_ty='res (list entry)', ok='(Ok {})', stub='Err EFuel',
         errors={'IndexError': '(Err EIndex)', 'UnboundLocalError': '(Err EFuel)'}, raises=[],
         patterns=[('_e.get_transcript_ids()', {'_e': 'entry'}, '(e_txs {_e})', 'list str'),
                   ('_e.is_fusion()', {'_e': 'entry'}, '(e_fusion {_e})', 'bool'),
                   ('_e.is_circ_rna()', {'_e': 'entry'}, '(e_circ {_e})', 'bool'),
                   ('_e.is_splice_altering()', {'_e': 'entry'}, '(e_splice {_e})', 'bool'),
                   ('_x in coding_transcripts', {'_x': 'str'}, '(mem_seq {_x} (o_coding o))', 'bool'),
                   ('all((exprs[tx] >= cutoff for tx in _t))', {'_t': 'list str'},
                    '(match o_exprs o with Some rows__ => all_expr rows__ (o_cutoff o) {_t} | None => Err EType end)', 'res bool')],
         stmt_patterns=[('keep.append(_x)', {'_x': 'entry'}, 'keep', '({cur} ++ [{_x}])')]))

# ---------------------------------------------------------------------------------------------- C13 GVF index
# (10) seqvar/GVFIndex.py iterate_pointer (byte accounting over the lines of a GVF file)      vs Gvf.iterate_pointer
#      A generator: `yield p` appends to the returned list.  Trusted: a GVFPointer is the model's (key, (start, end));
#      the pinned `if is_circ_rna: .. else: ..` parses the line with the model's abstract parser P, record.transcript_id
#      is the abstract key_of (both may raise); bytes.decode('utf-8') is the model's strict decoder Gvf.utf8_decode
#      (UnicodeDecodeError = Err EUnicode); `cur_key != key` compares a str-or-None with a str.
TARGETS.append(
    dict(out='Py_GVFIndex', file='moPepGen/seqvar/GVFIndex.py', cls=None, func='iterate_pointer',
         coq_name='py_iterate_pointer', imports=['Model.Gvf'],
         args=[('R', 'Type'), ('P', 'bool -> seq -> res R'), ('key_of', 'R -> res seq'), ('ic', 'bool'), ('lines', 'list seq')],
         types={'ptr': 'ptr', 'R': 'R', 'str': 'seq', 'bytes': 'seq'},
         params={'handle': ('lines', 'list bytes'), 'is_circ_rna': ('ic', 'bool')},
         var_types={'cur_key': 'opt str', 'pointer': 'opt ptr'},
         yields='ptr',
         ret_ty='list ptr', res_ty='res (list ptr)', ok='(Ok {})', stub='Err EKey',
         errors={'AttributeError': '(Err EType)', 'YieldNone': '(Err EType)', 'UnboundLocalError': '(Err EType)'}, raises=[],
         stmt_rewrites=[('if is_circ_rna:\n    record = circ.io.line_to_circ_model(line)\nelse:\n    record = io.line_to_variant_record(line)',
                         'record = parse_line__(is_circ_rna, line)')],
         attr_assign={('ptr', 'end'): '(fst {cur}, (fst (snd {cur}), {val}))'},
         patterns=[("_l.decode('utf-8')", {'_l': 'bytes'}, '(utf8_decode {_l})', 'res str'),   # UnicodeDecodeError = Err EUnicode
                   ('len(_l)', {'_l': 'bytes'}, '(Z.of_nat (length {_l}))', 'Z'),
                   ("_l.startswith('#')", {'_l': 'str'}, '(starts_with_chr HASH {_l})', 'bool'),
                   ('parse_line__(_c, _l)', {'_c': 'bool', '_l': 'str'}, '(P {_c} {_l})', 'res R'),
                   ('_r.transcript_id', {'_r': 'R'}, '(key_of {_r})', 'res str'),
                   ('_a != _b', {'_a': 'opt str', '_b': 'str'},
                    '(negb (match {_a} with Some k__ => eq_seq k__ {_b} | None => false end))', 'bool'),
                   ('GVFPointer(handle=handle, key=_k, start=_s, end=_e, is_circ_rna=is_circ_rna)',
                    {'_k': 'str', '_s': 'Z', '_e': 'Z'}, '({_k}, ({_s}, {_e}))', 'ptr')]))

# (11) gtf/GTFPointer.py iterate_pointer (byte accounting over the lines of a GTF file)            vs GtfPtr.iterate
#      A generator.  The model's line is (bytes, kind): what a line IS (comment / gene record g / other record of
#      transcript t) is a tag supplied with the bytes, so line.startswith('#'), GtfIO.line_to_seq_feature,
#      record.type.lower() == 'gene', record.gene_id / transcript_id are projections of that tag (trusted; the text
#      parser is C11's correspondence).  Source inference (`if not source: ...`) does not influence the pointers.
#      A pointer is truthy iff its length end - start is positive (GTFPointer.__len__); `.transcripts.add` is GtfPtr.add_tx.
GTFP_NONE = '(PErr PyTypeError)'
TARGETS.append(
    dict(out='Py_GTFPointer', file='moPepGen/gtf/GTFPointer.py', cls=None, func='iterate_pointer',
         coq_name='py_gtf_iterate_pointer', imports=['Model.GtfPtr'],
         args=[('lines', 'list line')],
         types={'line': 'line', 'dline': 'line', 'rec': 'lkind', 'key': 'Z', 'ptr': 'ptr'},
         params={'handle': ('lines', 'list line'), 'source': (None, 'opaque')},
         var_types={'cur_gene_id': 'opt key', 'cur_tx_id': 'opt key', 'cur_gene_pointer': 'opt ptr', 'cur_tx_pointer': 'opt ptr'},
         yields='ptr',
         ret_ty='list ptr', res_ty='pyres (list ptr)', ok='(POk {})', stub='PErr PyValueError',
         errors={'AttributeError': GTFP_NONE, 'YieldNone': GTFP_NONE, 'NoneValue': GTFP_NONE,
                 'UnboundLocalError': '(PErr PyUnboundLocalError)'}, raises=[],
         ignore_stmts=[r'^if not source:'],
         truthy={'opt ptr': '(match {0} with Some p__ => 0 <? p_end p__ - p_start p__ | None => false end)',
                 'ptr': '(0 <? p_end {0} - p_start {0})'},
         attr_assign={('ptr', 'end'): '(set_end {val} {cur})'},
         patterns=[('len(_l)', {'_l': 'line'}, '(Z.of_nat (length (fst {_l})))', 'Z'),
                   ("_l.decode('utf-8')", {'_l': 'line'}, '{_l}', 'dline'),
                   ("_l.startswith('#')", {'_l': 'dline'}, '(match snd {_l} with LComment => true | _ => false end)', 'bool'),
                   ('GtfIO.line_to_seq_feature(_l)', {'_l': 'dline'}, '(snd {_l})', 'rec'),
                   ("_r.type.lower() == 'gene'", {'_r': 'rec'}, '(match {_r} with LGene _ => true | _ => false end)', 'bool'),
                   ('_r.gene_id', {'_r': 'rec'}, '(match {_r} with LGene g__ => g__ | _ => 0 end)', 'key'),
                   ('_r.transcript_id', {'_r': 'rec'}, '(match {_r} with LRec t__ => t__ | _ => 0 end)', 'key'),
                   ('_a != _b', {'_a': 'opt key', '_b': 'key'},
                    '(negb (match {_a} with Some k__ => k__ =? {_b} | None => false end))', 'bool'),
                   ('GenePointer(handle, _k, _s, _e, _r.source)', {'_k': 'key', '_s': 'Z', '_e': 'Z', '_r': '*'},
                    '(mkPtr true {_k} {_s} {_e} [])', 'ptr'),
                   ('TranscriptPointer(handle, _k, _s, _e, _r.source)', {'_k': 'key', '_s': 'Z', '_e': 'Z', '_r': '*'},
                    '(mkPtr false {_k} {_s} {_e} [])', 'ptr')],
         stmt_patterns=[('cur_gene_pointer.transcripts.add(_t)', {'_t': 'key'}, 'cur_gene_pointer',
                         '(option_map (add_tx {_t}) {cur})', 'opt ptr')]))

# (12) aa/VariantPeptidePool.py VariantPeptidePool.filter, the WHOLE function (miscleavage window, denylist flag,
#      per-entry decision loop, `if keep:`)                              vs mapM Filter.filter_pep + flat_map opt_list
#      self.peptides (a set; the deduplicated pool) is the parameter `peps`; a peptide is the model's (sequence, entries).
#      Trusted, in addition to target (9): find_all_enzymatic_cleave_sites(enzyme, exception) with the pinned
#      `exception = 'trypsin_exception' if enzyme == 'trypsin' else None` is Digest.sites (o_rule o) (o_exc o);
#      from_variant_peptide_minimal(peptide) gives the entries; the label statements do not influence which entries are
#      kept; `filtered_pool.peptides.add(peptide)` records (sequence, keep).
FILTER9 = [t for t in TARGETS if t['coq_name'] == 'py_keep_list'][0]
TARGETS.append(
    dict(FILTER9, coq_name='py_filter',
         args=[('o', 'opts'), ('peps', 'list pep')],
         types={'rows': '(list (str * Z))', 'coding': '(list str)', 'pep': 'pep', 'seqs': '(list seq)'},
         params=dict(FILTER9['params'], denylist=('(o_deny o)', 'opt seqs')),
         pre_env={}, slice=None, slice_pre=[], slice_post=[],
         var_types={'keep': 'list entry', 'filtered_pool': 'list pep'},
         ret_ty='list pep', res_ty='res (list pep)', ok='(Ok {})', stub='Err EFuel',
         errors={'IndexError': '(Err EIndex)', 'UnboundLocalError': '(Err EFuel)', 'TypeError': '(Err EType)'}, raises=[],
         ignore_stmts=[r'^label_delimiter = ', r'^label = ', r'^peptide\.description = '],
         stmt_rewrites=[('filtered_pool = VariantPeptidePool()', 'filtered_pool = []'),
                        ("exception = 'trypsin_exception' if enzyme == 'trypsin' else None", 'pass'),
                        ('filtered_pool.peptides.add(peptide)', 'filtered_pool = filtered_pool + [kept__(peptide, keep)]')],
         patterns=FILTER9['patterns'] + [
             ('self.peptides', {}, 'peps', 'list pep'),
             ('any((x is not None for x in miscleavage_range))', {},
              '(negb (match o_lo o, o_hi o with None, None => true | _, _ => false end))', 'bool'),
             ('miscleavage_range[0]', {}, '(o_lo o)', 'optZ'),
             ('miscleavage_range[1]', {}, '(o_hi o)', 'optZ'),
             ('_p.find_all_enzymatic_cleave_sites(enzyme, exception)', {'_p': 'pep'},
              '(sites (o_rule o) (o_exc o) (fst {_p}))', 'list nat'),
             ('VariantPeptideInfo.from_variant_peptide_minimal(_p)', {'_p': 'pep'}, '(snd {_p})', 'list entry'),
             ('_p.seq in denylist', {'_p': 'pep'},
              '(match o_deny o with Some l__ => mem_seq (fst {_p}) l__ | None => false end)', 'bool'),
             ('[kept__(_p, _k)]', {'_p': 'pep', '_k': 'list entry'}, '[(fst {_p}, {_k})]', 'list pep')]))

# ---------------------------------------------------------------------------------------------- C07 failure handling
# (13) cli/call_variant_peptide.py call_variant_peptides_wrapper: the control flow (three try/except regions, success
#      flags, skip / re-raise, `continue` in the circRNA handler, denylist update between the fusion and circRNA loops,
#      order of add_peptide_anno)                                   vs Wrapper.wrapper shape_fixed (projected on anno, flags)
#      Trusted: a per-unit caller is the model's call_unit (raises, or returns its raw map minus the extra denylist);
#      in the fusion region ANY statement of the try body failing is the unit failing (the coordinate / pool statements
#      before the call are ignored); the canonical denylist is the empty `extra`, denylist.update adds main_peptides;
#      set(peptide_map.keys()) is Wrapper.keys; the pinned closure add_peptide_anno is Wrapper.add_peptide_anno;
#      the graph bookkeeping (dgraphs / pgraphs) and logging do not influence annotations or flags.
W_ADD = ("def add_peptide_anno(x: Dict[Seq, List[AnnotatedPeptideLabel]]):\n    for seq, seq_data in x.items():\n"
         "        val = peptide_anno.setdefault(seq, {})\n        for metadata in seq_data:\n"
         "            if metadata.label not in val:\n                val[metadata.label] = metadata")
W_OPQ = {k: (None, 'opaque') for k in ['tx_id', 'variant_series', 'tx_seqs', 'gene_seqs', 'reference_data', 'pool',
         'cleavage_params', 'noncanonical_transcripts', 'max_adjacent_as_mnv', 'truncate_sec', 'w2f_reassignment',
         'backsplicing_only', 'save_graph', 'coding_novel_orf']}
TARGETS.append(
    dict(out='Py_wrapper', file='moPepGen/cli/call_variant_peptide.py', cls=None, func='call_variant_peptides_wrapper',
         coq_name='py_wrapper', imports=['Model.Wrapper'], allow_try=True, allow_kwargs=True, tuple_first=True,
         decorators=['common.timeout()'],      # the timeout decorator is outside the model (caller_reducer handles it)
         args=[('skip', 'bool'), ('has_tx', 'bool'), ('inner', 'bool'), ('um', 'unit_'), ('fs', 'list unit_'), ('cs', 'list unit_')],
         types={'seqs': '(list seq)', 'pmap': 'pmap', 'flags3': 'flags3', 'unit_': 'unit_', 'wres': '(pmap * flags3)'},
         params=dict(W_OPQ, skip_failed=('skip', 'bool')),
         var_types={'peptide_anno': 'pmap', 'main_peptides': 'opt seqs', 'denylist': 'seqs'},
         ret_ty='wres', res_ty='res (pmap * flags3)', ok='(Ok {})', stub='Raise EInvalid',
         reraise='(Raise EUnit)',
         errors={'Exception': '(Raise EUnit)', 'NoneValue': '(Raise EUnbound)', 'UnboundLocalError': '(Raise EUnbound)'}, raises=[],
         skip_defs={'add_peptide_anno': W_ADD},
         ignore_stmts=[r'^logger', r'^dgraphs', r'^pgraphs', r'^exclude_variant_types = ', r'^donor_breakpoint_genomic = ',
                       r'^donor_breakpoint_gene = ', r'^filtered_variants = ', r'^variant_pool'],
         ignore_may_store=['variant_pool'],
         stmt_rewrites=[('peptide_anno: Dict[Seq, Dict[str, AnnotatedPeptideLabel]] = {}', 'peptide_anno = []'),
                        ('denylist = call_canonical_peptides(tx_id=tx_id, ref=reference_data, tx_seq=tx_seqs[tx_id], cleavage_params=cleavage_params, truncate_sec=truncate_sec, w2f=w2f_reassignment)',
                         'denylist = []'),
                        ('peptide_anno = {k: list(v.values()) for k, v in peptide_anno.items()}', 'pass'),
                        ('return (peptide_anno, tx_id, dgraphs, pgraphs, success_flags)', 'return result__(peptide_anno, success_flags)')],
         truthy={'opt seqs': '(match {0} with Some (_ :: _) => true | _ => false end)',
                 'seqs': '(match {0} with _ :: _ => true | [] => false end)'},
         patterns=[('variant_series.transcriptional', {}, 'has_tx', 'bool'),
                   ('not noncanonical_transcripts or variant_series.has_any_alternative_splicing()', {}, 'inner', 'bool'),
                   ('variant_series.fusion', {}, 'fs', 'list unit_'),
                   ('variant_series.circ_rna', {}, 'cs', 'list unit_'),
                   ('(True, True, True)', {}, '(true, true, true)', 'flags3'),
                   ('(False, _f[1], _f[2])', {'_f': 'flags3'}, '(clear_flag 0 {_f})', 'flags3'),
                   ('(_f[0], False, _f[2])', {'_f': 'flags3'}, '(clear_flag 1 {_f})', 'flags3'),
                   ('(_f[0], _f[1], False)', {'_f': 'flags3'}, '(clear_flag 2 {_f})', 'flags3'),
                   ('set(_m.keys())', {'_m': 'pmap'}, '(keys {_m})', 'seqs'),
                   ('result__(_a, _f)', {'_a': 'pmap', '_f': 'flags3'}, '({_a}, {_f})', 'wres'),
                   ('call_peptide_main(tx_id=_a1, tx_variants=_a2, variant_pool=_a3, ref=_a4, tx_seqs=_a5, gene_seqs=_a6, cleavage_params=_a7, max_adjacent_as_mnv=_a8, truncate_sec=_a9, w2f=_b1, denylist=_d, save_graph=_b2, coding_novel_orf=_b3)',
                    dict({k: '*' for k in ['_a1', '_a2', '_a3', '_a4', '_a5', '_a6', '_a7', '_a8', '_a9', '_b1', '_b2', '_b3']}, _d='seqs'),
                    '(call_unit um {_d})', 'opt:Exception:pmap'),
                   ('call_peptide_fusion(variant=_v, variant_pool=_a3, ref=_a4, tx_seqs=_a5, gene_seqs=_a6, cleavage_params=_a7, max_adjacent_as_mnv=_a8, w2f_reassignment=_b1, denylist=_d, save_graph=_b2, coding_novel_orf=_b3)',
                    dict({k: '*' for k in ['_a3', '_a4', '_a5', '_a6', '_a7', '_a8', '_b1', '_b2', '_b3']}, _d='seqs', _v='unit_'),
                    '(call_unit {_v} {_d})', 'opt:Exception:pmap'),
                   ('call_peptide_circ_rna(record=_v, variant_pool=_a3, gene_seqs=_a6, cleavage_params=_a7, max_adjacent_as_mnv=_a8, w2f_reassignment=_b1, denylist=_d, save_graph=_b2, backsplicing_only=_b3)',
                    dict({k: '*' for k in ['_a3', '_a6', '_a7', '_a8', '_b1', '_b2', '_b3']}, _d='seqs', _v='unit_'),
                    '(call_unit {_v} {_d})', 'opt:Exception:pmap')],
         stmt_patterns=[('add_peptide_anno(_m)', {'_m': 'pmap'}, 'peptide_anno', '(add_peptide_anno {_m} {cur})'),
                        ('denylist.update([str(x) for x in _m])', {'_m': 'seqs'}, 'denylist', '({cur} ++ {_m})')]))

# ---------------------------------------------------------------------------------------------- C04 output hygiene
# (14) svgraph/VariantPeptideTable.py VariantPeptideTable.is_valid and aa/VariantPeptidePool.py VariantPeptidePool.add_peptide
#      (filter chain + acceptance / merge decision)                  vs PepTable.is_valid / PepTable.vpool_add
#      Trusted: SeqUtils.molecular_weight(s, 'protein') < min_mw is the exact x10^4 comparison mass4 < lim_min_mw4 and
#      raises ValueError (None) on a letter outside Biopython's table (Gen/Bio.v weights obligation); str(seq) in
#      canonical_peptides is membership in the pool list; the pinned `if same_peptide: .. else: self.peptides.add(..)`
#      block with get_equivalent is PepTable.vpool_merge (label appended to an equal record, else the record added).
C04_PATS = [
    ('cleavage_params.min_mw', {}, '(lim_min_mw4 lim)', 'mw4'),
    ('cleavage_params.min_length', {}, '(lim_min_len lim)', 'Z'),
    ('cleavage_params.max_length', {}, '(lim_max_len lim)', 'Z'),
    ("SeqUtils.molecular_weight(_s, 'protein') < _m", {'_s': 'list Z', '_m': 'mw4'},
     '(if negb (valid_letters wt {_s}) then None else Some (mass4 wt water {_s} <? {_m}))', 'opt:ValueError:bool'),
    ('str(_s) in canonical_peptides', {'_s': 'list Z'}, '(mem_seq {_s} pool)', 'bool'),
]
C04_MERGE = ('if same_peptide:\n    same_peptide: Seq\n    new_label = peptide.description\n'
             '    same_peptide.description += self.peptide_delimeter + new_label\n    same_peptide.id = same_peptide.description\n'
             '    same_peptide.name = same_peptide.description\nelse:\n    self.peptides.add(peptide)')
TARGETS += [
    dict(out='Py_VariantPeptideTable', file='moPepGen/svgraph/VariantPeptideTable.py', cls='VariantPeptideTable',
         func='is_valid', coq_name='py_table_is_valid', imports=['Model.Digest', 'Model.PepTable'],
         args=[('wt', 'weight_table'), ('water', 'Z'), ('pool', 'list seq'), ('lim', 'limits'), ('p', 'list Z')],
         types={'mw4': 'Z'},
         params={'seq': ('p', 'list Z'), 'canonical_peptides': (None, 'opaque'), 'cleavage_params': (None, 'opaque')},
         ret_ty='bool', res_ty='option bool', ok='(Some {})', stub='Some true',
         errors={'ValueError': 'None'}, raises=[], patterns=C04_PATS),
    dict(out='Py_VariantPeptidePool', file='moPepGen/aa/VariantPeptidePool.py', cls='VariantPeptidePool',
         func='add_peptide', coq_name='py_pool_add_peptide',
         imports=['Model.Rule', 'Model.Digest', 'Model.Header', 'Model.Filter', 'Model.PepTable'],
         args=[('wt', 'weight_table'), ('water', 'Z'), ('pool', 'list seq'), ('lim', 'limits'), ('skip', 'bool'),
               ('vp', 'vpool'), ('p', 'list Z'), ('label', 'list Z')],
         types={'mw4': 'Z', 'vpool': 'vpool', 'vres': '(vpool * bool)'},
         params={'peptide': (None, 'pepobj'), 'canonical_peptides': (None, 'opaque'), 'cleavage_params': (None, 'opaque'),
                 'skip_checking': ('skip', 'bool')},
         pre_env={'pool__': ('vp', 'vpool')},
         ret_ty='bool', res_ty='option (vpool * bool)', ok='(Some ({pool__}, {}))', stub='None',
         errors={'ValueError': 'None'}, raises=[],
         ignore_stmts=[r'^same_peptide = get_equivalent\('],
         ignore_may_store=['same_peptide'],
         stmt_rewrites=[(C04_MERGE, 'pool__ = merge__(pool__)')],
         patterns=C04_PATS + [('_x.seq', {'_x': 'pepobj'}, 'p', 'list Z'),
                              ('merge__(_v)', {'_v': 'vpool'}, '(vpool_merge p label {_v})', 'vpool')]),
]

# ---------------------------------------------------------------------------------------------- C18 splitFasta
# (15) aa/PeptidePoolSplitter.py PeptidePoolSplitter.split: the per-peptide database decision (`sources = ..` up to the
#      `if len(sources) <= max_groups: .. else: ..`)                                         vs Split.db_key
#      Observable: the key handed to add_peptide_to_database.  Trusted: len / str / issubset of a VariantSourceSet are
#      Split.set_len / set_str / subset; get_additional_database_key(a) is str(a) + separator + 'additional' and
#      get_remaining_database_key() is 'Remaining' (their f-strings are read by harness/translate/header_cfg.py).
TARGETS.append(
    dict(out='Py_PeptidePoolSplitter', file='moPepGen/aa/PeptidePoolSplitter.py', cls='PeptidePoolSplitter', func='split',
         coq_name='py_db_key', imports=['Gen.HeaderCfg', 'Model.Header', 'Model.Split'],
         args=[('c', 'scfg'), ('S', 'list str')],
         types={'srcset': '(list str)', 'dbkey': 'str'},
         params={'max_groups': ('(c_max_groups c)', 'Z'), 'additional_split': ('(c_additional c)', 'list srcset'),
                 'tx2gene': (None, 'opaque'), 'coding_tx': (None, 'opaque')},
         slice=('sources = peptide_infos[0].sources', 'if len(sources) <= max_groups:'),
         slice_pre=['key__ = no_key__()'], slice_post=['return key__'],
         ret_ty='dbkey', res_ty='str', ok='{}', stub='[0]', errors={}, raises=[],
         patterns=[('no_key__()', {}, '[]', 'dbkey'),
                   ('peptide_infos[0].sources', {}, 'S', 'srcset'),
                   ('len(_s)', {'_s': 'srcset'}, '(set_len {_s})', 'Z'),
                   ('str(_s)', {'_s': 'srcset'}, '(set_str (c_levels c) {_s})', 'dbkey'),
                   ('_a.issubset(_s)', {'_a': 'srcset', '_s': 'srcset'}, '(subset {_a} {_s})', 'bool'),
                   ('self.get_additional_database_key(_a)', {'_a': 'srcset'},
                    '(set_str (c_levels c) {_a} ++ [cfg_key_sep] ++ s_additional)', 'dbkey'),
                   ('self.get_remaining_database_key()', {}, 's_Remaining', 'dbkey')],
         stmt_patterns=[('self.add_peptide_to_database(_k, peptide)', {'_k': 'dbkey'}, 'key__', '{_k}')]))

# (16) parser/VEPParser.py VEPRecord.convert_to_variant_record: the arms after the boundary checks (deletion with /
#      without an upstream base, strand flip of the allele, end- / start-inclusive single-position insertion, SNV,
#      two-position insertion, substitution) and the SNV / INDEL / MNV decision             vs Vep.convert_core true
#      The slice starts at `if self.allele == '-':`; the locals computed before it (gene sequence, normalised gene
#      interval, transcript start, strand) are parameters.  Trusted: str(seq.seq[a:b]) / str(seq.seq[i]) are
#      Vep.pyslice / Vep.pyindex on the gene sequence; Seq(s).reverse_complement() is Vep.revcomp; '-' is the model's
#      None allele; FeatureLocation + VariantRecord.__init__ reject end < start and len(location) != len(ref)
#      (as Vep.finish assumes); 'SNV' / 'INDEL' / 'MNV' are the type codes 0 / 1 / 2.
TARGETS.append(
    dict(out='Py_VEPParser', file='moPepGen/parser/VEPParser.py', cls='VEPRecord', func='convert_to_variant_record',
         coq_name='py_vep_convert_core', imports=['Model.Vep'],
         args=[('strand', 'Z'), ('sq', 'seq'), ('as1', 'Z'), ('ae2', 'Z'), ('ts', 'Z'), ('allele0', 'option seq')],
         types={'resvrec': '(res vrec)'},
         params={'anno': (None, 'opaque'), 'genome': (None, 'opaque')},
         pre_env={'alt_start': ('as1', 'Z'), 'alt_end': ('ae2', 'Z'), 'tx_start_genetic': ('ts', 'Z'), 'strand': ('strand', 'Z')},
         slice=("if self.allele == '-':", 'if len(ref) == len(alt) == 1:'),
         slice_pre=[], slice_post=['return vrec__(alt_start, alt_end, ref, alt, _type)'],
         ret_ty='resvrec', res_ty='res vrec', ok='{}', stub='ErrStart',
         errors={'IndexError': 'ErrIndex', 'ValueError': 'ErrValue', 'UnboundLocalError': 'ErrStop'},
         raises=[('ValueError', 'any', None, 'ErrValue')],
         patterns=[("self.allele == '-'", {}, '(match allele0 with None => true | Some _ => false end)', 'bool'),
                   ('self.allele', {}, 'allele0', 'opt:ValueError:list Z'),
                   ('str(Seq(_a).reverse_complement())', {'_a': 'list Z'}, '(revcomp {_a})', 'list Z'),
                   ('str(seq.seq[_a:_b])', {'_a': 'Z', '_b': 'Z'}, '(pyslice sq {_a} {_b})', 'list Z'),
                   ('str(seq.seq[_a])', {'_a': 'Z'}, '(option_map (fun x__ => [x__]) (pyindex sq {_a}))', 'opt:IndexError:list Z'),
                   ('str(_r)', {'_r': 'list Z'}, '{_r}', 'list Z'),
                   ('_s[:-1]', {'_s': 'list Z'}, '(removelast {_s})', 'list Z'),
                   ('_r == _c', {'_r': 'list Z', '_c': 'Z'}, '(match {_r} with [x__] => x__ =? {_c} | _ => false end)', 'bool'),
                   ("'SNV'", {}, '0', 'Z'), ("'INDEL'", {}, '1', 'Z'), ("'MNV'", {}, '2', 'Z'),
                   ('vrec__(_s, _e, _r, _a, _t)', {'_s': 'Z', '_e': 'Z', '_r': 'list Z', '_a': 'list Z', '_t': 'Z'},
                    '(if {_e} <? {_s} then ErrValue else if negb ({_e} - {_s} =? zlen {_r}) then ErrValue '
                    'else Ok (mkVrec {_s} {_e} {_r} {_a} {_t}))', 'resvrec')]))

# (17) VEPRecord.convert_to_variant_record from `strand = gene_model.strand` on: gene sequence, the four
#      coordinate_genomic_to_gene calls, transcript bounds, the strand swap of the interval, the start / stop site
#      checks and the arms of (16)                                                       vs Vep.convert true
#      Only the parsing of the Location column before it is outside (alt_start_genomic = a - 1, alt_end_genomic = b).
VEP16 = [t for t in TARGETS if t['coq_name'] == 'py_vep_convert_core'][0]
TARGETS.append(
    dict(VEP16, coq_name='py_vep_convert',
         args=[('g', 'gene'), ('t', 'txm'), ('chrom', 'seq'), ('e', 'vep')],
         pre_env={'alt_start_genomic': ('(v_a e - 1)', 'Z'), 'alt_end_genomic': ('(v_b e)', 'Z')},
         slice=('strand = gene_model.strand', 'if len(ref) == len(alt) == 1:'),
         res_ctors=['ErrValue', 'ErrStart', 'ErrStop', 'ErrIndex'],
         binds={'self.feature': 'txid', 'anno.transcripts[tx_id]': 'txmodel'},
         raises=[('TranscriptionStartSiteMutationError', 'any', None, 'ErrStart'),
                 ('TranscriptionStopSiteMutationError', 'any', None, 'ErrStop'),
                 ('ValueError', 'any', None, 'ErrValue')],
         patterns=[p for p in VEP16['patterns'] if p[0] not in ("self.allele == '-'", 'self.allele')
                   and not p[0].startswith('str(seq.seq')] + [
             ("self.allele == '-'", {}, '(match v_allele e with None => true | Some _ => false end)', 'bool'),
             ('self.allele', {}, '(v_allele e)', 'opt:ValueError:list Z'),
             ('gene_model.strand', {}, '(g_strand g)', 'Z'),
             ('gene_model.get_gene_sequence(genome[chrom_seqname])', {}, '(gene_seq g chrom)', 'res geneseq'),
             ('str(_q.seq[_a:_b])', {'_q': 'geneseq', '_a': 'Z', '_b': 'Z'}, '(pyslice {_q} {_a} {_b})', 'list Z'),
             ('str(_q.seq[_a])', {'_q': 'geneseq', '_a': 'Z'},
              '(option_map (fun x__ => [x__]) (pyindex {_q} {_a}))', 'opt:IndexError:list Z'),
             ('anno.coordinate_genomic_to_gene(_i, self.gene)', {'_i': 'Z'}, '(g2gene g {_i})', 'res Z'),
             ('_t.transcript.location.start', {'_t': 'txmodel'}, '(t_start t)', 'Z'),
             ('_t.transcript.location.end', {'_t': 'txmodel'}, '(t_end t)', 'Z'),
             ('_t.is_cds_start_nf()', {'_t': 'txmodel'}, '(t_nf t)', 'bool')],
         types={'resvrec': '(res vrec)', 'geneseq': 'seq'}))

# (18) parser/REDItoolsParser.py REDItoolsRecord.convert_to_variant_records: the per-transcript loop (slice from
#      `records = []`): try / `except ValueError as e` around get_transcript_index with the intron test on the
#      exception, re-raise otherwise, gene coordinate, get_valid_subs, one record per substitution   vs Vep.redi_loop 1
#      `_ids` (the row's transcripts of feature 'transcript') is the parameter txs; a transcript is the model's rtx.
#      Trusted: tx_model.get_transcript_index is Vep.get_transcript_index (TIntron = ValueError(ERROR_INDEX_IN_INTRON),
#      TRange = the other ValueError), self.get_valid_subs(..) is Vep.get_valid_subs (target 8), the VariantRecord built
#      for a substitution is the model's (transcript, gene position, ref, alt).
TARGETS.append(
    dict(out='Py_REDItoolsParser', file='moPepGen/parser/REDItoolsParser.py', cls='REDItoolsRecord',
         func='convert_to_variant_records', coq_name='py_redi_convert', imports=['Model.Vep'],
         args=[('th', 'thr'), ('r', 'redi'), ('txs', 'list rtx')],
         types={'sub': '(Z * Z)', 'rtx': 'rtx', 'txm2': 'rtx', 'geneid': 'gene', 'genem': 'gene', 'rrec': 'rrec', 'tidx': 'tidx'},
         params={'anno': (None, 'opaque'), 'min_coverage_alt': (None, 'opaque'), 'min_frequency_alt': (None, 'opaque'),
                 'min_coverage_rna': (None, 'opaque'), 'min_coverage_dna': (None, 'opaque')},
         pre_env={'_ids': ('txs', 'list rtx')},
         slice=('records = []', 'for tx_id in _ids:'), slice_pre=[], slice_post=['return records'],
         var_types={'records': 'list rrec'},
         allow_try=True, caught_types=['ValueError'], reraise='ErrValue',
         res_ctors=['ErrValue', 'ErrStart', 'ErrStop', 'ErrIndex'],
         res_types={'tidx': {'ok': 'TOk', 'errs': ['TRange', 'TIntron']}},
         ret_ty='list rrec', res_ty='res (list rrec)', ok='(Ok {})', stub='ErrStop',
         errors={'KeyError': 'ErrIndex', 'UnboundLocalError': 'ErrStop'}, raises=[],
         ignore_stmts=[r'^genomic_location = ', r'^strand = ', r'^location = ', r'^_id = ', r'^attrs = '],
         ignore_may_store=['location', '_id', 'attrs'],     # only named in the untranslated arguments of VariantRecord(..)
         patterns=[('anno.transcripts[_t]', {'_t': 'rtx'}, '{_t}', 'txm2'),
                   ('_m.get_transcript_index(self.position - 1)', {'_m': 'txm2'},
                    '(get_transcript_index (g_strand (x_gene {_m})) (x_exons {_m}) (r_pos r - 1))', 'resx:tidx:Z'),
                   ('_e.args[0] == ERROR_INDEX_IN_INTRON', {'_e': 'tidx'}, '(match {_e} with TIntron => true | _ => false end)', 'bool'),
                   ('_m.transcript.gene_id', {'_m': 'txm2'}, '(x_gene {_m})', 'geneid'),
                   ('anno.genes[_g]', {'_g': 'geneid'}, '{_g}', 'genem'),
                   ('anno.coordinate_genomic_to_gene(self.position - 1, _g)', {'_g': 'geneid'}, '(g2gene {_g} (r_pos r - 1))', 'res Z'),
                   ('self.get_valid_subs(min_coverage_alt=min_coverage_alt, min_frequency_alt=min_frequency_alt, min_coverage_rna=min_coverage_rna, min_coverage_dna=min_coverage_dna)',
                    {}, '(get_valid_subs th r)', 'opt:KeyError:list sub'),
                   ('_s[0]', {'_s': 'sub'}, '(fst {_s})', 'Z'), ('_s[1]', {'_s': 'sub'}, '(snd {_s})', 'Z'),
                   ('mk_record__(_t, _p, _r, _a)', {'_t': 'rtx', '_p': 'Z', '_r': 'Z', '_a': 'Z'},
                    '(x_id {_t}, {_p}, {_r}, {_a})', 'rrec')],
         stmt_rewrites=[("record = VariantRecord(location=location, ref=ref, alt=alt, _type='RNAEditingSite', _id=_id, attrs=attrs)", 'record = mk_record__(tx_id, position, ref, alt)')],
         stmt_patterns=[('records.append(_x)', {'_x': 'rrec'}, 'records', '({cur} ++ [{_x}])')]))

# ---------------------------------------------------------------------------------------------- C15 fusion parsers
# (19) parser/STARFusionParser.py / ArribaParser.py / FusionCatcherParser.py  <Tool>Record.convert_to_variant_records
#      (the ORDER of the look-ups decides which exception escapes)                        vs Fusion.convert <tool>
#      Trusted: anno.genes[id] is Fusion.lookup_gene (KeyError = unknown id); anno.coordinate_genomic_to_gene(p, id) is
#      lift (Rmats.g2gene) on the gene just looked up; get_donor_transcripts / get_accepter_transcripts are
#      txs_with_position at breakpoint - 1; genome[chrom].seq[i] / .seq[i:i+1].reverse_complement() are the base / the
#      complemented base or '' of the donor's chromosome (Fusion.ref_base); itertools.product is Fusion.product;
#      the VariantRecord built in the loop is the model's frec and raises ValueError for an empty REF; symbols,
#      genomic-position strings and the attrs dict do not influence it.
def fusion_target(out, fname, cls, tool, coq_name, dgid, agid, lpos, rpos, ref_off, call_style):
    CONV = ("record = seqvar.VariantRecord(location=location, ref=ref_seq, alt='<FUSION>', _type='Fusion', "
            "_id=fusion_id, attrs=attrs)")
    pats = [
        ('anno.genes[self.%s]' % dgid, {}, '(match lookup_gene genes dg with FOk g__ => Some g__ | FErr _ => None end)', 'opt:KeyError:wgene'),
        ('anno.genes[self.%s]' % agid, {}, '(match lookup_gene genes ag with FOk g__ => Some g__ | FErr _ => None end)', 'opt:KeyError:wgene'),
        ('self.%s' % lpos, {}, 'L', 'Z'), ('self.%s' % rpos, {}, 'R', 'Z'),
        ('_m.strand', {'_m': 'wgene'}, '(g_strand (w_gene {_m}))', 'Z'),
        ('genome[donor_chrom].seq[_i]', {'_i': 'Z'},
         '(match nthZ (chrom_of chroms (w_chrom DONOR)) {_i} with Some c__ => Some (Some c__) | None => None end)', 'opt:IndexError:optref'),
        ('genome[donor_chrom].seq[_a:_a + 1].reverse_complement()', {'_a': 'Z'},
         '(match nthZ (chrom_of chroms (w_chrom DONOR)) {_a} with Some c__ => Some (comp c__) | None => None end)', 'optref'),
        ('str(_r)', {'_r': 'optref'}, '{_r}', 'optref'),
        ('itertools.product(_a, _b)', {'_a': 'list Z', '_b': 'list Z'}, '(product {_a} {_b})', 'list pairZ'),
        ('_t.transcript.transcript_id', {'_t': 'Z'}, '{_t}', 'Z'),
        ('mk_fusion__(_d, _a, _p, _q, _r)', {'_d': 'Z', '_a': 'Z', '_p': 'Z', '_q': 'Z', '_r': 'optref'},
         '(match {_r} with Some c__ => Some (mkF {_d} {_a} {_p} {_q} c__) | None => None end)', 'opt:ValueError:frec'),
    ] + call_style
    return dict(out=out, file='moPepGen/parser/%s.py' % fname, cls=cls, func='convert_to_variant_records', coq_name=coq_name,
                imports=['Model.Rmats', 'Model.Fusion'],
                args=[('genes', 'list wgene'), ('chroms', 'list (list Z)'), ('dg', 'Z'), ('ag', 'Z'), ('L', 'Z'), ('R', 'Z')],
                types={'wgene': 'wgene', 'optref': '(option Z)', 'pairZ': '(Z * Z)', 'frec': 'frec'},
                pair_types={'pairZ': ('Z', 'Z')},
                params={'anno': (None, 'opaque'), 'genome': (None, 'opaque')},
                var_types={'records': 'list frec'},
                allow_try=True, caught_types=['KeyError'], res_names=('FOk', 'FErr'),
                ret_ty='list frec', res_ty='fres (list frec)', ok='(FOk {})', stub='FErr FGeneNotFound',
                errors={'KeyError': '(FErr FGeneNotFound)', 'IndexError': '(FErr FIndex)', 'ValueError': '(FErr FValue)',
                        'UnboundLocalError': '(FErr FValue)'},
                raises=[('err.GeneNotFoundError', 'any', None, '(FErr FGeneNotFound)'), ('ValueError', 'any', None, '(FErr FValue)'),
                        ('IndexError', 'any', None, '(FErr FIndex)')],
                ignore_stmts=[r'^donor_gene_symbol = ', r'^accepter_gene_symbol = ', r'^donor_chrom = ', r'^accepter_chrom = ',
                              r'^location = ', r'^attrs = ', r'^donor_genome_position = ', r'^accepter_genome_position = ',
                              r'^fusion_id = '],
                ignore_may_store=['donor_chrom', 'location', 'attrs'],     # donor_chrom only inside the genome[..] patterns
                stmt_rewrites=[(CONV, 'record = mk_fusion__(donor_tx_id, accepter_tx_id, donor_position, accepter_position, ref_seq)')],
                patterns=pats,
                stmt_patterns=[('records.append(_x)', {'_x': 'frec'}, 'records', '({cur} ++ [{_x}])')])

def _sub(pats, donor):
    return [(p[0], p[1], p[2].replace('DONOR', donor), p[3]) for p in pats]

_star = fusion_target('Py_STARFusionParser', 'STARFusionParser', 'STARFusionRecord', 'Star', 'py_star_convert',
    'left_gene', 'right_gene', 'left_breakpoint_position', 'right_breakpoint_position', 1, [
        ('anno.coordinate_genomic_to_gene(_p, self.left_gene)', {'_p': 'Z'}, '(lift (g2gene (w_gene v_donor_model) {_p}))', 'res Z'),
        ('anno.coordinate_genomic_to_gene(_p, self.right_gene)', {'_p': 'Z'}, '(lift (g2gene (w_gene v_accepter_model) {_p}))', 'res Z'),
        ('self.get_donor_transcripts(anno)', {}, '(txs_with_position (g_txs (w_gene v_donor_model)) (L - 1) 0)', 'list Z'),
        ('self.get_accepter_transcripts(anno)', {}, '(txs_with_position (g_txs (w_gene v_accepter_model)) (R - 1) 0)', 'list Z')])
_star['patterns'] = _sub(_star['patterns'], 'v_donor_model')
_arriba = fusion_target('Py_ArribaParser', 'ArribaParser', 'ArribaRecord', 'Arriba', 'py_arriba_convert',
    'gene_id1', 'gene_id2', 'breakpoint1_position', 'breakpoint2_position', 0, [
        ('anno.coordinate_genomic_to_gene(_p, self.gene_id1)', {'_p': 'Z'}, '(lift (g2gene (w_gene v_donor_gene_model) {_p}))', 'res Z'),
        ('anno.coordinate_genomic_to_gene(_p, self.gene_id2)', {'_p': 'Z'}, '(lift (g2gene (w_gene v_accepter_gene_model) {_p}))', 'res Z'),
        ('self.get_donor_transcripts(anno)', {}, '(txs_with_position (g_txs (w_gene v_donor_gene_model)) (L - 1) 0)', 'list Z'),
        ('self.get_accepter_transcripts(anno)', {}, '(txs_with_position (g_txs (w_gene v_accepter_gene_model)) (R - 1) 0)', 'list Z')])
_arriba['patterns'] = _sub(_arriba['patterns'], 'v_donor_gene_model')
TARGETS += [_star, _arriba]

# FusionCatcher: both arms of `if pattern.search(self.five_end_gene_id)` (versioned id: anno.genes[..]; unversioned id:
# anno.get_gene_model_from_unversioned_id(..), which raises GeneNotFoundError itself) resolve to the model's gene index;
# `versioned` is a parameter of the generated function and the equality holds for both values.
_fc = fusion_target('Py_FusionCatcherParser', 'FusionCatcherParser', 'FusionCatcherRecord', 'FC', 'py_fc_convert',
    'five_end_gene_id', 'three_end_gene_id', 'left_breakpoint_position', 'right_breakpoint_position', 0, [
        ('pattern.search(self.five_end_gene_id)', {}, 'versioned', 'bool'),
        ('self.five_end_gene_id', {}, 'dg', 'gidx'), ('self.three_end_gene_id', {}, 'ag', 'gidx'),
        ('anno.get_gene_model_from_unversioned_id(self.five_end_gene_id)', {},
         '(match lookup_gene genes dg with FOk g__ => Some g__ | FErr _ => None end)', 'opt:err.GeneNotFoundError:wgene'),
        ('anno.get_gene_model_from_unversioned_id(self.three_end_gene_id)', {},
         '(match lookup_gene genes ag with FOk g__ => Some g__ | FErr _ => None end)', 'opt:err.GeneNotFoundError:wgene'),
        ('donor_gene_model.gene_id', {}, 'dg', 'gidx'), ('accepter_gene_model.gene_id', {}, 'ag', 'gidx'),
        ('anno.coordinate_genomic_to_gene(index=_p, gene=donor_gene_id)', {'_p': 'Z'}, '(lift (g2gene (w_gene v_donor_gene_model) {_p}))', 'res Z'),
        ('anno.coordinate_genomic_to_gene(index=_p, gene=accepter_gene_id)', {'_p': 'Z'}, '(lift (g2gene (w_gene v_accepter_gene_model) {_p}))', 'res Z'),
        ('self.get_donor_transcripts(anno, donor_gene_id)', {}, '(txs_with_position (g_txs (w_gene v_donor_gene_model)) (L - 1) 0)', 'list Z'),
        ('self.get_accepter_transcripts(anno, accepter_gene_id)', {}, '(txs_with_position (g_txs (w_gene v_accepter_gene_model)) (R - 1) 0)', 'list Z')])
_fc['patterns'] = [p for p in _sub(_fc['patterns'], 'v_donor_gene_model') if p[0] not in ('self.five_end_gene_id', 'self.three_end_gene_id')] \
    + [('self.five_end_gene_id', {}, 'dg', 'gidx'), ('self.three_end_gene_id', {}, 'ag', 'gidx')]
_fc['args'] = [('versioned', 'bool')] + _fc['args']
_fc['types'] = dict(_fc['types'], gidx='Z')
_fc['errors'] = dict(_fc['errors'], **{'err.GeneNotFoundError': '(FErr FGeneNotFound)'})
_fc['ignore_stmts'] = _fc['ignore_stmts'] + [r'^pattern = ']
_fc['ignore_may_store'] = _fc['ignore_may_store'] + ['pattern']        # only inside the pattern.search(..) pattern
_fc['stmt_rewrites'] = [(_fc['stmt_rewrites'][0][0],
                         'record = mk_fusion__(donor_tx_id, accepter_tx_id, left_breakpoint_genetic, right_breakpoint_genetic, ref_seq)')]
TARGETS.append(_fc)

# (20) cli/parse_star_fusion.py / parse_fusion_catcher.py / parse_arriba.py: the record loop with the evidence
#      filter, the two except handlers (GeneNotFoundError counted; anything else counted under --skip-failed, else
#      re-raised) and the tally                                                            vs Fusion.cli <tool>
#      Slice `variants = []` .. `for record in ...parse(..)`; observable (variants paired with their row, tally).
#      Trusted: a parsed record is the model's row; record.convert_to_variant_records is Fusion.convert <tool> (tied to
#      its own code by (19)); tally.skipped.total is the derived t_skipped (its increments are ignored); the tally
#      object starts at tally0.
def _bumpf(field):
    fs = ['t_total', 't_succeed', 't_insufficient', 't_invalid_gene', 't_invalid_pos', 't_antisense']
    return '(mkT ' + ' '.join('(%s {cur} + 1)' % f if f == field else '(%s {cur})' % f for f in fs) + ')'
def fusion_cli(fname, func, tool, coq_name, parse_call, filters):
    return dict(out='Py_' + fname, file='moPepGen/cli/%s.py' % fname, cls=None, func=func, coq_name=coq_name,
        imports=['Model.Rmats', 'Model.Fusion'],
        args=[('genes', 'list wgene'), ('chroms', 'list (list Z)'), ('o', 'opts'), ('rows', 'list row')],
        types={'row': 'row', 'frec': 'frec', 'rf': '(row * frec)', 'tally': 'tally', 'cres': '(list (row * frec) * tally)', 'ferr': 'ferr'},
        params={'args': (None, 'opaque')},
        pre_env={'tally__': ('tally0', 'tally')},
        slice=('variants: List[seqvar.VariantRecord] = []', 'for record in %s:' % parse_call),
        slice_pre=[], slice_post=['return result__(variants, tally__)'],
        var_types={'variants': 'list rf'},
        allow_try=True, caught_types=['err.GeneNotFoundError'], res_names=('FOk', 'FErr'), res_err_type='ferr',
        handler_tests={'err.GeneNotFoundError': '(match {e} with FGeneNotFound => true | _ => false end)'},
        reraise='(FErr {e})',
        ret_ty='cres', res_ty='fres (list (row * frec) * tally)', ok='(FOk {})', stub='FErr FValue',
        errors={}, raises=[],
        ignore_stmts=[r'^tally\.skipped\.total \+= 1$'],
        stmt_rewrites=[('variants: List[seqvar.VariantRecord] = []', 'variants = []')],
        patterns=[(parse_call, {}, 'rows', 'list row'),
                  ('_r.convert_to_variant_records(anno, genome)', {'_r': 'row'},
                   '(convert %s genes chroms (r_dg {_r}) (r_ag {_r}) (r_L {_r}) (r_R {_r}))' % tool, 'res list frec'),
                  ('args.skip_failed', {}, '(o_skip_failed o)', 'bool'),
                  ('result__(_v, _t)', {'_v': 'list rf', '_t': 'tally'}, '({_v}, {_t})', 'cres')] + filters,
        stmt_patterns=[('variants.extend(_v)', {'_v': 'list frec'}, 'variants', '({cur} ++ map (fun x__ => (v_record, x__)) {_v})'),
                       ('tally.total += 1', {}, 'tally__', _bumpf('t_total')),
                       ('tally.succeed += 1', {}, 'tally__', _bumpf('t_succeed')),
                       ('tally.skipped.insufficient_evidence += 1', {}, 'tally__', _bumpf('t_insufficient')),
                       ('tally.skipped.invalid_gene_id += 1', {}, 'tally__', _bumpf('t_invalid_gene')),
                       ('tally.skipped.invalid_position += 1', {}, 'tally__', _bumpf('t_invalid_pos')),
                       ('tally.skipped.antisense_strand += 1', {}, 'tally__', _bumpf('t_antisense'))])
TARGETS.append(fusion_cli('parse_star_fusion', 'parse_star_fusion', 'Star', 'py_star_cli', 'parser.STARFusionParser.parse(fusion)',
    [('_r.est_j', {'_r': 'row'}, '(r_e1 {_r})', 'Z'), ('args.min_est_j', {}, '(o_1 o)', 'Z')]))
TARGETS.append(fusion_cli('parse_fusion_catcher', 'parse_fusion_catcher', 'FC', 'py_fc_cli', 'parser.FusionCatcherParser.parse(fusion)',
    [('_r.counts_of_common_mapping_reads', {'_r': 'row'}, '(r_e1 {_r})', 'Z'), ('args.max_common_mapping', {}, '(o_1 o)', 'Z'),
     ('_r.spanning_unique_reads', {'_r': 'row'}, '(r_e2 {_r})', 'Z'), ('args.min_spanning_unique', {}, '(o_2 o)', 'Z')]))
_arr_cli = fusion_cli('parse_arriba', 'parse_arriba', 'Arriba', 'py_arriba_cli', 'parser.ArribaParser.parse(handle)',
    [('_r.gene_id1 in anno.genes', {'_r': 'row'}, '(known genes (r_dg {_r}))', 'bool'),
     ('_r.gene_id2 in anno.genes', {'_r': 'row'}, '(known genes (r_ag {_r}))', 'bool'),
     # ArribaRecord.is_valid / transcript_on_antisense_strand: trusted to be the model's evidence and strand tests
     ('_r.is_valid(min_split_read1, min_split_read2, min_confidence)', {'_r': 'row'},
      '((r_e1 {_r} >=? o_1 o) && (r_e2 {_r} >=? o_2 o) && (r_e3 {_r} >=? o_3 o))', 'bool'),
     ('_r.transcript_on_antisense_strand(anno)', {'_r': 'row'},
      '(negb (r_s1 {_r} =? strand_of genes (r_dg {_r})) || negb (r_s2 {_r} =? strand_of genes (r_ag {_r})))', 'bool')])
_arr_cli['slice'] = ('variants: List[seqvar.VariantRecord] = []', "with open(fusion, 'rt') as handle:")
_arr_cli['allow_with'] = ["open(fusion, 'rt')"]
TARGETS.append(_arr_cli)

# ---------------------------------------------------------------------------------------------- C17 parseCIRCexplorer
# (21) parser/CIRCexplorerParser.py CIRCexplorer2KnownRecord.convert_to_circ_rna (inherited by CIRCexplorer3: the two
#      column layouts differ only in is_valid)                                              vs Circ.convert_circ
#      Trusted: the record is the model's cerec (circ_type 'circRNA' / 'ciRNA' = 0 / 1), the annotation seen by the
#      record is the model's canno (transcript strand = gene strand); anno.coordinate_genomic_to_gene is of_res (g2gene);
#      anno.find_exon_index / find_intron_index are the model's functions (ExonNotFoundError = None);
#      FeatureLocation(start, end) raises ValueError for end < start; a fragment is its (start, end); the never-read
#      list fragment_ids, the id / location strings and the gene name do not influence the emitted model.
TARGETS.append(
    dict(out='Py_CIRCexplorerParser', file='moPepGen/parser/CIRCexplorerParser.py', cls='CIRCexplorer2KnownRecord',
         func='convert_to_circ_rna', coq_name='py_convert_circ', imports=['Model.Vep', 'Model.Circ'],
         args=[('a', 'canno'), ('r', 'cerec'), ('sr', 'Z * Z'), ('er', 'Z * Z')],
         types={'frag': '(Z * Z)', 'circ': 'circ', 'ftype': 'Z', 'ctype': 'Z'},
         params={'anno': (None, 'opaque'), 'intron_start_range': (None, 'opaque'), 'intron_end_range': (None, 'opaque')},
         binds={'self.isoform_name': 'txid', 'anno.transcripts[tx_id]': 'txmodel', 'tx_model.transcript.gene_id': 'geneid'},
         var_types={'fragments': 'list frag', 'intron': 'list Z'},
         res_names=('COk', 'CErr'), res_ctors=['CErrValue', 'CErrExon', 'CErrIntron', 'CErrIndex'],
         ret_ty='circ', res_ty='cres circ', ok='(COk {})', stub='CErrExon',
         errors={'IndexError': 'CErrIndex', 'ValueError': 'CErrValue', 'err.ExonNotFoundError': 'CErrExon',
                 'UnboundLocalError': 'CErrValue'},
         raises=[('ValueError', 'any', None, 'CErrValue')],
         ignore_stmts=[r'^fragment_ids', r'^genomic_location = ', r'^circ_id = '],
         ignore_may_store=['genomic_location', 'circ_id'],
         patterns=[('tx_model.transcript.strand', {}, '(g_strand (ca_gene a))', 'Z'),
                   ("self.circ_type == 'circRNA'", {}, '(ce_type r =? 0)', 'bool'),
                   ("self.circ_type == 'ciRNA'", {}, '(ce_type r =? 1)', 'bool'),
                   ("'exon'", {}, '0', 'Z'), ("'intron'", {}, '1', 'Z'),
                   ('self.exon_sizes', {}, '(ce_sizes r)', 'list Z'), ('self.exon_offsets', {}, '(ce_offsets r)', 'list Z'),
                   ('self.start', {}, '(ce_start r)', 'Z'), ('self.end', {}, '(ce_end r)', 'Z'),
                   ('anno.coordinate_genomic_to_gene(_p, gene_id)', {'_p': 'Z'}, '(of_res (g2gene (ca_gene a) {_p}))', 'res Z'),
                   ('FeatureLocation(seqname=_n, start=_s, end=_e, strand=strand)', {'_n': '*', '_s': 'Z', '_e': 'Z'},
                    '(if {_e} <? {_s} then None else Some ({_s}, {_e}))', 'opt:ValueError:frag'),
                   ('FeatureLocation(seqname=_n, start=_s, end=_e)', {'_n': '*', '_s': 'Z', '_e': 'Z'},
                    '(if {_e} <? {_s} then None else Some ({_s}, {_e}))', 'opt:ValueError:frag'),
                   ('SeqFeature(chrom=_c, location=_l, attributes={}, type=_t)', {'_c': '*', '_t': '*', '_l': 'frag'}, '{_l}', 'frag'),
                   ('anno.find_exon_index(tx_id, _f)', {'_f': 'frag'}, '(find_exon_index a {_f})', 'opt:err.ExonNotFoundError:Z'),
                   ('anno.find_intron_index(tx_id, _f, intron_start_range=intron_start_range, intron_end_range=intron_end_range)',
                    {'_f': 'frag'}, '(find_intron_index a {_f} sr er)', 'res Z'),
                   ('CircRNAModel(transcript_id=_a1, fragments=_f, intron=_i, _id=_a2, gene_id=_a3, gene_name=_a4, genomic_location=_a5, backsplicing_site=_b)',
                    {'_a1': '*', '_a2': '*', '_a3': '*', '_a4': '*', '_a5': '*', '_f': 'list frag', '_i': 'list Z', '_b': 'frag'},
                    '(mkCirc {_f} {_i} (fst {_b}) (snd {_b}))', 'circ')],
         stmt_patterns=[('fragments.append(_x)', {'_x': 'frag'}, 'fragments', '({cur} ++ [{_x}])'),
                        ('intron.append(_x)', {'_x': 'Z'}, 'intron', '({cur} ++ [{_x}])')]))

# ---------------------------------------------------------------------------------------------- C16 parseRMATS
# (22) parser/RMATSParser/RIRecord.py RIRecord.convert_to_variant_records: the exon scan of ONE transcript (slice
#      `it = iter(model.exon)` .. `while exon:`; iterator protocol: next(it, None))                vs Rmats.ri_scan
#      Observable: (was the transcript appended to spliced_in_ref?, how often to retained_in_ref).  `model.exon` is the
#      parameter exons (ascending (start, end)); a SeqFeature is truthy (Bio defines __bool__); int(location.start/end)
#      are the pair's components.  The `ds < exon_end` test is thereby tied to the source body, not only to the constant
#      Gen/RmatsConst.ri_end_slack.
TARGETS.append(
    dict(out='Py_RIRecord', file='moPepGen/parser/RMATSParser/RIRecord.py', cls='RIRecord', func='convert_to_variant_records',
         coq_name='py_ri_scan', imports=['Model.Rmats'],
         args=[('exons', 'list exon'), ('ue', 'Z'), ('ds', 'Z')],
         types={'exon': 'exon', 'scanres': '(bool * Z)'},
         params={'anno': (None, 'opaque'), 'genome': (None, 'opaque'), 'min_ijc': (None, 'opaque'), 'min_sjc': (None, 'opaque')},
         slice=('it = iter(model.exon)', 'while exon:'),
         slice_pre=['spliced__ = False', 'retained__ = 0'], slice_post=['return result__(spliced__, retained__)'],
         ret_ty='scanres', res_ty='pyres (bool * Z)', ok='(POk {})', stub='PErr PyValueError',
         errors={'NoneValue': '(PErr PyTypeError)', 'OutOfFuel': '(PErr PyOutOfFuel)', 'UnboundLocalError': '(PErr PyUnboundLocalError)'},
         raises=[], fuel=['(S (length exons))'],
         truthy={'opt exon': '(match {0} with Some _ => true | None => false end)'},
         patterns=[('model.exon', {}, 'exons', 'list exon'),
                   ('int(_e.location.start)', {'_e': 'exon'}, '(fst {_e})', 'Z'),
                   ('int(_e.location.end)', {'_e': 'exon'}, '(snd {_e})', 'Z'),
                   ('self.upstream_exon_end', {}, 'ue', 'Z'), ('self.downstream_exon_start', {}, 'ds', 'Z'),
                   ('result__(_s, _n)', {'_s': 'bool', '_n': 'Z'}, '({_s}, {_n})', 'scanres')],
         stmt_patterns=[('spliced_in_ref.append(tx_id)', {}, 'spliced__', 'true'),
                        ('retained_in_ref.append(tx_id)', {}, 'retained__', '({cur} + 1)')]))

# ---------------------------------------------------------------------------------------------- C06 record order / identity
# (23) SeqFeature.py FeatureLocation.__eq__ / __gt__ and seqvar/VariantRecord.py VariantRecord.__eq__ / __gt__ / __ge__ /
#      __lt__ / __le__ / __hash__                                                          vs Model/VarRecord.v
#      Trusted: a str is a code-point list, `==` on str is eq_seq and `>` on str is VarRecord.str_gtb (lexicographic by code
#      point); the strand is one of None / 0 / -1 / 1 (Biopython's setter rejects anything else), so _STRAND_LEVELS[..]
#      (text pinned below) is VarRecord.strand_level and cannot raise KeyError; start / end are ints; `self.attrs.get(K)`
#      for the eleven keys below is slot k of the model's option list (None = key absent); hash(tuple) is a function of
#      the tuple (the generated function returns the tuple as a tagged list); `self == other`, `self > other`,
#      `self >= other` on records are the methods translated just above (same Gen file), `==` / `>` on locations are
#      the translated FeatureLocation methods.
HASH_ATTRS = ['DONOR_TRANSCRIPT_ID', 'START', 'END', 'DONOR_START', 'DONOR_END', 'LEFT_INSERT_START', 'LEFT_INSERT_END',
              'RIGHT_INSERT_START', 'RIGHT_INSERT_END', 'ACCEPTER_TRANSCRIPT_ID', 'ACCEPTER_POSITION']
VR_TYPES = {'str': 'seq', 'optstr': 'option seq', 'hkey': 'list hval'}
LOCPATS = [
    ('self.start', {}, '(l_start a)', 'Z'), ('self.end', {}, '(l_end a)', 'Z'), ('self.strand', {}, '(l_strand a)', 'strand'),
    ('_l.start', {'_l': 'loc'}, '(l_start {_l})', 'Z'), ('_l.end', {'_l': 'loc'}, '(l_end {_l})', 'Z'),
    ('_l.strand', {'_l': 'loc'}, '(l_strand {_l})', 'strand'),
    ('_a == _b', {'_a': 'strand', '_b': 'strand'}, '(strand_eqb {_a} {_b})', 'bool'),
    ('_STRAND_LEVELS[_s]', {'_STRAND_LEVELS': 'literal', '_s': 'strand'}, '(strand_level {_s})', 'Z'),
]
FLOC = dict(out='Py_VariantRecord', file='moPepGen/SeqFeature.py', cls='FeatureLocation', imports=['Model.VarRecord'],
            types=VR_TYPES, module_consts={'_STRAND_LEVELS': '{None: 0, 0: 1, -1: 2, 1: 3}'},
            args=[('a', 'loc'), ('b', 'loc')], params={'other': ('b', 'loc')},
            ret_ty='bool', res_ty='bool', ok='{}', errors={}, raises=[], patterns=LOCPATS)
VRPATS = [
    ('self.location', {}, '(v_loc a)', 'loc'), ('self.ref', {}, '(v_ref a)', 'str'), ('self.alt', {}, '(v_alt a)', 'str'),
    ('self.type', {}, '(v_type a)', 'str'),
    ('_r.location', {'_r': 'vrec'}, '(v_loc {_r})', 'loc'), ('_r.ref', {'_r': 'vrec'}, '(v_ref {_r})', 'str'),
    ('_r.alt', {'_r': 'vrec'}, '(v_alt {_r})', 'str'), ('_r.type', {'_r': 'vrec'}, '(v_type {_r})', 'str'),
    ('_l.start', {'_l': 'loc'}, '(l_start {_l})', 'Z'), ('_l.end', {'_l': 'loc'}, '(l_end {_l})', 'Z'),
    ('_a == _b', {'_a': 'loc', '_b': 'loc'}, '(py_loc_eq {_a} {_b})', 'bool'),
    ('_a > _b', {'_a': 'loc', '_b': 'loc'}, '(py_loc_gt {_a} {_b})', 'bool'),
    ('_a == _b', {'_a': 'str', '_b': 'str'}, '(eq_seq {_a} {_b})', 'bool'),
    ('_a > _b', {'_a': 'str', '_b': 'str'}, '(str_gtb {_a} {_b})', 'bool'),
]
VREC = dict(out='Py_VariantRecord', file='moPepGen/seqvar/VariantRecord.py', cls='VariantRecord', imports=['Model.VarRecord'],
            types=VR_TYPES, args=[('a', 'vrec'), ('b', 'vrec')], params={'other': ('b', 'vrec')},
            ret_ty='bool', res_ty='bool', ok='{}', errors={}, raises=[])
TARGETS += [
    dict(FLOC, func='__eq__', coq_name='py_loc_eq', stub='negb (loc_eqb a b)'),
    dict(FLOC, func='__gt__', coq_name='py_loc_gt', stub='negb (loc_gtb a b)'),
    dict(VREC, func='__eq__', coq_name='py_vr_eq', stub='negb (vr_eq a b)', patterns=VRPATS),
    dict(VREC, func='__gt__', coq_name='py_vr_gt', stub='negb (vr_gt a b)', patterns=VRPATS),
    dict(VREC, func='__ge__', coq_name='py_vr_ge', stub='negb (vr_ge a b)',
         patterns=[('self == other', {}, '(py_vr_eq a b)', 'bool'), ('self > other', {}, '(py_vr_gt a b)', 'bool')]),
    dict(VREC, func='__lt__', coq_name='py_vr_lt', stub='negb (vr_lt a b)',
         patterns=[('self >= other', {}, '(py_vr_ge a b)', 'bool')]),
    dict(VREC, func='__le__', coq_name='py_vr_le', stub='negb (vr_le a b)',
         patterns=[('self > other', {}, '(py_vr_gt a b)', 'bool')]),
    dict(VREC, func='__hash__', coq_name='py_vr_hash_key', args=[('a', 'vrec')], params={},
         ret_ty='hkey', res_ty='list hval', stub='[]',
         tuple_wrap={'elem': {'Z': '(HZ {})', 'str': '(HS {})', 'optstr': '(HO {})'}, 'ty': 'hkey'},
         patterns=VRPATS + [('hash(_t)', {'_t': 'hkey'}, '{_t}', 'hkey')] +
                  [("self.attrs.get('%s')" % k, {}, '(attr a %d%%nat)' % i, 'optstr') for i, k in enumerate(HASH_ATTRS)]),
]

# ---------------------------------------------------------------------------------------------- C11 CDS sequence
# (24) gtf/TranscriptAnnotationModel.py get_cdna_sequence: from the empty-CDS test to the single reverse complement
#      (segment loop in list order, ORF start computed before the strand correction)      vs Anno.cdna_sequence
#      Observable: (sequence, reference start) -- the MatchedLocation / record built afterwards only packages them.
#      Trusted: chrom.seq[a:b] is Anno.exon_seq (Python slice of the chromosome), Seq + Seq is list append,
#      Seq.reverse_complement is Anno.revcomp with the regenerated complement table, self.get_cds_start_index() is
#      the MODEL cds_start_index (tied to its own code by its own obligation); the comprehension
#      `[it.location for it in self.cds]` is the list of (start, end) of the CDS records (Anno.cds_segments); the pinned
#      statement `if seq is None: seq = new_seq else: seq = seq + new_seq` is append-to-optional.
TARGETS.append(
    dict(TAM, out='Py_TAM_cdna', func='get_cdna_sequence', coq_name='py_cdna_sequence',
         errors=dict(ANNO_ERRORS, AttributeError='(Err EType)'),
         args=[('tbl', 'list (Z * Z)'), ('strand', 'Z'), ('ex', 'list exon'), ('cs', 'list cds'), ('chrom', 'seq')],
         types={'cdnares': '(seq * Z)'},
         params={'chrom': ('chrom', 'seq')},
         slice=('if len(self.cds) == 0:', 'if self.transcript.strand == -1:'),
         slice_pre=[], slice_post=['return pair__(seq, cds_start)'],
         ret_ty='cdnares', res_ty='res (seq * Z)', ok='(Ok {})', stub='Err EType',
         raises=[('ValueError', 'any', None, '(Err EValue)')],
         var_types={'seq': 'opt list Z'},
         stmt_rewrites=[('locations = [it.location for it in self.cds]', 'locations = cds_locations__()'),
                        ('if seq is None:\n    seq = new_seq\nelse:\n    seq = seq + new_seq', 'seq = append_opt__(seq, new_seq)')],
         patterns=TXMODEL_SELF + [
             ('append_opt__(_a, _b)', {'_a': 'opt list Z', '_b': 'list Z'},
              '(Some (match {_a} with None => {_b} | Some a__ => a__ ++ {_b} end))', 'opt list Z'),
             ('cds_locations__()', {}, '(cds_segments cs)', 'list exon'),
             ('chrom.seq[_l.start:_l.end]', {'_l': 'exon'}, '(exon_seq chrom {_l})', 'list Z'),
             ('self.get_cds_start_index()', {}, '(cds_start_index strand ex cs)', 'res Z'),
             ('_s.reverse_complement()', {'_s': 'opt list Z'}, '(option_map (revcomp tbl) {_s})', 'opt list Z'),
             ('pair__(_s, _z)', {'_s': 'opt list Z', '_z': 'Z'},
              '(match {_s} with Some s__ => Some (s__, {_z}) | None => None end)', 'opt:AttributeError:cdnares')]))

# ---------------------------------------------------------------------------------------------- C18 source-set order
# (25) aa/VariantPeptideLabel.py VariantSourceSet.__gt__ / __ge__ / __lt__ / __le__ (the order that decides the database
#      of a peptide in splitFasta)                                                        vs Split.src_gt (+ its negations)
#      Trusted: `self == other` on the set subclass is Split.set_eq; self.to_int() is Split.to_int (KeyError = Err EKey);
#      zip is List.combine.
VSS = dict(out='Py_VariantSourceSet', file='moPepGen/aa/VariantPeptideLabel.py', cls='VariantSourceSet',
           imports=['Gen.HeaderCfg', 'Model.Header', 'Model.Filter', 'Model.Split'],
           args=[('lv', 'levels'), ('A', 'list str'), ('B', 'list str')],
           types={'pairZ': '(Z * Z)', 'srcset': '(list str)'}, pair_types={'pairZ': ('Z', 'Z')},
           params={'other': ('B', 'srcset')},
           ret_ty='bool', res_ty='res bool', ok='(Ok {})', stub='Err EIndex', errors={}, raises=[],
           patterns=[('self == other', {}, '(set_eq A B)', 'bool'),
                     ('self.to_int()', {}, '(to_int lv A)', 'res list Z'),
                     ('other.to_int()', {}, '(to_int lv B)', 'res list Z'),
                     ('zip(_a, _b)', {'_a': 'list Z', '_b': 'list Z'}, '(combine {_a} {_b})', 'list pairZ'),
                     ('self > other', {}, '(src_gt lv A B)', 'res bool'),
                     ('self >= other', {}, '(py_src_ge lv A B)', 'res bool')])
TARGETS += [dict(VSS, func='__gt__', coq_name='py_src_gt'),
            dict(VSS, func='__ge__', coq_name='py_src_ge'),
            dict(VSS, func='__lt__', coq_name='py_src_lt'),
            dict(VSS, func='__le__', coq_name='py_src_le')]

# (26) gtf/TranscriptAnnotationModel.py get_upstream_exon_end / get_downstream_exon_start (used by
#      VariantRecord.shift_breakpoint_to_closest_exon for intronic fusion breakpoints)
#                                                         vs Fusion.upstream_exon_end / downstream_exon_start
#      None = the ValueError of the function or the UnboundLocalError of `ind` when the first exon already breaks the loop.
TAM_F = dict(TAM, out='Py_TranscriptAnnotationModel_fusion', imports=['Model.Rmats', 'Model.Fusion'],
             args=[('strand', 'Z'), ('ex', 'list exon'), ('pos', 'Z')], params={'pos': ('pos', 'Z')},
             ret_ty='Z', res_ty='option Z', ok='(Some {})', stub='Some (-7)',
             errors={'UnboundLocalError': 'None', 'ValueError': 'None'}, raises=[('ValueError', 'any', None, 'None')],
             maybe_locals={'ind': 'Z'},
             patterns=[('self.transcript.strand', {}, 'strand', 'Z'), ('self.exon', {}, 'ex', 'list exon'),
                       ('_e.location.start', {'_e': 'exon'}, '(fst {_e})', 'Z'), ('_e.location.end', {'_e': 'exon'}, '(snd {_e})', 'Z')])
TARGETS += [dict(TAM_F, func='get_upstream_exon_end', coq_name='py_upstream_exon_end'),
            dict(TAM_F, func='get_downstream_exon_start', coq_name='py_downstream_exon_start')]

# ---------------------------------------------------------------------------------------------- C05 adjacent variants -> MNV
# (27) seqvar/VariantRecord.py create_mnv_from_adjacent: the accumulation loop and `end = variants[-1].location.end`
#      (slice `var_ids = []` .. `end = ..`)                                                     vs Mnv.create_mnv
#      Observable: (start, end, ref, alt, var_ids), the arguments of the VariantRecord built after the slice.  The
#      seqname / GENE_ID / TRANSCRIPT_ID copied from the first record are outside (ignored statements; nothing inside
#      the slice reads them).  start / ref / alt are first bound inside the loop: maybe-unbound locals; the empty list
#      is the IndexError of variants[-1].
MNV = dict(out='Py_mnv', file='moPepGen/seqvar/VariantRecord.py', cls=None, imports=['Model.Mnv'],
           types={'mrec': 'mrec', 'mnv': 'mnv'})
TARGETS.append(dict(MNV, func='create_mnv_from_adjacent', coq_name='py_create_mnv',
    args=[('variants', 'list mrec')], params={'variants': ('variants', 'list mrec')},
    slice=('var_ids = []', 'end = variants[-1].location.end'), slice_pre=[],
    slice_post=['return mnv__(start, end, ref, alt, var_ids)'],
    var_types={'var_ids': 'list (list Z)'},
    ignore_stmts=[r'^seqname = v\.location\.seqname$', r"^if 'TRANSCRIPT_ID' in v\.attrs:"],
    maybe_locals={'start': 'Z', 'ref': 'list Z', 'alt': 'list Z'},
    ret_ty='mnv', res_ty='option mnv', ok='(Some {})', stub='Some (mkMnv 0 0 [] [] [])',
    errors={'UnboundLocalError': 'None', 'IndexError': 'None'}, raises=[],
    patterns=[('mnv__(_a, _b, _c, _d, _e)', {'_a': 'Z', '_b': 'Z', '_c': 'list Z', '_d': 'list Z', '_e': 'list (list Z)'},
               '(mkMnv {_a} {_b} {_c} {_d} {_e})', 'mnv'),
              ('variants[-1].location.end', {}, '(option_map m_end (py_index variants (-1)))', 'opt:IndexError:Z'),
              ('_v.location.start', {'_v': 'mrec'}, '(m_start {_v})', 'Z'),
              ('_v.ref', {'_v': 'mrec'}, '(m_ref {_v})', 'list Z'), ('_v.alt', {'_v': 'mrec'}, '(m_alt {_v})', 'list Z'),
              ('_v.id', {'_v': 'mrec'}, '(m_id {_v})', 'list Z')],
    stmt_patterns=[('var_ids.append(_x)', {'_x': 'list Z'}, 'var_ids', '({cur} ++ [{_x}])')]))

#      find_mnvs_from_adjacent_variants: the scan of ONE comb (slice `v_t = variants[i_t]` .. the `for j in range(..)` loop)
#                                                                                                 vs Mnv.scan
#      Observable: the combs appended to level k, in order.  Trusted: the statement that files new_comb under key k of
#      the level dictionary (append, creating the list on first use) is an append to the level-k list (stmt_rewrites,
#      exact text); `x.type not in compatible_type_map` / `compatible_type_map[x.type] == type0` are Mnv.known_type /
#      Mnv.class_is (type0 is the class of the first record); range(a, b) is PyRt.py_range.
#      NOT translated: the level dictionary itself (keyed by the loop index k, `k - 1 not in ..` / `.items()`): the
#      model keeps the levels as a function of k (Mnv.level); the comprehension [variants[x] for x in comb] is Mnv.pick.
TARGETS.append(dict(MNV, func='find_mnvs_from_adjacent_variants', coq_name='py_mnv_scan',
    args=[('variants', 'list mrec'), ('type0', 'Z'), ('comb', 'list Z'), ('i_t', 'Z')],
    params={'variants': ('variants', 'list mrec'), 'max_adjacent_as_mnv': (None, 'opaque')},
    pre_env={'type0': ('type0', 'Z'), 'comb': ('comb', 'list Z'), 'i_t': ('i_t', 'Z')},
    slice=('v_t = variants[i_t]', 'for j in range(i_t + 1, len(variants)):'),
    slice_pre=['new__ = []'], slice_post=['return new__'],
    var_types={'new__': 'list (list Z)'},
    ret_ty='list (list Z)', res_ty='option (list (list Z))', ok='(Some {})', stub='Some [[-7]]',
    errors={'IndexError': 'None'}, raises=[],
    patterns=[('range(_a, _b)', {'_a': 'Z', '_b': 'Z'}, '(py_range {_a} {_b})', 'list Z'),
              ('len(variants)', {}, '(zlen variants)', 'Z'),
              ('_v.type not in compatible_type_map', {'_v': 'mrec'}, '(negb (known_type (m_ty {_v})))', 'bool'),
              ('compatible_type_map[_v.type] == type0', {'_v': 'mrec'}, '(class_is (m_ty {_v}) type0)', 'bool'),
              ('_v.location.start', {'_v': 'mrec'}, '(m_start {_v})', 'Z'), ('_v.location.end', {'_v': 'mrec'}, '(m_end {_v})', 'Z')],
    stmt_rewrites=[('if k in adjacent_combs:\n    adjacent_combs[k].append(new_comb)\nelse:\n    adjacent_combs[k] = [new_comb]',
                    'new__.append(new_comb)')],
    stmt_patterns=[('new__.append(_x)', {'_x': 'list Z'}, 'new__', '({cur} ++ [{_x}])')]))
#      The dictionary literal compatible_type_map is transcribed by hand in Mnv.compat_class; this target pins its text
#      (a changed literal is refused and breaks code_mnv_translated).
_MNV_MAP = "compatible_type_map = {'SNV': 'SNV', 'RNAEditingSite': 'SNV', 'INDEL': 'INDEL'}"
TARGETS.append(dict(MNV, func='find_mnvs_from_adjacent_variants', coq_name='py_mnv_type_map_pinned',
    args=[], params={'variants': (None, 'opaque'), 'max_adjacent_as_mnv': (None, 'opaque')},
    slice=(_MNV_MAP, _MNV_MAP), slice_pre=[], slice_post=['return pinned__'],
    ret_ty='bool', res_ty='bool', ok='{}', stub='false', errors={}, raises=[],
    patterns=[], stmt_rewrites=[(_MNV_MAP, 'pinned__ = True')]))
