"""Merge harness/props/*.known_findings.json fragments (dict with 'findings' or a bare list) into known_findings.json; remove the fragments."""
import json, glob, os
ROOT = os.path.dirname(os.path.dirname(os.path.abspath(__file__)))
p = os.path.join(ROOT, 'known_findings.json')
d = json.load(open(p))
fixed_ids = ' '.join(d.get('fixed', []))
for fp in sorted(glob.glob(os.path.join(ROOT, 'harness', 'props', '*.known_findings.json'))):
    j = json.load(open(fp))
    items = j['findings'] if isinstance(j, dict) else j
    for f in items:
        f.setdefault('status', 'open')
        ex = [g for g in d['findings'] if g['property'] == f['property'] and g['id'] == f['id']]
        if ex:
            ex[0].update(f)
        else:
            d['findings'].append(f)
    os.remove(fp)
json.dump(d, open(p, 'w'), indent=1)
print([(f['property'], f['id']) for f in d['findings']])
