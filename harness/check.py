"""./check <Cxx> [--tier quick|thorough] [--replay file]

For one property: rebuild (translators -> Gen, make, extraction, oracle), re-check the
property's theorems (Props/Cxx.v, Print Assumptions), run the correspondence module
harness/props/cxx.py against /repo's working tree, write evidence/Cxx.json, print
KNOWN-FINDING / VIOLATION lines, exit 1 iff a violation was printed.
"""
import sys, os, re, json, time, random, argparse, importlib, subprocess, traceback

ROOT = os.path.dirname(os.path.dirname(os.path.abspath(__file__)))
sys.path.insert(0, ROOT)
from harness import build as B

COQ = os.path.join(ROOT, 'coq')
STD_AXIOMS_OK = {
    # axioms declared by Coq's standard library that a proof may rely on (named in DESIGN.md section 8)
    'functional_extensionality_dep', 'Eqdep.Eq_rect_eq.eq_rect_eq', 'eq_rect_eq',
    'proof_irrelevance', 'classic', 'JMeq_eq', 'propositional_extensionality',
}

def theorem_status(prop, build_res):
    """Returns (obligations, discharged, details, broken) for Props/<prop>.v.
    Each `Theorem` in the file is one obligation.  The file is re-compiled here (cheap) to
    capture Print Assumptions output."""
    rel = 'Props/%s.v' % prop
    path = os.path.join(COQ, rel)
    if not os.path.exists(path):
        return 0, 0, [], [{'theorem': None, 'why': 'no theorem file'}]
    src = open(path).read()
    thms = [(m.group(2), src[:m.start()].count('\n') + 1)
            for m in re.finditer(r'^(Theorem|Lemma|Corollary)\s+(\w+)', src, re.M)]
    rc, out = B.sh('timeout 900 coqc -Q . MoPep %s' % rel, cwd=COQ, timeout=1000)
    details, broken = [], []
    if rc == 0:
        # parse Print Assumptions blocks in order
        blocks = re.split(r'(?=Closed under the global context|Axioms:)', out)
        blocks = [b for b in blocks if b.startswith('Closed') or b.startswith('Axioms:')]
        for i, (name, _) in enumerate(thms):
            if i < len(blocks) and blocks[i].startswith('Closed'):
                details.append({'theorem': name, 'assumptions': []})
            elif i < len(blocks):
                ax = re.findall(r'^(\S+)\s*:', blocks[i][len('Axioms:'):], re.M)
                details.append({'theorem': name, 'assumptions': ax})
                bad = [a for a in ax if a.split('.')[-1] not in STD_AXIOMS_OK and a not in STD_AXIOMS_OK]
                if bad:
                    broken.append({'theorem': name, 'why': 'depends on non-library axioms %s' % bad})
            else:
                details.append({'theorem': name, 'assumptions': ['<no Print Assumptions>']})
                broken.append({'theorem': name, 'why': 'no Print Assumptions output'})
        discharged = len(thms) - len(broken)
    else:
        m = re.search(r'line (\d+), characters', out)
        line = int(m.group(1)) if m else 0
        failing = None
        for name, ln in thms:
            if ln <= line:
                failing = name
        dep_fail = 'Cannot find a physical path' in out or 'Compiled library' in out or 'Unable to locate library' in out
        if dep_fail:
            # locate the lemma that broke in a Proofs/ file from the make output, and the theorem that uses it
            mk = build_res.get('make_out', '')
            # the theorems that depend on the import that failed come AFTER it in the Props file
            after = [name for name, ln in thms if ln > line]
            if after:
                failing = after[0]
            mm = re.search(r'(?:logical path|library|Compiled library)\s+([\w.]+)', out)
            wantmod = mm.group(1).split('.')[-1] if mm else None
            cands = list(re.finditer(r'File "\./(Proofs/\w+\.v)", line (\d+)', mk))
            # prefer the Proofs file that IS the module that failed to load, then files this Props file names
            cands.sort(key=lambda fm: (0 if wantmod and fm.group(1).endswith('/%s.v' % wantmod) else
                                       1 if re.search(r'\b%s\b' % re.escape(os.path.basename(fm.group(1))[:-2]), src) else 2))
            for fm in cands:
                pf, pl = fm.group(1), int(fm.group(2))
                try:
                    psrc = open(os.path.join(COQ, pf)).read()
                except OSError:
                    continue
                lem = None
                for lm in re.finditer(r'^(Theorem|Lemma|Corollary)\s+(\w+)', psrc, re.M):
                    if psrc[:lm.start()].count('\n') + 1 <= pl:
                        lem = lm.group(2)
                if lem:
                    um = re.search(r'(Theorem|Lemma|Corollary)\s+(\w+)[^.]*?(?:\.|:)(?:(?!Qed).)*?exact\s+\(?@?(?:[\w.]+\.)?' + re.escape(lem) + r'\b', src, re.S)
                    failing = (um.group(2) if um else None) or ('%s (lemma %s in %s)' % (prop, lem, pf))
                    out = 'lemma %s in %s no longer checks | ' % (lem, pf) + out
                    break
        broken.append({'theorem': failing, 'why': ('a dependency does not compile: ' if dep_fail else 'does not check: ') + out.strip()[-600:]})
        discharged = sum(1 for name, ln in thms if failing and ln < dict(thms).get(failing, 0)) if failing else 0
    return len(thms), discharged, details, broken

def load_known(prop):
    p = os.path.join(ROOT, 'known_findings.json')
    if not os.path.exists(p):
        return []
    data = json.load(open(p))
    return [f for f in data.get('findings', []) if f.get('property') == prop and f.get('status', 'open') == 'open']


CLI_COMMANDS = {
    'C01': ['callVariant'], 'C02': ['callVariant'], 'C03': ['callVariant'], 'C04': ['callVariant', 'callNovelORF', 'callAltTranslation'],
    'C05': ['callVariant'], 'C06': ['callVariant', 'indexGVF', 'generateIndex'],
    'C07': ['callVariant', 'parseVEP', 'parseREDItools', 'parseSTARFusion', 'parseArriba', 'parseFusionCatcher', 'parseRMATS', 'parseCIRCexplorer'],
    'C08': ['callNovelORF'], 'C09': ['callAltTranslation'], 'C10': ['generateIndex', 'updateIndex'], 'C11': ['generateIndex'],
    'C12': ['generateIndex', 'updateIndex'], 'C13': ['indexGVF'], 'C14': ['parseVEP', 'parseREDItools'],
    'C15': ['parseSTARFusion', 'parseArriba', 'parseFusionCatcher'], 'C16': ['parseRMATS'], 'C17': ['parseCIRCexplorer'],
    'C18': ['splitFasta', 'mergeFasta', 'encodeFasta', 'summarizeFasta'], 'C19': ['filterFasta'], 'C20': ['decoyFasta'],
}

def cli_surface(prop):
    """harness/lib/clisurface.py on the current source: options the property's commands read but their
    parsers never define (every run through the real command line reaching the read aborts)."""
    repo = os.environ.get('VERIF_REPO', '/repo')
    env = dict(os.environ, PYTHONPATH=repo, PYTHONHASHSEED='0')
    try:
        p = subprocess.run(['/venv/bin/python', os.path.join(ROOT, 'harness', 'lib', 'clisurface.py')], env=env,
                           capture_output=True, text=True, timeout=120, cwd=os.path.join(ROOT, '.work') if os.path.isdir(os.path.join(ROOT, '.work')) else ROOT)
        data = json.loads(p.stdout.strip().splitlines()[-1])
    except Exception as e:
        return [], {'error': repr(e)}
    out = []
    for cmd in CLI_COMMANDS.get(prop, []):
        d = data.get(cmd)
        if d is None:
            out.append({'what': 'command %s is no longer registered with the command-line parser' % cmd,
                        'replay_obj': {'kind': 'cli-surface', 'command': cmd}, 'no_input': True})
            continue
        for attr, where in sorted(d.get('gaps', {}).items()):
            out.append({'what': 'every run of `moPepGen %s` through the real command line that reaches %s aborts with AttributeError: '
                                'the command reads args.%s, which its argument parser never defines' % (cmd, where, attr),
                        'replay_obj': {'kind': 'cli-surface', 'command': cmd, 'attribute': attr, 'where': where,
                                       'how': 'PYTHONPATH=/repo /venv/bin/python harness/lib/clisurface.py'},
                        'no_input': False})
    return out, {c: {k: v for k, v in data.get(c, {}).items() if k != 'gaps'} for c in CLI_COMMANDS.get(prop, [])}

class Ctx:
    def __init__(self, prop, tier, seed, build_res):
        self.prop, self.tier, self.seed = prop, tier, seed
        self.rng = random.Random(seed)
        self.build = build_res
        self.quick = tier == 'quick'
        self.replay_dir = os.path.join(ROOT, 'evidence', 'replays')
        os.makedirs(self.replay_dir, exist_ok=True)
        self.jobs = int(os.environ.get('VERIF_JOBS', '16'))
    def write_replay(self, name, obj):
        p = os.path.join(self.replay_dir, '%s-%s.json' % (self.prop, name))
        json.dump(obj, open(p, 'w'), indent=1, sort_keys=True, default=str)
        return os.path.relpath(p, ROOT)

def main():
    ap = argparse.ArgumentParser()
    ap.add_argument('prop')
    ap.add_argument('--tier', default=os.environ.get('VERIF_TIER', 'quick'))
    ap.add_argument('--replay')
    a = ap.parse_args()
    prop = a.prop
    tier = a.tier if a.tier in ('quick', 'thorough') else 'quick'
    seed = int(os.environ.get('VERIF_SEED', '20260930'))
    t0 = time.time()
    mod = importlib.import_module('harness.props.%s' % prop.lower())
    bres = B.build()
    ctx = Ctx(prop, tier, seed, bres)

    violations = []   # dicts: {what, replay (path) , finding (optional id), no_input (bool)}
    res = {}
    if a.replay:
        obj = json.load(open(a.replay))
        if obj.get('kind') == 'cli-surface':
            sv, _ = cli_surface(prop)
            res = {'violations': [v for v in sv if v['replay_obj'].get('command') == obj.get('command')]}
        else:
            res = mod.replay(ctx, obj)
        violations = res.get('violations', [])
        obligations = discharged = 0; details = []; broken = []
    else:
        obligations, discharged, details, broken = theorem_status(prop, bres)
        if not bres['oracle']:
            broken.append({'theorem': None, 'why': 'oracle (extraction of the model) does not build: ' + ' | '.join(bres['log'][-3:])})
        for b in broken:
            found = None
            if b.get('theorem') == 'rules_are_expasy_reference' and prop != 'C10':
                # shared obligation over the regenerated rule tables: use C10's search for a string on
                # which the implementation's cleavage sites differ from the ExPASy reference
                try:
                    from harness.props import c10 as _c10
                    found = _c10.search_failing_input(ctx, b)
                except Exception as e:
                    b['search_error'] = repr(e)
            if not found and hasattr(mod, 'search_failing_input'):
                try:
                    found = mod.search_failing_input(ctx, b)
                except Exception as e:  # the search itself must never mask the broken obligation
                    found = None
                    b['search_error'] = repr(e)
            if found:
                violations.append({'what': 'obligation %s broken; failing input found: %s' % (b['theorem'], found.get('what', '')),
                                   'replay_obj': found, 'no_input': False})
            else:
                violations.append({'what': 'obligation broken: %s (%s)' % (b['theorem'], b['why'][:300]),
                                   'replay_obj': {'kind': 'obligation', 'theorem': b['theorem'], 'file': 'coq/Props/%s.v' % prop, 'why': b['why']},
                                   'no_input': True})
        if bres['oracle']:
            try:
                res = mod.run(ctx)
            except Exception as e:
                res = {'evaluations': 0, 'distinct_nontrivial': 0, 'rule': 'correspondence crashed', 'samples': [],
                       'violations': [{'what': 'correspondence harness failed: %r' % e,
                                       'replay_obj': {'kind': 'correspondence', 'name': 'corr:%s' % prop, 'error': traceback.format_exc()[-3000:]},
                                       'no_input': True}]}
            violations += res.get('violations', [])
        sv, sinfo = cli_surface(prop)
        violations += sv
        res['cli_surface'] = sinfo

    known = load_known(prop)
    known_ids = {f['id'] for f in known}
    printed_v = 0
    known_hits = {}
    lines = []
    for i, v in enumerate(violations):
        fid = v.get('finding')
        if fid and fid in known_ids:
            known_hits.setdefault(fid, []).append(v)
            continue
        path = ctx.write_replay('v%d' % i, v.get('replay_obj', {}))
        tail = ' no-failing-input-found' if v.get('no_input') else ''
        lines.append('VIOLATION property=%s replay=%s%s' % (prop, path, tail))
        lines.append('#   ' + v.get('what', '')[:400])
        printed_v += 1
    for f in known:
        hits = known_hits.get(f['id'], [])
        # a listed finding is announced on every run; how many times it was hit this run is appended
        lines.append('KNOWN-FINDING: property=%s %s: %s (hit %d times this run)' % (prop, f['id'], f['what'], len(hits)))

    wall = time.time() - t0
    cov = {
        'obligations': obligations, 'discharged': discharged,
        'checker_cmd': 'cd /verif/coq && make (coqc 8.16.1, full .vo) ; coqc -Q . MoPep Props/%s.v' % prop,
        'trusted_base': res.get('trusted_base', []) + [
            'Coq 8.16.1 kernel + vm_compute (no native_compute)',
            'extraction (ExtrOcamlBasic only, no Extract Constant) + ocamlfind ocamlopt + ocaml/driver.ml',
            'translators harness/translate/*.py', 'correspondence harness harness/props/%s.py' % prop.lower()],
        'theorems': details,
        'evaluations': res.get('evaluations', 0),
        'distinct_nontrivial': res.get('distinct_nontrivial', 0),
        'rule': res.get('rule', ''),
        'samples': res.get('samples', [])[:8],
        'translators_changed': bres['translators_changed'],
        'known_findings_hit': {k: len(v) for k, v in known_hits.items()},
    }
    for k, v in res.items():
        if k not in cov and k not in ('violations', 'trusted_base'):
            cov[k] = v
    ev = {'property_id': prop, 'tier': tier, 'seed': seed, 'level': 'proof', 'coverage': cov,
          'assumptions': res.get('assumptions', []), 'wall_s': round(wall, 2), 'violations': printed_v}
    if not a.replay and not os.environ.get('VERIF_REPO'):
        # evidence is written only for runs against /repo itself (never for experiments on scratch worktrees)
        os.makedirs(os.path.join(ROOT, 'evidence'), exist_ok=True)
        json.dump(ev, open(os.path.join(ROOT, 'evidence', '%s.json' % prop), 'w'), indent=1, default=str)
    for l in lines:
        print(l)
    print('%s tier=%s obligations=%d discharged=%d evaluations=%d nontrivial=%d violations=%d known_hits=%d wall=%.1fs' % (
        prop, tier, obligations, discharged, cov['evaluations'], cov['distinct_nontrivial'], printed_v,
        sum(len(v) for v in known_hits.values()), wall))
    sys.exit(1 if printed_v else 0)

if __name__ == '__main__':
    main()
