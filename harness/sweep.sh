#!/bin/bash
# sweep.sh "<seeds>" [tier] [props...] : run checks for several VERIF_SEED values, 4 properties at a time; print one line per run
cd "$(dirname "$0")/.."
seeds=${1:-"1 2 3"}; tier=${2:-quick}; shift 2 2>/dev/null
props=${@:-$(python3 -c "import json;print(' '.join(c['property_id'] for c in json.load(open('MANIFEST.json'))['checks']))")}
mkdir -p .work/sweep
for s in $seeds; do
  for p in $props; do echo "$s $p"; done
done | xargs -P4 -L1 bash -c 'VERIF_SEED=$0 ./check $1 --tier '"$tier"' > .work/sweep/$1.$0.log 2>&1; echo "seed=$0 $1 exit=$? $(grep -c ^VIOLATION .work/sweep/$1.$0.log) violations | $(tail -1 .work/sweep/$1.$0.log | cut -c1-160)"'
