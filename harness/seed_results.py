"""Store the JSON lines printed by harness/seed_regress.py as `result_final` in seeded/<id>/meta.json.
usage: seed_results.py <log> [<log> ...]   (later logs win; a 'note' already stored is kept)"""
import sys, json, os
ROOT = os.path.dirname(os.path.dirname(os.path.abspath(__file__)))
head = os.popen('git -C /repo rev-parse --short HEAD').read().strip()
n = 0
for log in sys.argv[1:]:
    for l in open(log):
        if not l.startswith('{"seed"'):
            continue
        j = json.loads(l)
        p = os.path.join(ROOT, 'seeded', j['seed'], 'meta.json')
        if not os.path.exists(p) or j.get('result') == 'patch-does-not-apply':
            print('skipped', j['seed'], j.get('result'))
            continue
        m = json.load(open(p))
        old = m.get('result_final') if isinstance(m.get('result_final'), dict) else {}
        m['result_final'] = {'result': j['result'], 'violations': j.get('violations'), 'with_failing_input': j.get('with_failing_input'),
                             'first': j.get('first', '')[:200], 'how': 'harness/seed_regress.py, quick tier, scratch worktree of /repo %s' % head}
        if old.get('note'):
            m['result_final']['note'] = old['note']
        json.dump(m, open(p, 'w'), indent=1)
        n += 1
print(n, 'stored')
