#!/bin/bash
# seed_eval.sh <seed_dir containing patch.diff demo.py> <Cxx> [more props]: confirm the demo in a scratch worktree, then run checks with the patch applied to /repo
set -u
d=$1; shift
wt=/tmp/seedwt_$$
git -C /repo worktree add -q --detach $wt HEAD || exit 2
( cd $wt && PYTHONPATH=$wt /venv/bin/python $d/demo.py >/dev/null 2>&1; echo "demo clean exit=$?" )
( cd $wt && git apply $d/patch.diff && PYTHONPATH=$wt /venv/bin/python $d/demo.py >/dev/null 2>&1; echo "demo patched exit=$?" )
git -C /repo worktree remove --force $wt
git -C /repo apply $d/patch.diff || { echo "patch does not apply to /repo"; exit 3; }
for p in "$@"; do
  ( cd /verif && ./check $p 2>&1 | grep -E "^VIOLATION|^#  |tier=" | head -4 )
done
git -C /repo checkout -- .
