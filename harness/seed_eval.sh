#!/bin/bash
# seed_eval.sh <seed_dir containing patch.diff demo.py> <Cxx> [more props]
# 1. confirm the demo in a scratch worktree (exit 0 clean, 1 patched)
# 2. run the checks against the patched code: by default the patch is applied to /repo itself and
#    reverted afterwards; with SEED_MODE=worktree the checks run against the patched scratch worktree
#    (VERIF_REPO) so that /repo is not disturbed while other runs are using it.
set -u
d=$1; shift
wt=/tmp/seedwt_$$
git -C /repo worktree add -q --detach $wt HEAD || exit 2
( cd $wt && PYTHONPATH=$wt /venv/bin/python $d/demo.py >/dev/null 2>&1; echo "demo clean exit=$?" )
( cd $wt && git apply $d/patch.diff && PYTHONPATH=$wt /venv/bin/python $d/demo.py >/dev/null 2>&1; echo "demo patched exit=$?" )
if [ "${SEED_MODE:-repo}" = worktree ]; then
  for p in "$@"; do
    ( cd /verif && VERIF_REPO=$wt ./check $p 2>&1 | grep -E "^VIOLATION|^#  |tier=" | head -4 )
  done
  git -C /repo worktree remove --force $wt
  ( cd /verif && python3 harness/build.py >/dev/null 2>&1 )   # regenerate Gen from /repo again
else
  git -C /repo worktree remove --force $wt
  git -C /repo apply $d/patch.diff || { echo "patch does not apply to /repo"; exit 3; }
  for p in "$@"; do
    ( cd /verif && ./check $p 2>&1 | grep -E "^VIOLATION|^#  |tier=" | head -4 )
  done
  git -C /repo checkout -- .
fi
