"""Implementation side for C15 (parser half): STAR-Fusion / FusionCatcher / Arriba parsers and their CLI entry functions.

case = {world, tool: 'star'|'fc'|'arriba', rows: [ {dgid, agid (gene id strings as written), dsym, asym, dchrom, achrom,
        L, R (1-based genomic), dstrand, astrand ('+'/'-'), ev: {...tool specific evidence...}, tstrand1, tstrand2} ],
        opts: {...thresholds..., skip_failed}}
returns {lib: [per row: sorted GVF lines | {'__exc__'}], cli: sorted GVF body | {'__exc__'}, tally: {...}|None}
"""
import os, sys, argparse, logging, shutil, re
from pathlib import Path

sys.path.insert(0, os.path.join(os.path.dirname(os.path.abspath(__file__)), '..', '..'))
from harness.lib import gen_reference as G

from moPepGen import cli, get_logger
from moPepGen.cli import common
from moPepGen.parser import STARFusionParser, FusionCatcherParser, ArribaParser

WD = None

class Capture(logging.Handler):
    def __init__(self):
        super().__init__(level=logging.DEBUG)
        self.msgs = []
    def emit(self, record):
        try:
            self.msgs.append(record.getMessage())
        except Exception:   # noqa
            pass

def init(wd):
    global WD
    WD = wd

def star_row(r):
    e = r['ev']
    f = ['%s--%s' % (r['dsym'], r['asym']), str(e.get('jrc', 4)), str(e.get('sfc', 5)), e['est_j'], '3.86', 'ONLY_REF_SPLICE',
         '%s^%s' % (r['dsym'], r['dgid']), '%s:%d:%s' % (r['dchrom'], r['L'], r['dstrand']),
         '%s^%s' % (r['asym'], r['agid']), '%s:%d:%s' % (r['achrom'], r['R'], r['astrand']),
         'read1,read2', 'frag1,frag2', 'YES_LDAS', '0.1045', 'GT', '1.9086', 'AG', '1.7232', '["INTRACHROMOSOMAL[chr1:0.01Mb]"]']
    return '\t'.join(f)
STAR_HEAD = '#FusionName\tJunctionReadCount\tSpanningFragCount\test_J\test_S\tSpliceType\tLeftGene\tLeftBreakpoint\tRightGene\tRightBreakpoint\tJunctionReads\tSpanningFrags\tLargeAnchorSupport\tFFPM\tLeftBreakDinuc\tLeftBreakEntropy\tRightBreakDinuc\tRightBreakEntropy\tannots'

def fc_row(r):
    e = r['ev']
    f = [r['dsym'], r['asym'], 'oncogene,m9', str(e['common']), str(e.get('pairs', 12)), str(e['unique']), '21', 'BOWTIE+STAR',
         '%s:%d:%s' % (r['dchrom'], r['L'], r['dstrand']), '%s:%d:%s' % (r['achrom'], r['R'], r['astrand']),
         r['dgid'], r['agid'], '', '', 'ACGT*TTGA', 'exonic/exonic']
    return '\t'.join(f)
FC_HEAD = 'Gene_1_symbol(5end_fusion_partner)\tGene_2_symbol(3end_fusion_partner)\tFusion_description\tCounts_of_common_mapping_reads\tSpanning_pairs\tSpanning_unique_reads\tLongest_anchor_found\tFusion_finding_method\tFusion_point_for_gene_1(5end_fusion_partner)\tFusion_point_for_gene_2(3end_fusion_partner)\tGene_1_id(5end_fusion_partner)\tGene_2_id(3end_fusion_partner)\tExon_1_id(5end_fusion_partner)\tExon_2_id(3end_fusion_partner)\tFusion_sequence\tPredicted_effect'

def arriba_row(r):
    e = r['ev']
    f = [r['dsym'], r['asym'], '%s/%s' % (r['dstrand'], r['tstrand1']), '%s/%s' % (r['astrand'], r['tstrand2']),
         '%s:%d' % (r['dchrom'], r['L']), '%s:%d' % (r['achrom'], r['R']), 'CDS/splice-site', 'intron', 'translocation',
         str(e['sr1']), str(e['sr2']), '19', '191', '92', e['conf'], 'out-of-frame', '.', '.', '.', '.',
         r['dgid'], r['agid'], '.', '.', 'downstream', 'upstream', 'duplicates(30)', 'ACGT|TTGA', '.', 'r1,r2']
    return '\t'.join(f)
ARRIBA_HEAD = '#gene1\tgene2\tstrand1(gene/fusion)\tstrand2(gene/fusion)\tbreakpoint1\tbreakpoint2\tsite1\tsite2\ttype\tsplit_reads1\tsplit_reads2\tdiscordant_mates\tcoverage1\tcoverage2\tconfidence\treading_frame\ttags\tretained_protein_domains\tclosest_genomic_breakpoint1\tclosest_genomic_breakpoint2\tgene_id1\tgene_id2\ttranscript_id1\ttranscript_id2\tdirection1\tdirection2\tfilters\tfusion_transcript\tpeptide_sequence\tread_identifiers'

ROW = {'star': star_row, 'fc': fc_row, 'arriba': arriba_row}
HEAD = {'star': STAR_HEAD, 'fc': FC_HEAD, 'arriba': ARRIBA_HEAD}

def parse_file(tool, path):
    if tool == 'star':
        return list(STARFusionParser.parse(path))
    if tool == 'fc':
        return list(FusionCatcherParser.parse(path))
    with open(path, 'rt') as h:
        return list(ArribaParser.parse(h))

def body(path):
    if not os.path.exists(path):
        return []
    return sorted(l.rstrip('\n') for l in open(path) if not l.startswith('#'))

def tally_of(msgs):
    keys = {'Totally records read': 'total', 'Records successfully processed': 'succeed', 'Records skipped': 'skipped',
            'Invalid gene ID': 'invalid_gene_id', 'Invalid position': 'invalid_position',
            'Insufficient evidence': 'insufficient_evidence', 'Antisense strand': 'antisense_strand'}
    out = {}
    for m in msgs:
        mm = re.match(r'\s*([A-Za-z ]+): (\d+)$', m)
        if mm and mm.group(1) in keys:
            out[keys[mm.group(1)]] = int(mm.group(2))
    return out or None

def handle(c):
    d = os.path.join(WD, 'c')
    shutil.rmtree(d, ignore_errors=True)
    os.makedirs(d)
    world = c['world']
    tool = c['tool']
    gfa, gtf_, _prot = G.write_world(world, d)
    o = c['opts']
    args = argparse.Namespace()
    args.command = {'star': 'parseSTARFusion', 'fc': 'parseFusionCatcher', 'arriba': 'parseArriba'}[tool]
    args.source = 'Fusion'
    args.index_dir = None
    args.genome_fasta = Path(gfa)
    args.annotation_gtf = Path(gtf_)
    args.proteome_fasta = None
    args.reference_source = None
    args.quiet = True
    args.debug_level = 1
    args.skip_failed = o.get('skip_failed', False)
    args.min_est_j = o.get('min_est_j')
    args.max_common_mapping = o.get('max_common')
    args.min_spanning_unique = o.get('min_unique')
    args.min_split_read1 = o.get('min_sr1')
    args.min_split_read2 = o.get('min_sr2')
    args.min_confidence = o.get('min_conf')
    logging.disable(logging.CRITICAL)
    genome, anno, *_ = common.load_references(args, load_canonical_peptides=False)
    out = {'lib': [], 'tx_order': {g['id']: list(anno.genes[g['id']].transcripts) for g in world['genes']},
           'gene_order': list(anno.genes.keys())}
    ext = '.tsv' if tool != 'fc' else '.txt'
    for i, r in enumerate(c['rows']):
        p = os.path.join(d, 'one' + ext)
        with open(p, 'w') as f:
            f.write(HEAD[tool] + '\n' + ROW[tool](r) + '\n')
        try:
            recs = []
            for rec in parse_file(tool, p):
                recs += rec.convert_to_variant_records(anno, genome)
            out['lib'].append(sorted(x.to_string() for x in recs))
        except Exception as e:  # noqa
            out['lib'].append({'__exc__': type(e).__name__, 'msg': str(e)[:200]})
    p = os.path.join(d, 'all' + ext)
    with open(p, 'w') as f:
        f.write(HEAD[tool] + '\n')
        for r in c['rows']:
            f.write(ROW[tool](r) + '\n')
    args.input_path = Path(p)
    args.output_path = Path(os.path.join(d, 'out.gvf'))
    logging.disable(logging.NOTSET)
    logger = get_logger()
    cap = Capture()
    old_level = logger.level
    logger.addHandler(cap)
    logger.setLevel(logging.INFO)
    old_prop = logger.propagate
    logger.propagate = False
    try:
        {'star': cli.parse_star_fusion, 'fc': cli.parse_fusion_catcher, 'arriba': cli.parse_arriba}[tool](args)
        out['cli'] = body(str(args.output_path))
        out['tally'] = tally_of(cap.msgs)
    except Exception as e:  # noqa
        out['cli'] = {'__exc__': type(e).__name__, 'msg': str(e)[:200]}
        out['tally'] = None
    finally:
        logger.removeHandler(cap)
        logger.setLevel(old_level)
        logger.propagate = old_prop
    if c.get('argv'):
        # the same run through the real argument parser, every option on the command line
        import _argv_route as AR
        out2 = os.path.join(d, 'out_argv.gvf')
        ref = AR.reference_args(c, gfa, gtf_, _prot, d)
        if isinstance(ref, dict):
            out['cli_argv'] = ref
        else:
            argv = [args.command, '-i', p, '-o', out2, '--source', 'Fusion', '--debug-level', 'INFO', '--quiet'] + ref
            if tool == 'star':
                argv += ['--min-est-j', repr(o['min_est_j'])]
            elif tool == 'fc':
                argv += ['--max-common-mapping', str(o['max_common']), '--min-spanning-unique', str(o['min_unique'])]
            else:
                argv += ['--min-split-read1', str(o['min_sr1']), '--min-split-read2', str(o['min_sr2']), '--min-confidence', o['min_conf']]
            if o.get('skip_failed'):
                argv += ['--skip-failed']
            out['cli_argv'] = AR.run(argv, out2)
    return out
