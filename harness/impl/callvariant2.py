"""Implementation side for the alternative-splicing and circRNA streams of C01/C02: the runner of
harness/impl/callvariant.py (imported, not edited) plus two more GVF files written from the case:

  case['as_records']   = [ {row: {gene_id, pos1, id, ref, alt, tx_id, gene_name, attrs}} ... ]   (parseRMATS layout)
  case['circ_records'] = [ {row: {gene_id, start, id, offsets, lengths, introns, tx_id, gene_name}} ... ] (parseCIRCexplorer layout)
"""
import os, sys, shutil
sys.path.insert(0, os.path.dirname(os.path.abspath(__file__)))
import callvariant as CV
G = CV.G

AS_HEAD = """##fileformat=VCFv4.2
##mopepgen_version=1.4.6
##parser=parseRMATS
##reference_index=
##genome_fasta=
##annotation_gtf=
##source=AltSplice
##CHROM=<Description='Gene ID'>
##INFO=<ID=TRANSCRIPT_ID,Number=1,Type=String,Description="Transcript ID">
##INFO=<ID=START,Number=1,Type=Integer,Description="Start Position">
##INFO=<ID=END,Number=1,Type=Integer,Description="End Position">
##INFO=<ID=DONOR_START,Number=1,Type=Integer,Description="Donor Start Position">
##INFO=<ID=DONOR_END,Number=1,Type=Integer,Description="Donor End Position">
##INFO=<ID=DONOR_GENE_ID,Number=1,Type=String,Description="Donor Gene ID">
##INFO=<ID=GENE_SYMBOL,Number=1,Type=String,Description="Gene Symbol">
##INFO=<ID=GENOMIC_POSITION,Number=1,Type=String,Description="Genomic Position">
#CHROM\tPOS\tID\tREF\tALT\tQUAL\tFILTER\tINFO
"""

CIRC_HEAD = """##fileformat=VCFv4.2
##mopepgen_version=1.4.6
##parser=parseCIRCexplorer
##reference_index=
##genome_fasta=
##annotation_gtf=
##source=circRNA
##CHROM=<Description="Gene ID">
##INFO=<ID=TRANSCRIPT_ID,Number=1,Type=String,Description="Transcript ID">
##INFO=<ID=GENE_SYMBOL,Number=1,Type=String,Description="Gene Symbol">
##INFO=<ID=GENOMIC_POSITION,Number=1,Type=String,Description="Genomic Position">
##INFO=<ID=OFFSET,Number=+,Type=Integer,Description="Offsets of fragments (exons or introns)">
##INFO=<ID=LENGTH,Number=+,Type=Integer,Description="Lengths of fragments (exons or introns)">
##INFO=<ID=INTRON,Number=+,Type=Integer,Description="Indices of fragments that are introns">
##POS=<Description="Gene coordinate of circRNA start">
#CHROM\tPOS\tID\tREF\tALT\tQUAL\tFILTER\tINFO
"""

def write_as_gvf(path, recs):
    with open(path, 'w') as f:
        f.write(AS_HEAD)
        for rec in recs:
            r = rec['row']
            f.write('\t'.join([r['gene_id'], str(r['pos1']), r['id'], r['ref'], r['alt'], '.', '.',
                               'TRANSCRIPT_ID=%s;%s;GENE_SYMBOL=%s;GENOMIC_POSITION=chr:%d-%d' % (
                                   r['tx_id'], r['attrs'], r['gene_name'], r['pos1'], r['pos1'])]) + '\n')

def write_circ_gvf(path, recs):
    with open(path, 'w') as f:
        f.write(CIRC_HEAD)
        for rec in recs:
            r = rec['row']
            f.write('\t'.join([r['gene_id'], str(r['start']), r['id'], '.', '.', '.', '.',
                               'OFFSET=%s;LENGTH=%s;INTRON=%s;TRANSCRIPT_ID=%s;GENE_SYMBOL=%s;GENOMIC_POSITION=chr:%d:%d' % (
                                   ','.join(map(str, r['offsets'])), ','.join(map(str, r['lengths'])),
                                   ','.join(map(str, r.get('introns', []))), r['tx_id'], r['gene_name'],
                                   r['start'], r['start'] + max(o + l for o, l in zip(r['offsets'], r['lengths'])))]) + '\n')

def init(wd):
    CV.init(wd)

def handle(case):
    CV._N[0] += 1
    d = os.path.join(CV._WD, 'x%d' % CV._N[0])
    os.makedirs(d)
    try:
        g, a, p = G.write_world(case['world'], d)
        gvfs = []
        files = case.get('gvf_files') or ([case['gvf']] if case.get('gvf') else [])
        for i, rows in enumerate(files):
            gp = os.path.join(d, 'v%d.gvf' % i)
            CV.write_gvf(gp, rows)
            gvfs.append(gp)
        if case.get('fusions'):
            gp = os.path.join(d, 'fusion.gvf')
            CV.write_fusion_gvf(gp, case['fusions'])
            gvfs.append(gp)
        if case.get('as_records'):
            gp = os.path.join(d, 'as.gvf')
            write_as_gvf(gp, case['as_records'])
            gvfs.append(gp)
        if case.get('circ_records'):
            gp = os.path.join(d, 'circ.gvf')
            write_circ_gvf(gp, case['circ_records'])
            gvfs.append(gp)
        res = []
        for i, r in enumerate(case['runs']):
            res.append(CV.one_run(d, g, a, p, gvfs, r, i))
        return {'runs': res}
    finally:
        shutil.rmtree(d, ignore_errors=True)
