"""Implementation side for C19: the repo's real `filter_fasta(args)` CLI function (Namespace),
reference via a real generateIndex index dir or via --annotation-gtf."""
import os, sys, json, argparse, hashlib, shutil, logging
from pathlib import Path

ROOT = os.path.dirname(os.path.dirname(os.path.dirname(os.path.abspath(__file__))))
sys.path.insert(0, ROOT)
from harness.lib import gen_reference as G
from moPepGen import cli

WD = None
_worlds = {}
_n = 0

def init(wd):
    global WD
    WD = wd
    logging.disable(logging.CRITICAL)

def world_dir(world):
    """write the world once per worker, build a real index dir with generateIndex"""
    key = hashlib.sha1(json.dumps(world, sort_keys=True).encode()).hexdigest()[:16]
    if key in _worlds:
        return _worlds[key]
    d = os.path.join(WD, 'w' + key)
    os.makedirs(d)
    g, a, p = G.write_world(world, d)
    idx = os.path.join(d, 'index')
    ns = argparse.Namespace(command='generateIndex', genome_fasta=Path(g), annotation_gtf=Path(a), proteome_fasta=Path(p),
                            reference_source=None, cleavage_rule='trypsin', cleavage_exception='auto', miscleavage=2,
                            min_mw=500., min_length=7, max_length=25, invalid_protein_as_noncoding=False,
                            output_dir=Path(idx), force=False, gtf_symlink=False, quiet=True, debug_level=1)
    cli.generate_index(ns)
    _worlds[key] = (d, g, a, p, idx)
    return _worlds[key]

def write_fasta(path, recs):
    with open(path, 'w') as f:
        for h, s in recs:
            f.write('>%s\n%s\n' % (h, s))

def read_fasta(path):
    out, h, s = [], None, []
    for line in open(path):
        line = line.rstrip('\n')
        if line.startswith('>'):
            if h is not None:
                out.append([h, ''.join(s)])
            h, s = line[1:], []
        else:
            s.append(line)
    if h is not None:
        out.append([h, ''.join(s)])
    return out

def run_filter(c, d, a, idx, inp, outp, tag, p=None):
    exprs = None
    if c.get('exprs') is not None:
        exprs = os.path.join(d, 'exprs_%s.tsv' % tag)
        t = c.get('table')
        with open(exprs, 'w') as f:
            if t:
                for line in t['lines']:
                    f.write(line + '\n')
            else:
                for _ in range(c.get('skip_lines', 0)):
                    f.write('# comment\n')
                if c.get('header'):
                    f.write('\t'.join(c['header']) + '\n')
                for row in c['exprs']:
                    f.write('\t'.join(row) + '\n')
    deny = None
    if c.get('denylist') is not None:
        deny = os.path.join(d, 'deny_%s.fasta' % tag)
        write_fasta(deny, [('D%d' % i, s) for i, s in enumerate(c['denylist'])])
    ns = argparse.Namespace(
        command='filterFasta', input_path=Path(inp), output_path=Path(outp),
        denylist=Path(deny) if deny else None, exprs_table=Path(exprs) if exprs else None,
        skip_lines=(c['table']['skip_lines'] if c.get('table') else c.get('skip_lines', 0)),
        delimiter=(c['table']['delimiter'] if c.get('table') else '\t'),
        tx_id_col=(c['table']['tx_id_col'] if c.get('table') else c.get('tx_id_col', '1')),
        quant_col=(c['table']['quant_col'] if c.get('table') else c.get('quant_col', '2')),
        quant_cutoff=c.get('cutoff'), keep_all_coding=c.get('kac', False), keep_all_noncoding=c.get('kan', False),
        keep_canonical=c.get('keep_canonical', False), miscleavages=c.get('miscleavages'), enzyme=c.get('enzyme', 'trypsin'),
        index_dir=Path(idx) if c.get('ref', 'index') == 'index' else None,
        annotation_gtf=Path(a) if c.get('ref', 'index') != 'index' else None,
        proteome_fasta=Path(p) if c.get('ref', 'index') != 'index' else None,
        reference_source=None, quiet=True, debug_level=1)
    cli.filter_fasta(ns)
    return read_fasta(outp)

def handle_passes(c):
    """2-3 successive filtering passes with DIFFERENT criteria.
    mode 'api': ONE pool object, pool = pool.filter(...) again and again (filter rewrites the records in place and
                returns a pool sharing them); finally pool.write() and the written FASTA is read back.
    mode 'cli': filterFasta on the FASTA written by the previous filterFasta run."""
    global _n
    _n += 1
    import pickle
    from Bio.Seq import Seq
    from moPepGen.aa import VariantPeptidePool
    d, g, a, p, idx = world_dir(c['world'])
    cd = os.path.join(d, 'm%d' % _n)
    os.makedirs(cd)
    outs = []
    try:
        inp = os.path.join(cd, 'in.fasta')
        write_fasta(inp, c['fasta'])
        if c['mode'] == 'cli':
            cur = inp
            for k, opts in enumerate(c['passes']):
                ck = dict(c); ck.update(opts)
                outp = os.path.join(cd, 'out%d.fasta' % k)
                try:
                    outs.append(run_filter(ck, cd, a, idx, cur, outp, str(k), p))
                except BaseException as e:  # noqa
                    outs.append({'__exc__': type(e).__name__, 'msg': str(e)[:200]})
                    break
                cur = outp
            return {'passes': outs}
        with open(inp) as handle:
            pool = VariantPeptidePool.load(handle)
        coding = pickle.load(open(os.path.join(idx, 'coding_transcripts.pkl'), 'rb'))
        for opts in c['passes']:
            exprs = None
            if opts.get('exprs') is not None:
                exprs = {}
                for tx, v in opts['exprs']:
                    exprs[tx] = float(v)
            m = opts.get('miscleavages')
            rng_ = tuple(int(x) for x in m.split(':', 1)) if m else (None, None)
            deny = {Seq(x) for x in opts['denylist']} if opts.get('denylist') is not None else None
            try:
                pool = pool.filter(exprs=exprs, cutoff=opts.get('cutoff'), coding_transcripts=coding,
                                   keep_all_noncoding=opts.get('kan', False), keep_all_coding=opts.get('kac', False),
                                   enzyme=opts.get('enzyme', 'trypsin'), miscleavage_range=rng_, denylist=deny,
                                   keep_canonical=opts.get('keep_canonical', False))
            except BaseException as e:  # noqa
                outs.append({'__exc__': type(e).__name__, 'msg': str(e)[:200]})
                return {'passes': outs}
            outs.append([[x.description, str(x.seq)] for x in pool.peptides])
        wp = os.path.join(cd, 'written.fasta')
        pool.write(Path(wp))
        return {'passes': outs, 'written': read_fasta(wp)}
    finally:
        shutil.rmtree(cd, ignore_errors=True)

def handle(c):
    global _n
    if c.get('kind') == 'passes':
        return handle_passes(c)
    _n += 1
    d, g, a, p, idx = world_dir(c['world'])
    cd = os.path.join(d, 'c%d' % _n)
    os.makedirs(cd)
    try:
        inp = os.path.join(cd, 'in.fasta')
        write_fasta(inp, c['fasta'])
        out1 = run_filter(c, cd, a, idx, inp, os.path.join(cd, 'out1.fasta'), '1', p)
        res = {'out': out1}
        if c.get('twice'):
            # idempotence on the real code: filter the output again with the same options
            res['out2'] = run_filter(c, cd, a, idx, os.path.join(cd, 'out1.fasta'), os.path.join(cd, 'out2.fasta'), '2', p)
        if c.get('ref', 'index') == 'index':
            import pickle
            res['coding'] = sorted(pickle.load(open(os.path.join(idx, 'coding_transcripts.pkl'), 'rb')))
        return res
    finally:
        shutil.rmtree(cd, ignore_errors=True)
