"""Implementation side for C04.

op-level kinds (the repo's real classes, constructed the way the commands construct them):
  adds        VariantPeptideTable(handle opened 'w+') ; write_header ; add_peptide(seq, anno)* ; write_fasta
  table       the callVariant loop:  is_valid(seq, canonical, CleavageParams) then add_peptide for every annotation
  vpool       VariantPeptidePool().add_peptide(record, canonical, CleavageParams, skip_checking) * ; write
  graph_valid MiscleavedNodes.is_valid_seq / VariantPeptideDict.is_valid_seq (the per-graph filter)
  text        str(int) and slicing probes
end-to-end kind:
  e2e         callVariant, callNovelORF, callAltTranslation through the real argparse sub-parsers on files
              written from one generated world, for several cleavage settings
"""
import os, sys, shutil, logging, argparse, traceback, collections
sys.path.insert(0, os.path.join(os.path.dirname(os.path.dirname(os.path.abspath(__file__))), 'lib'))
import gen_reference as G
from Bio.Seq import Seq
from moPepGen import cli, params
from moPepGen.SeqFeature import FeatureLocation
from moPepGen.svgraph.VariantPeptideTable import VariantPeptideTable
from moPepGen.svgraph import VariantPeptideDict as VPD
from moPepGen.svgraph.VariantPeptideDict import AnnotatedPeptideLabel, PeptideSegment
from moPepGen.aa.VariantPeptidePool import VariantPeptidePool
from moPepGen.aa.AminoAcidSeqRecord import AminoAcidSeqRecord

_WD = None
_N = [0]
_PARSER = None

def init(wd):
    global _WD, _PARSER
    _WD = wd
    p = argparse.ArgumentParser(prog='moPepGen')
    sub = p.add_subparsers(dest='command')
    cli.add_subparser_call_variant(sub)
    cli.add_subparser_call_novel_orf(sub)
    cli.add_subparser_call_alt_translation(sub)
    cli.add_subparser_generate_index(sub)
    cli.add_subparser_update_index(sub)
    _PARSER = p
    logging.disable(logging.CRITICAL)

def _dir():
    _N[0] += 1
    d = os.path.join(_WD or '.', 'c%d' % _N[0])
    os.makedirs(d, exist_ok=True)
    return d

def read_fasta(path):
    if not os.path.exists(path):
        return None
    out, h, s = [], None, []
    for line in open(path):
        line = line.rstrip('\n')
        if line.startswith('>'):
            if h is not None:
                out.append([h, ''.join(s)])
            h, s = line[1:], []
        else:
            s.append(line)
    if h is not None:
        out.append([h, ''.join(s)])
    return out

def _cp(c):
    mw = c['min_mw']
    if isinstance(mw, dict):      # the threshold is exactly the mass the library computes for this peptide
        from Bio import SeqUtils
        mw = SeqUtils.molecular_weight(Seq(mw['of']), 'protein')
    return params.CleavageParams(enzyme='trypsin', exception=None, miscleavage=2, min_mw=float(mw),
                                 min_length=c['min_len'], max_length=c['max_len'])

def _loc(l):
    return FeatureLocation(start=l[0], end=l[1], start_offset=l[2], end_offset=l[3])

def _anno(a):
    segs = []
    for q, ref, ft, fid, var in a['segs']:
        segs.append(PeptideSegment(query=_loc(q), ref=_loc(ref) if ref is not None else None,
                                   feature_type=ft, feature_id=fid, variant_id=var))
    return AnnotatedPeptideLabel(a['label'], segs)

def _table_out(t, handle, d):
    out = {'index': [[str(k), [list(x) for x in v]] for k, v in t.index.items()]}
    fa = os.path.join(d, 'out.fasta')
    try:
        t.write_fasta(fa)
        out['fasta'] = read_fasta(fa)
    except (ValueError, KeyError, IndexError) as e:
        out['fasta'] = {'__exc__': type(e).__name__}
    handle.flush()
    handle.seek(0)
    out['text'] = handle.read()
    return out

def do_adds(c):
    d = _dir()
    try:
        with open(os.path.join(d, 'x_peptide_table.txt'), 'w+') as h:
            t = VariantPeptideTable(h)
            t.write_header()
            for p, a in c['ops']:
                t.add_peptide(Seq(p), _anno(a))
            return _table_out(t, h, d)
    finally:
        shutil.rmtree(d, ignore_errors=True)

def do_table(c):
    d = _dir()
    try:
        cp = _cp(c)
        canonical = set(c['pool'])
        trace = []
        with open(os.path.join(d, 'x_peptide_table.txt'), 'w+') as h:
            t = VariantPeptideTable(h)
            t.write_header()
            for p, annos in c['items']:
                seq = Seq(p)
                try:
                    ok = t.is_valid(seq=seq, canonical_peptides=canonical, cleavage_params=cp)
                except ValueError:
                    trace.append(2)
                    continue
                trace.append(1 if ok else 0)
                if ok:
                    for a in annos:
                        t.add_peptide(seq, _anno(a))
            out = _table_out(t, h, d)
        out['trace'] = trace
        return out
    finally:
        shutil.rmtree(d, ignore_errors=True)

def do_vpool(c):
    d = _dir()
    try:
        cp = _cp(c)
        canonical = set(c['pool'])
        vp = VariantPeptidePool()
        trace = []
        for p, label, skip in c['ops']:
            rec = AminoAcidSeqRecord(seq=Seq(p), description=label, name=label)
            try:
                r = vp.add_peptide(rec, canonical, cp, skip_checking=skip)
            except ValueError:
                trace.append(2)
                continue
            trace.append(1 if r else 0)
        fa = os.path.join(d, 'pool.fasta')
        vp.write(fa)
        return {'trace': trace, 'fasta': read_fasta(fa)}
    finally:
        shutil.rmtree(d, ignore_errors=True)

def do_graph_valid(c):
    cp = _cp(c)
    mn = VPD.MiscleavedNodes(data=collections.deque(), cleavage_params=cp)
    vd = VPD.VariantPeptideDict(tx_id='T', cleavage_params=cp)
    vd.seqs = {Seq(x) for x in c['accepted']}
    acc = {Seq(x): {} for x in c['accepted']}
    deny = set(c['deny'])
    a, b = [], []
    for p in c['peps']:
        try:
            a.append(1 if mn.is_valid_seq(Seq(p), acc, deny) else 0)
        except ValueError:
            a.append(2)
        try:
            b.append(1 if vd.is_valid_seq(Seq(p), deny) else 0)
        except ValueError:
            b.append(2)
    return {'misc': a, 'dict': b}

def do_text(c):
    return {'dec': [str(z) for z in c['ints']], 'slice': [s[a:b] for s, a, b in c['slices']]}

# ------------------------------------------------------------------ end to end
GVF_HEAD = """##fileformat=VCFv4.2
##mopepgen_version=1.4.6
##parser=parseVEP
##reference_index=
##genome_fasta=
##annotation_gtf=
##source=%s
##CHROM=<Description='Gene ID'>
##INFO=<ID=TRANSCRIPT_ID,Number=1,Type=String,Description="Transcript ID">
##INFO=<ID=GENE_SYMBOL,Number=1,Type=String,Description="Gene Symbol">
##INFO=<ID=GENOMIC_POSITION,Number=1,Type=String,Description="Genomic Position">
#CHROM\tPOS\tID\tREF\tALT\tQUAL\tFILTER\tINFO
"""

def write_gvf(path, rows, source='gSNP'):
    with open(path, 'w') as f:
        f.write(GVF_HEAD % source)
        for gene_id, pos1, vid, ref, alt, tx_id, gname in rows:
            f.write('\t'.join([gene_id, str(pos1), vid, ref, alt, '.', '.',
                               'TRANSCRIPT_ID=%s;GENOMIC_POSITION=chr:%d;GENE_SYMBOL=%s' % (tx_id, pos1, gname)]) + '\n')

def _cleave_args(r):
    a = ['--cleavage-rule', r['rule'], '--miscleavage', str(r['k']), '--min-mw', repr(r['min_mw']),
         '--min-length', str(r['min_len']), '--max-length', str(r['max_len'])]
    if r['exc'] != 'auto':            # 'auto' = the command's own default: the option is not given at all
        a += ['--cleavage-exception', r['exc']]
    return a

def _run(argv):
    args = _PARSER.parse_args([str(x) for x in argv])
    try:
        args.func(args)
    except SystemExit as e:
        return {'__exc__': 'SystemExit', 'msg': str(e.code)}
    except BaseException as e:   # noqa
        return {'__exc__': type(e).__name__, 'msg': str(e)[:300], 'tb': traceback.format_exc()[-1500:]}
    return None

def do_e2e(c):
    d = _dir()
    try:
        g, a, p = G.write_world(c['world'], d)
        ref = ['--genome-fasta', g, '--annotation-gtf', a, '--proteome-fasta', p, '--quiet']
        index_errors = []
        if c.get('index'):
            # an index directory holding several canonical pools: generateIndex with the first settings, updateIndex for
            # each further one (registration order as given); the callers then get --index-dir instead of the files
            idx = os.path.join(d, 'index')
            for j, st in enumerate(c['index']['settings']):
                if j == 0:
                    e = _run(['generateIndex', '-g', g, '-a', a, '-p', p, '-o', idx, '--quiet'] + _cleave_args(st))
                else:
                    e = _run(['updateIndex', '--index-dir', idx, '--quiet'] + _cleave_args(st))
                if e:
                    index_errors.append('%s:%s' % ('generateIndex' if j == 0 else 'updateIndex', e['__exc__']))
            ref = ['--index-dir', idx, '--quiet']
        gvfs = []
        for i, rows in enumerate(c.get('gvf_files', [])):
            gp = os.path.join(d, 'v%d.gvf' % i)
            write_gvf(gp, rows, source=['gSNP', 'gINDEL', 'sSNV'][i % 3])
            gvfs.append(gp)
        res = []
        for i, r in enumerate(c['runs']):
            one = {}
            cl = _cleave_args(r)
            if gvfs and 'variant' in r['cmds']:
                outp = os.path.join(d, 'var%d.fasta' % i)
                argv = ['callVariant', '--input-path'] + gvfs + ['--output-path', outp] + ref + cl + ['--threads', '1']
                for flag in r.get('variant_flags', []):
                    argv.append(flag)
                e = _run(argv)
                if e:
                    one['variant'] = e
                else:
                    tp = os.path.join(d, 'var%d_peptide_table.txt' % i)
                    one['variant'] = {'fasta': read_fasta(outp),
                                      'table': open(tp).read() if os.path.exists(tp) else None}
            if 'novel' in r['cmds']:
                outp = os.path.join(d, 'novel%d.fasta' % i)
                argv = ['callNovelORF', '--output-path', outp] + ref + cl + ['--min-tx-length', '21']
                for flag in r.get('novel_flags', []):
                    argv.append(flag)
                e = _run(argv)
                one['novel'] = e if e else {'fasta': read_fasta(outp)}
            if 'alt' in r['cmds']:
                outp = os.path.join(d, 'alt%d.fasta' % i)
                argv = ['callAltTranslation', '--output-path', outp] + ref + cl
                for flag in r.get('alt_flags', []):
                    argv.append(flag)
                e = _run(argv)
                one['alt'] = e if e else {'fasta': read_fasta(outp)}
            res.append(one)
        return {'runs': res, 'index_errors': index_errors}
    finally:
        shutil.rmtree(d, ignore_errors=True)

def handle(c):
    k = c['kind']
    if k == 'adds':
        return do_adds(c)
    if k == 'table':
        return do_table(c)
    if k == 'vpool':
        return do_vpool(c)
    if k == 'graph_valid':
        return do_graph_valid(c)
    if k == 'text':
        return do_text(c)
    if k == 'e2e':
        return do_e2e(c)
    raise ValueError(k)
