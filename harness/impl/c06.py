"""Implementation side for C06: the real callVariant entry point (cli.call_variant_peptide via the
real argparse sub-parser), generateIndex and indexGVF.

kind 'loop' : observe the dispatch loop.  In the worker process (never in /repo) the names the loop
              resolves at call time are wrapped:  ParallelPool -> a serial pool that records each batch
              it is given and calls the real caller_reducer on every element;  caller_reducer -> records
              the single-thread call;  VariantPeptideCaller.gather_data_for_call_variant -> records
              (tx_id, returned None?) and, for transcripts listed in case['force_skip'], returns None
              after calling the real method (a generated skip pattern on top of the natural ones).
kind 'cli'  : no wrapping at all (real pathos pool when threads > 1); only the FASTA is read back.
"""
import argparse, os, sys, importlib, shutil, logging, copy
from pathlib import Path
importlib.import_module('moPepGen.cli.call_variant_peptide')
CVP = sys.modules['moPepGen.cli.call_variant_peptide']
from moPepGen import cli

_WD = ['.']
_N = [0]
_REAL = dict(pool=CVP.ParallelPool, reducer=CVP.caller_reducer,
             gather=CVP.VariantPeptideCaller.gather_data_for_call_variant,
             wrapper=CVP.call_variant_peptides_wrapper)

def init(wd):
    _WD[0] = wd
    logging.getLogger('moPepGen').setLevel(logging.CRITICAL)

def parser():
    p = argparse.ArgumentParser()
    sub = p.add_subparsers(dest='command')
    cli.add_subparser_call_variant(sub)
    cli.add_subparser_generate_index(sub)
    cli.add_subparser_update_index(sub)
    cli.add_subparser_index_gvf(sub)
    return p

def read_fasta_seqs(path):
    seqs, cur = [], None
    if not os.path.exists(path):
        return None
    for line in open(path):
        line = line.strip()
        if line.startswith('>'):
            if cur is not None:
                seqs.append(cur)
            cur = ''
        elif cur is not None:
            cur += line
    if cur is not None:
        seqs.append(cur)
    return sorted(seqs)

def read_fasta_entries(path):
    """sorted [header, sequence] pairs (the `order` stream compares headers as well)"""
    out, h, cur = [], None, ''
    if not os.path.exists(path):
        return None
    for line in open(path):
        line = line.strip()
        if line.startswith('>'):
            if h is not None:
                out.append([h, cur])
            h, cur = line[1:], ''
        elif h is not None:
            cur += line
    if h is not None:
        out.append([h, cur])
    return sorted(out)

def setup(c):
    """write the world and the GVF files; returns (dir, reference args, gvf paths)"""
    _N[0] += 1
    d = os.path.join(_WD[0], 'c%d' % _N[0])
    os.makedirs(d)
    for name in ('genome.fasta', 'annotation.gtf', 'proteome.fasta'):
        open(os.path.join(d, name), 'w').write(c['world'][name])
    gvfs = []
    for k, text in enumerate(c['gvfs']):
        p = os.path.join(d, 'v%d.gvf' % k)
        open(p, 'w').write(text)
        gvfs.append(p)
    P = parser()
    ref = ['-g', os.path.join(d, 'genome.fasta'), '-a', os.path.join(d, 'annotation.gtf'),
           '-p', os.path.join(d, 'proteome.fasta')]
    if c.get('index_dir'):
        idx = os.path.join(d, 'index')
        # index_pools: an index directory that holds SEVERAL canonical pools - generateIndex with the first setting,
        # updateIndex for every further one, in the given registration order; the run's own setting is cleavage_args
        pools = c.get('index_pools') or [c.get('cleavage_args', [])]
        a = P.parse_args(['generateIndex', '-o', idx, '-q', '--cleavage-exception', c.get('exc', 'none')]
                         + [str(x) for x in pools[0]] + [str(x) for x in c.get('ref_args', [])] + ref)
        a.func(a)
        for extra in pools[1:]:
            a = P.parse_args(['updateIndex', '--index-dir', idx, '-q', '--cleavage-exception', c.get('exc', 'none')]
                             + [str(x) for x in extra])
            a.func(a)
        ref = ['--index-dir', idx]
    if c.get('gvf_idx'):
        for p in gvfs:
            a = P.parse_args(['indexGVF', '-i', p, '-q'])
            a.func(a)
    return d, ref, gvfs, P

def call_variant(c, d, ref, gvfs, P):
    out = os.path.join(d, 'out.fasta')
    argv = ['callVariant', '-i'] + gvfs + ['-o', out, '--threads', str(c['threads']), '-q',
                                         '--cleavage-exception', c.get('exc', 'none')] + ref
    argv += [str(x) for x in c.get('cleavage_args', [])] + [str(x) for x in c.get('call_args', [])] + [str(x) for x in c.get('ref_args', [])]
    if c.get('noncanonical'):
        argv.append('--noncanonical-transcripts')
    if c.get('skip_failed'):
        argv.append('--skip-failed')
    a = P.parse_args(argv)
    a.func(a)                       # == cli.call_variant_peptide(args)
    if c.get('headers'):
        return {'seqs': read_fasta_seqs(out), 'entries': read_fasta_entries(out)}
    return read_fasta_seqs(out)

def mk_record(spec):
    """a real VariantRecord from {start, end, strand, ref, alt, type, attrs, id}"""
    from moPepGen.seqvar.VariantRecord import VariantRecord
    from moPepGen.SeqFeature import FeatureLocation
    loc = FeatureLocation(seqname='G', start=spec['start'], end=spec['end'], strand=spec['strand'])
    return VariantRecord(location=loc, ref=spec['ref'], alt=spec['alt'], _type=spec['type'], _id=spec['id'],
                         attrs=dict(spec.get('attrs') or {}))

def handle_vr(c):
    """the six comparison methods, __hash__, sorted() and set() on real VariantRecord objects"""
    recs = [mk_record(x) for x in c['records']]
    out = {}
    if c.get('pairs'):
        out['cmp'] = []
        for i, j in c['pairs']:
            a, b = recs[i], recs[j]
            out['cmp'].append([a == b, a > b, a >= b, a < b, a <= b, hash(a) == hash(b),
                               a.location == b.location, a.location > b.location])
    out['sorted'] = [[x.id for x in sorted([recs[k] for k in perm])] for perm in c.get('perms', [])]
    out['set'] = [sorted(x.id for x in set([recs[k] for k in perm])) for perm in c.get('perms', [])]
    return out

def handle(c):
    if c['kind'] == 'vr':
        return handle_vr(c)
    d, ref, gvfs, P = setup(c)
    try:
        if c['kind'] == 'cli':
            series = []
            if c.get('observe_series'):
                # record (never change) the order of every sorted series with >= 2 transcriptional records
                from moPepGen.seqvar.VariantRecordPoolOnDisk import TranscriptionalVariantSeries as TVS
                real_sort = TVS.sort
                def sort(self):
                    real_sort(self)
                    ids = [v.id for v in self.transcriptional]
                    if len(ids) >= 2 and ids not in series:
                        series.append(ids)
                TVS.sort = sort
            try:
                r = call_variant(c, d, ref, gvfs, P)
            finally:
                if c.get('observe_series'):
                    TVS.sort = real_sort
            if c.get('headers'):
                return {'peptides': r['seqs'], 'entries': r['entries'], 'series': series}
            return {'peptides': r}
        # ---- kind == 'loop'
        batches, gathered = [], []
        force = set(c.get('force_skip', []))

        class SerialPool:
            def __init__(self, ncpus=None):
                self.ncpus = ncpus
            def map(self, f, xs):
                xs = list(xs)
                batches.append([x['tx_id'] for x in xs])
                # a real pool pickles every dispatch into its worker process: emulate the isolation
                return [_REAL['reducer'](copy.deepcopy(x)) for x in xs]

        def reducer(dispatch):
            batches.append([dispatch['tx_id']])
            return _REAL['reducer'](dispatch)

        def gather(self, tx_id, pool):
            r = _REAL['gather'](self, tx_id, pool)
            if tx_id in force:
                r = None
            gathered.append([tx_id, not r])
            return r

        # forced timeouts: the FIRST attempt of the listed transcripts raises TimeoutError (what
        # common.timeout raises when --timeout-seconds expires), so caller_reducer's retry path runs
        pending_timeouts = list(c.get('timeout_tx', []))
        attempts = []

        def timed_wrapper(**dispatch):
            tx = dispatch['tx_id']
            attempts.append([tx, dispatch['cleavage_params'].max_variants_per_node,
                             dispatch['cleavage_params'].additional_variants_per_misc])
            if tx in pending_timeouts:
                pending_timeouts.remove(tx)
                raise TimeoutError('forced by the harness')
            return _REAL['wrapper'](**dispatch)

        if c.get('timeout_tx'):
            CVP.call_variant_peptides_wrapper = timed_wrapper
        CVP.ParallelPool = SerialPool
        CVP.caller_reducer = reducer
        CVP.VariantPeptideCaller.gather_data_for_call_variant = gather
        try:
            peps = call_variant(c, d, ref, gvfs, P)
        finally:
            CVP.call_variant_peptides_wrapper = _REAL['wrapper']
            CVP.ParallelPool = _REAL['pool']
            CVP.caller_reducer = _REAL['reducer']
            CVP.VariantPeptideCaller.gather_data_for_call_variant = _REAL['gather']
        return {'peptides': peps, 'batches': batches, 'gathered': gathered, 'attempts': attempts}
    finally:
        shutil.rmtree(d, ignore_errors=True)
