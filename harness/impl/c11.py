"""Implementation side for C11: the repo's annotation model, coordinate conversions, sequence
extraction, on-disk (pointer) annotation and GTF writer, called in-process.

handle(case) for kind 'world' writes the generated world to the private work directory and returns
  conv     : per transcript / gene, the result of every conversion at every requested position
  seqs     : transcript / gene sequences, ORF, Sec positions (fully parsed and on-disk annotation)
  dump     : canonical dump of every fully parsed gene / transcript model
  disk     : for each access of each requested history on GenomicAnnotationOnDisk: result digest (or
             error class) and the pointer dictionary's internal (deque, cached keys) state
  roundtrip: canonical dump after GtfIO.write -> dump_gtf
Errors are encoded as strings 'E:<Class>' ; a ValueError carrying the repo's own
ERROR_INDEX_IN_INTRON constant (the way callers recognise an intronic position) is 'E:ValueError:intron'.
"""
import os, sys, io, json, hashlib, shutil
from pathlib import Path

ROOT = os.path.dirname(os.path.dirname(os.path.dirname(os.path.abspath(__file__))))
if ROOT not in sys.path:
    sys.path.insert(0, ROOT)
from harness.lib import gen_reference as G

from moPepGen import ERROR_INDEX_IN_INTRON
from moPepGen.gtf import GtfIO
from moPepGen.gtf.GenomicAnnotation import GenomicAnnotation
from moPepGen.gtf.GenomicAnnotationOnDisk import GenomicAnnotationOnDisk
from moPepGen.gtf import GTFPointer
from moPepGen.dna.DNASeqDict import DNASeqDict
from moPepGen.aa.AminoAcidSeqDict import AminoAcidSeqDict

WD = None
COUNT = [0]

def init(wd):
    global WD
    WD = wd

def guard(f, *a):
    try:
        r = f(*a)
        return int(r) if not isinstance(r, bool) else r
    except ValueError as e:
        if e.args and e.args[0] == ERROR_INDEX_IN_INTRON:
            return 'E:ValueError:intron'
        return 'E:ValueError'
    except Exception as e:  # noqa
        return 'E:' + type(e).__name__

def feat(f):
    attrs = {}
    for k, v in f.attributes.items():
        attrs[k] = list(v) if isinstance(v, list) else v
    return {'chrom': f.chrom, 'start': int(f.location.start), 'end': int(f.location.end),
            'strand': f.location.strand, 'type': f.type, 'frame': f.frame, 'attrs': attrs,
            'id': f.id}

LISTS = ['cds', 'exon', 'start_codon', 'stop_codon', 'utr', 'five_utr', 'three_utr', 'selenocysteine']
SCAL = ['is_protein_coding', 'transcript_id', 'gene_id', 'protein_id', 'gene_name', 'gene_type']

def dump_tx(m):
    d = {'transcript': feat(m.transcript) if m.transcript is not None else None}
    # `source` is compared for the transcript record only (the one record whose .biotype the tool
    # reads); the on-disk loader leaves it None on every other record
    d['transcript_source'] = getattr(m.transcript, 'source', '<none>') if m.transcript is not None else None
    for k in LISTS:
        d[k] = [feat(x) for x in getattr(m, k)]
    for k in SCAL:
        d[k] = getattr(m, k)
    # every consumer tests truthiness only; the on-disk loader turns "never checked" (None) into False
    d['is_protein_coding'] = bool(m.is_protein_coding)
    d['cds_start_nf'] = m.is_cds_start_nf()
    d['mrna_end_nf'] = m.is_mrna_end_nf()
    return d

def dump_gene(m):
    d = feat(m)
    d['transcripts'] = sorted(m.transcripts)      # on-disk: built from a set (hash order)
    d['n_exons'] = len(m.exons)
    d['gene_id'] = m.gene_id
    d['gene_name'] = m.gene_name
    return d

def digest(d):
    return hashlib.md5(json.dumps(d, sort_keys=True).encode()).hexdigest()

def seq_info(tx_model, chrom):
    try:
        s = tx_model.get_transcript_sequence(chrom)
    except ValueError as e:
        if e.args and e.args[0] == ERROR_INDEX_IN_INTRON:
            return 'E:ValueError:intron'
        return 'E:ValueError'
    except Exception as e:  # noqa
        return 'E:' + type(e).__name__
    orf = None if s.orf is None else [int(s.orf.start), int(s.orf.end)]
    return {'seq': str(s.seq), 'orf': orf, 'sec': [[int(x.start), int(x.end)] for x in s.selenocysteine],
            'id': s.id, 'desc': s.description, 'loc': loc_of(s)}

def loc_of(s):
    """the MatchedLocation list attached to a sequence record"""
    return [[int(x.query.start), int(x.query.end), int(x.ref.start), int(x.ref.end), x.ref.seqname] for x in s.locations]

def err_tag(e):
    if isinstance(e, ValueError) and e.args and e.args[0] == ERROR_INDEX_IN_INTRON:
        return 'E:ValueError:intron'
    return 'E:' + type(e).__name__

def cdna_info(tx_model, chrom):
    try:
        s = tx_model.get_cdna_sequence(chrom)
    except Exception as e:  # noqa
        return err_tag(e)
    return {'seq': str(s.seq), 'loc': loc_of(s), 'id': s.id, 'desc': s.description}

def gene_seq_info(gm, chrom):
    try:
        s = gm.get_gene_sequence(chrom)
    except Exception as e:  # noqa
        return err_tag(e)
    return {'seq': str(s.seq), 'loc': loc_of(s)}

def snapshot(anno):
    return {'g': {k: dump_gene(v) for k, v in anno.genes.items()},
            't': {k: dump_tx(v) for k, v in anno.transcripts.items()}}

def snap_diff(a, b):
    """first difference between two snapshots: (which, key, [fields])"""
    for w in 'gt':
        if list(a[w].keys()) != list(b[w].keys()):
            return [w, '<keys>', []]
        for k, v in a[w].items():
            if b[w][k] != v:
                return [w, k, sorted(f for f in v if v[f] != b[w][k].get(f))]
    return None

def do_op(anno, genome, world_chrom, op):
    """one READ-ONLY operation on an annotation object; returns its canonical result"""
    kind = op[0]
    if kind == 'seq':
        return seq_info_cache(anno.transcripts[op[1]], genome[world_chrom[op[1]]], bool(op[2]))
    if kind == 'cdna':
        return cdna_info(anno.transcripts[op[1]], genome[world_chrom[op[1]]])
    if kind == 'gseq':
        return gene_seq_info(anno.genes[op[1]], genome[world_chrom[op[1]]])
    if kind == 'g2tx':
        return guard(anno.transcripts[op[1]].get_transcript_index, op[2])
    if kind == 'tx2g':
        return guard(anno.coordinate_transcript_to_genomic, op[2], op[1])
    if kind == 'gene2tx':
        return guard(anno.coordinate_gene_to_transcript, op[3], op[1], op[2])
    if kind == 'exonic_txs':
        return sorted(m.transcript.transcript_id for m in anno.get_transcripts_with_exonic_position(op[1], op[2]))
    if kind == 'write':
        buf = io.StringIO()
        GtfIO.write(buf, anno)
        return buf.getvalue()
    raise ValueError(kind)

def seq_info_cache(tx_model, chrom, cache):
    try:
        s = tx_model.get_transcript_sequence(chrom, cache=cache)
    except Exception as e:  # noqa
        return err_tag(e)
    orf = None if s.orf is None else [int(s.orf.start), int(s.orf.end)]
    return {'seq': str(s.seq), 'orf': orf, 'sec': [[int(x.start), int(x.end)] for x in s.selenocysteine],
            'id': s.id, 'desc': s.description, 'loc': loc_of(s)}

def run_ops(anno, genome, world_chrom, ops, writable, snap0, d):
    """operation history on ONE annotation object.  After every operation the whole observer-visible
    state (canonical dump of every model) must equal the snapshot taken BEFORE the history, and an
    operation repeated later must return what it returned the first time."""
    problems = []
    first = {}
    nw = 0
    last_write = None
    for i, op in enumerate(ops):
        if op[0] == 'write' and not writable:
            continue
        try:
            r = do_op(anno, genome, world_chrom, op)
        except Exception as e:  # noqa
            r = err_tag(e)
        key = json.dumps(op[:3] if op[0] == 'seq' and False else op)
        if op[0] == 'seq':
            key = json.dumps(['seq', op[1]])          # cache flag must not change the result
        if key in first:
            if first[key] != r and len(problems) < 4:
                a, b = first[key], r
                what = 'text differs' if isinstance(a, str) and isinstance(b, str) and not a.startswith('E:') else \
                    (sorted(f for f in a if a[f] != b.get(f)) if isinstance(a, dict) and isinstance(b, dict) else [str(a)[:80], str(b)[:80]])
                problems.append({'step': i, 'op': op, 'kind': 'result_changed', 'what': what})
        else:
            first[key] = r
        if op[0] == 'write':
            nw += 1
            last_write = r
        if writable:
            df = snap_diff(snap0, snapshot(anno))
        else:                                          # on-disk: the model served for the touched key
            df = None
            if op[0] in ('seq', 'cdna', 'g2tx', 'tx2g') and not isinstance(r, str):
                tid = op[1]
                if dump_tx(anno.transcripts[tid]) != snap0['t'][tid]:
                    df = ['t', tid, sorted(f for f in snap0['t'][tid] if snap0['t'][tid][f] != dump_tx(anno.transcripts[tid]).get(f))]
        if df and len(problems) < 4:
            problems.append({'step': i, 'op': op, 'kind': 'state_changed', 'what': df})
            if writable:
                snap0 = snapshot(anno)                 # report each change once
    res = {'problems': problems, 'n_ops': len(ops), 'writes': nw, 'results': first}
    if writable and last_write is not None and not last_write.startswith('E:'):
        rt_path = os.path.join(d, 'history_rt.gtf')
        with open(rt_path, 'w', encoding='utf-8') as f:
            f.write(last_write)
        try:
            a2 = GenomicAnnotation()
            a2.dump_gtf(rt_path)
            res['reparsed'] = snapshot(a2)
        except Exception as e:  # noqa
            res['reparsed'] = err_tag(e)
    return res

def state_of(d):
    return [list(d._cached_keys), sorted(d._cache.keys())]

def run_history(anno, hist, full_digest):
    out = []
    for which, key in hist:
        d = anno.genes if which == 'g' else anno.transcripts
        try:
            m = d[key]
            r = digest(dump_gene(m) if which == 'g' else dump_tx(m))
        except Exception as e:  # noqa
            r = 'E:' + type(e).__name__
        out.append([r, state_of(d)])
    return out

def load_proteome(path):
    p = AminoAcidSeqDict()
    p.dump_fasta(path, source='GENCODE')
    return p

def handle(c):
    if c['kind'] == 'world':
        return do_world(c)
    if c['kind'] == 'cache_only':
        return do_cache_only(c)
    raise ValueError(c['kind'])

def _write(c):
    COUNT[0] += 1
    d = os.path.join(WD or '.', 'w%d' % COUNT[0])
    os.makedirs(d)
    world = c['world']
    g, a, p = G.write_world(world, d)
    if c.get('gtf_text') is not None:           # exact file content (UTF-8 bytes) supplied by the harness
        with open(a, 'wb') as f:
            f.write(c['gtf_text'].encode('utf-8'))
    elif c.get('gtf_lines') is not None:        # mutated / malformed GTF lines supplied by the harness
        with open(a, 'w') as f:
            f.write('\n'.join(c['gtf_lines']) + '\n')
    return d, g, a, p

def do_world(c):
    d, gpath, apath, ppath = _write(c)
    try:
        return _do_world(c, d, gpath, apath, ppath)
    finally:
        shutil.rmtree(d, ignore_errors=True)

def _do_world(c, d, gpath, apath, ppath):
    world = c['world']
    out = {}
    genome = DNASeqDict()
    genome.dump_fasta(gpath)
    anno = GenomicAnnotation()
    anno.dump_gtf(apath)
    proteome = None
    if c.get('check_coding'):
        proteome = load_proteome(ppath)
        anno.check_protein_coding(proteome, True)
    out['source'] = anno.source
    # ---- conversions on the fully parsed annotation
    conv = {'tx': {}, 'gene': {}}
    for gene in world['genes']:
        gid = gene['id']
        pr = c['pos']['gene'][gid]
        gpos = range(pr['g'][0], pr['g'][1])
        ipos = range(pr['i'][0], pr['i'][1])
        conv['gene'][gid] = {
            'g2gene': [guard(anno.coordinate_genomic_to_gene, g, gid) for g in gpos],
            'gene2g': [guard(anno.coordinate_gene_to_genomic, i, gid) for i in ipos],
        }
        for tx in gene['transcripts']:
            tid = tx['id']
            tr = c['pos']['tx'][tid]
            tm = anno.transcripts[tid]
            conv['tx'][tid] = {
                'g2tx': [guard(tm.get_transcript_index, g) for g in range(tr['g'][0], tr['g'][1])],
                'exonic': [guard(tm.is_exonic, g) for g in range(tr['g'][0], tr['g'][1])],
                'tx2g': [guard(anno.coordinate_transcript_to_genomic, i, tid) for i in range(tr['i'][0], tr['i'][1])],
                'gene2tx': [guard(anno.coordinate_gene_to_transcript, i, gid, tid) for i in ipos],
                'len': guard(tm.transcript_len),
            }
    nm = c.get('nonmember')
    if nm:
        gid, tid = nm
        pr = c['pos']['gene'][gid]
        conv['nonmember'] = [guard(anno.coordinate_gene_to_transcript, i, gid, tid) for i in range(pr['i'][0], pr['i'][1])]
    out['conv'] = conv
    # ---- dumps of the fully parsed models
    dump = {'g': {k: dump_gene(v) for k, v in anno.genes.items()},
            't': {k: dump_tx(v) for k, v in anno.transcripts.items()}}
    out['dump'] = dump
    out['gene_order'] = list(anno.genes.keys())
    out['tx_order'] = list(anno.transcripts.keys())
    # ---- sequences (fully parsed)
    seqs = {'tx': {}, 'gene': {}}
    for gene in world['genes']:
        chrom = genome[gene['chrom']]
        gm = anno.genes[gene['id']]
        gi = gene_seq_info(gm, chrom)
        seqs['gene'][gene['id']] = gi if isinstance(gi, str) else gi['seq']
        seqs.setdefault('gene_loc', {})[gene['id']] = None if isinstance(gi, str) else gi['loc']
        for tx in gene['transcripts']:
            seqs['tx'][tx['id']] = seq_info(anno.transcripts[tx['id']], chrom)
            if tx['cds'] or c.get('cdna_all'):
                seqs.setdefault('cdna', {})[tx['id']] = cdna_info(anno.transcripts[tx['id']], chrom)
    out['seqs'] = seqs
    # ---- on-disk annotation, two ways of obtaining the pointers
    disk = {}
    a1 = GenomicAnnotationOnDisk()
    a1.generate_index(apath)
    if proteome is not None:
        a1.check_protein_coding(proteome, True)
    out['disk_source'] = a1.source
    out['disk_keys'] = [sorted(a1.genes.keys()), sorted(a1.transcripts.keys())]
    disk['gen'] = run_history(a1, c['hist']['gen'], None)
    # the way IndexDir.save_annotation / load_annotation do it
    gene_idx, tx_idx = a1.get_index_files(apath)
    with open(gene_idx, 'wt') as h:
        for k in a1.genes.keys():
            h.write(a1.genes.get_pointer(k).to_line() + '\n')
    with open(tx_idx, 'wt') as h:
        for k in a1.transcripts.keys():
            h.write(a1.transcripts.get_pointer(k).to_line() + '\n')
    a2 = GenomicAnnotationOnDisk()
    try:
        a2.init_handle(apath)
        a2.load_index(Path(apath), source=a1.source)
    except Exception as e:  # noqa   the idx files cannot be loaded at all: every idx-based part is skipped
        out['idx_load_error'] = err_tag(e)
        a2 = a1                                   # sequences through the on-disk annotation: use generate_index
    if 'idx_load_error' not in out:
        disk['idx'] = run_history(a2, c['hist']['idx'], None)
    # the pointer files as written (key, start, end, transcripts / coding flag)
    out['idx'] = {'g': [], 't': []}
    with open(gene_idx, 'rt') as h:
        for line in h:
            f = line.rstrip('\n').split('\t')
            out['idx']['g'].append([f[0], int(f[1]), int(f[2]), sorted(x for x in f[3].split(',') if x)])
    with open(tx_idx, 'rt') as h:
        for line in h:
            f = line.rstrip('\n').split('\t')
            out['idx']['t'].append([f[0], int(f[1]), int(f[2]), f[3]])
    for hname, hist in c['hist'].items():
        if hname in ('gen', 'idx'):
            continue
        a3 = GenomicAnnotationOnDisk()
        if hname.startswith('idx'):             # fresh annotation from the idx files
            if 'idx_load_error' in out:
                continue
            a3.init_handle(apath)
            a3.load_index(Path(apath), source=a1.source)
        else:                                   # fresh annotation from generate_index
            a3.generate_index(apath)
            if proteome is not None:
                a3.check_protein_coding(proteome, True)
        disk[hname] = run_history(a3, hist, None)
        del a3
    # sequences through the on-disk annotation (exercises the cache from the API side)
    dseq = {}
    for gene in world['genes']:
        chrom = genome[gene['chrom']]
        for tx in gene['transcripts']:
            try:
                dseq[tx['id']] = seq_info(a2.transcripts[tx['id']], chrom)
                if tx['cds']:
                    out.setdefault('disk_cdna', {})[tx['id']] = cdna_info(a2.transcripts[tx['id']], chrom)
            except Exception as e:  # noqa
                dseq[tx['id']] = 'E:' + type(e).__name__
    out['disk_seqs'] = dseq
    out['disk'] = disk
    del a1, a2
    # ---- write -> parse round trip of the fully parsed annotation
    buf = io.StringIO()
    try:
        GtfIO.write(buf, anno)
        out['roundtrip_text_md5'] = hashlib.md5(buf.getvalue().encode('utf-8')).hexdigest()
        rt_path = os.path.join(d, 'roundtrip.gtf')
        with open(rt_path, 'w', encoding='utf-8') as f:
            f.write(buf.getvalue())
        anno2 = GenomicAnnotation()
        anno2.dump_gtf(rt_path)
        out['roundtrip'] = {'g': {k: dump_gene(v) for k, v in anno2.genes.items()},
                            't': {k: dump_tx(v) for k, v in anno2.transcripts.items()},
                            'gene_order': list(anno2.genes.keys()), 'tx_order': list(anno2.transcripts.keys())}
    except Exception as e:  # noqa
        out['roundtrip'] = 'E:' + type(e).__name__ + ':' + str(e)[:200]
    # ---- operation histories on ONE object: a fresh fully parsed annotation and a fresh on-disk one
    if c.get('ops'):
        world_chrom = {}
        for gene in world['genes']:
            world_chrom[gene['id']] = gene['chrom']
            for tx in gene['transcripts']:
                world_chrom[tx['id']] = gene['chrom']
        ah = GenomicAnnotation()
        ah.dump_gtf(apath)
        if proteome is not None:
            ah.check_protein_coding(load_proteome(ppath), True)
        h = run_ops(ah, genome, world_chrom, c['ops'], True, snapshot(ah), d)
        h['snapshot_equals_main'] = snapshot(ah) == out['dump'] if not h['problems'] else None
        out['history'] = h
        ad = GenomicAnnotationOnDisk()
        if 'idx_load_error' in out:
            ad.generate_index(apath)
            if proteome is not None:
                ad.check_protein_coding(load_proteome(ppath), True)
        else:
            ad.init_handle(apath)
            ad.load_index(Path(apath), source=out['disk_source'])
        out['disk_history'] = run_ops(ad, genome, world_chrom, c['ops'], False, out['dump'], d)
        for hh in (out['history'], out['disk_history']):
            for k, v in list(hh['results'].items()):
                if k.startswith('["write"') and isinstance(v, str) and not v.startswith('E:'):
                    hh['results'][k] = hashlib.md5(v.encode('utf-8')).hexdigest()
    return out

def do_cache_only(c):
    """a history on the pointer dictionaries alone (minimised replays of cache findings)"""
    d, gpath, apath, ppath = _write(c)
    try:
        a = GenomicAnnotationOnDisk()
        a.generate_index(apath)
        return {'disk': {'bad': run_history(a, c['hist'], None)},
                'disk_keys': [sorted(a.genes.keys()), sorted(a.transcripts.keys())]}
    finally:
        shutil.rmtree(d, ignore_errors=True)
