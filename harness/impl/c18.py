"""Implementation side for C18: the repo's real CLI functions split_fasta / summarize_fasta / merge_fasta /
encode_fasta called with a Namespace, on a real generateIndex index dir and real GVF files."""
import os, sys, json, argparse, hashlib, shutil, logging, glob
from pathlib import Path

ROOT = os.path.dirname(os.path.dirname(os.path.dirname(os.path.abspath(__file__))))
sys.path.insert(0, ROOT)
sys.path.insert(0, os.path.dirname(os.path.abspath(__file__)))
from harness.lib import gen_reference as G
from moPepGen import cli
import c19 as C19

WD = None
_n = 0

def init(wd):
    global WD
    WD = wd
    C19.init(wd)
    logging.disable(logging.CRITICAL)
    import matplotlib
    matplotlib.use('Agg')

def write_gvf(path, gvf):
    """gvf: {source, parser, records: [[gene_id, variant_id, tx_id], ...]}"""
    with open(path, 'w') as f:
        f.write('##fileformat=VCFv4.2\n##mopepgen_version=1.4.6\n')
        f.write('##parser=%s\n##reference_index=\n##genome_fasta=\n##annotation_gtf=\n' % gvf['parser'])
        f.write('##source=%s\n' % gvf['source'])
        f.write('##CHROM=<Description="Gene ID">\n')
        f.write('##INFO=<ID=TRANSCRIPT_ID,Number=1,Type=String,Description="Transcript ID">\n')
        f.write('##INFO=<ID=GENE_SYMBOL,Number=1,Type=String,Description="Gene Symbol">\n')
        f.write('##INFO=<ID=GENOMIC_POSITION,Number=1,Type=String,Description="Genomic Position">\n')
        f.write('#CHROM\tPOS\tID\tREF\tALT\tQUAL\tFILTER\tINFO\n')
        for k, (gene, vid, tx) in enumerate(gvf['records']):
            if gvf['parser'] == 'parseCIRCexplorer':
                f.write('%s\t0\t%s\t.\t.\t.\t.\tOFFSET=0,30;LENGTH=20,12;INTRON=;TRANSCRIPT_ID=%s;GENE_SYMBOL=G;GENOMIC_POSITION=chr1:0:100\n' % (gene, vid, tx))
            else:
                f.write('%s\t%d\t%s\tA\tT\t.\t.\tTRANSCRIPT_ID=%s;GENOMIC_POSITION=chr1:%d;GENE_SYMBOL=G\n' % (gene, 10 + k, vid, tx, 10 + k))

def common_inputs(c, cd, idx):
    paths = {}
    for key in ('variant', 'novel', 'alt'):
        recs = c.get(key)
        if recs is not None:
            paths[key] = os.path.join(cd, key + '.fasta')
            C19.write_fasta(paths[key], recs)
    gvfs = []
    for i, g in enumerate(c.get('gvfs', [])):
        p = os.path.join(cd, 'g%d.gvf' % i)
        write_gvf(p, g)
        gvfs.append(Path(p))
    return dict(
        gvf=gvfs,
        variant_peptides=Path(paths['variant']) if 'variant' in paths else None,
        novel_orf_peptides=Path(paths['novel']) if 'novel' in paths else None,
        alt_translation_peptides=Path(paths['alt']) if 'alt' in paths else None,
        order_source=c.get('order_source'), group_source=c.get('group_source'),
        index_dir=Path(idx), annotation_gtf=None, proteome_fasta=None, genome_fasta=None, reference_source=None,
        quiet=True, debug_level=1)

def handle(c):
    global _n
    _n += 1
    k = c['kind']
    cd = os.path.join(WD, 'k%d' % _n)
    os.makedirs(cd)
    try:
        if k in ('split', 'summarize', 'both'):
            d, g, a, p, idx = C19.world_dir(c['world'])
            res = {}
            if k in ('split', 'both'):
                try:
                    kw = common_inputs(c, cd, idx)
                    out = os.path.join(cd, 'out')
                    os.makedirs(out)
                    ns = argparse.Namespace(command='splitFasta', max_source_groups=c.get('max_groups', 1),
                                            additional_split=c.get('additional_split'), output_prefix=Path(os.path.join(out, 'db')), **kw)
                    cli.split_fasta(ns)
                    dbs = {}
                    for f in sorted(glob.glob(os.path.join(out, 'db_*.fasta'))):
                        key = os.path.basename(f)[len('db_'):-len('.fasta')]
                        dbs[key] = C19.read_fasta(f)
                    res['split'] = dbs
                except BaseException as e:  # noqa
                    res['split'] = {'__exc__': type(e).__name__, 'msg': str(e)[:300]}
            if k in ('summarize', 'both'):
                try:
                    kw = common_inputs(c, cd, idx)
                    outp = os.path.join(cd, 'summary.txt')
                    ns = argparse.Namespace(command='summarizeFasta', output_path=Path(outp), output_image=None,
                                            ignore_missing_source=c.get('ignore_missing_source', False),
                                            plot_normal_scale=False, plot_log_scale=False,
                                            cleavage_rule=c.get('enzyme', 'trypsin'), **kw)
                    cli.summarize_fasta(ns)
                    res['summary'] = [l.rstrip('\n').split('\t') for l in open(outp)]
                except BaseException as e:  # noqa
                    res['summary'] = {'__exc__': type(e).__name__, 'msg': str(e)[:300]}
            return res
        if k == 'merge':
            paths = []
            for i, recs in enumerate(c['files']):
                p = os.path.join(cd, 'in%d.fasta' % i)
                C19.write_fasta(p, recs)
                paths.append(Path(p))
            outp = os.path.join(cd, 'merged.fasta')
            ns = argparse.Namespace(command='mergeFasta', input_path=paths, output_path=Path(outp),
                                    dedup_header=c.get('dedup_header', False), quiet=True, debug_level=1)
            cli.merge_fasta(ns)
            return {'merged': C19.read_fasta(outp)}
        if k == 'encode':
            p = os.path.join(cd, 'in.fasta')
            C19.write_fasta(p, c['fasta'])
            outp = os.path.join(cd, 'enc.fasta')
            ns = argparse.Namespace(command='encodeFasta', input_path=Path(p), output_path=Path(outp),
                                    decoy_string=c.get('decoy_string', 'DECOY_'),
                                    decoy_string_position=c.get('decoy_string_position', 'prefix'), quiet=True, debug_level=1)
            cli.encode_fasta(ns)
            d = [l.rstrip('\n').split('\t', 1) for l in open(outp + '.dict')]
            return {'encoded': C19.read_fasta(outp), 'dict': d}
        raise ValueError(k)
    finally:
        shutil.rmtree(cd, ignore_errors=True)
