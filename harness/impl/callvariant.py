"""Implementation side shared by C01/C02/C03: runs the repo's real callVariant entry point
in-process (moPepGen.cli.call_variant_peptide.call_variant_peptide) on files written from the case.

case = {
  'world': <gen_reference world>,            reference (genome, GTF, proteome are written from it)
  'gvf':   [ [gene_id, pos1, id, ref, alt, tx_id, gene_name], ... ]   rows of one GVF file (gene coordinates, 1-based)
  'runs':  [ {rule, exc, k, min_mw, min_len, max_len, mvpn, avpm, mnc, naa, extra:[...]} , ... ]
}
Result: {'runs': [ {'fasta': [[header, seq], ...]} | {'__exc__': class} ]}
The Namespace is built by the repo's own argparse sub-parser (add_subparser_call_variant).
"""
import os, sys, argparse, shutil, logging, traceback
sys.path.insert(0, os.path.join(os.path.dirname(os.path.dirname(os.path.abspath(__file__))), 'lib'))
import gen_reference as G
from moPepGen import cli
from moPepGen.cli.common import setup_loggers

_WD = None
_PARSER = None
_N = [0]

def init(wd):
    global _WD, _PARSER
    _WD = wd
    parser = argparse.ArgumentParser(prog='moPepGen')
    sub = parser.add_subparsers(dest='command')
    cli.add_subparser_call_variant(sub)
    _PARSER = parser
    try:
        setup_loggers('ERROR')
    except Exception:
        pass
    logging.disable(logging.CRITICAL)

GVF_HEAD = """##fileformat=VCFv4.2
##mopepgen_version=1.4.6
##parser=parseVEP
##reference_index=
##genome_fasta=
##annotation_gtf=
##source=%s
##CHROM=<Description='Gene ID'>
##INFO=<ID=TRANSCRIPT_ID,Number=1,Type=String,Description="Transcript ID">
##INFO=<ID=GENE_SYMBOL,Number=1,Type=String,Description="Gene Symbol">
##INFO=<ID=GENOMIC_POSITION,Number=1,Type=String,Description="Genomic Position">
#CHROM\tPOS\tID\tREF\tALT\tQUAL\tFILTER\tINFO
"""

def write_gvf(path, rows, source='gSNP'):
    with open(path, 'w') as f:
        f.write(GVF_HEAD % source)
        for gene_id, pos1, vid, ref, alt, tx_id, gname in rows:
            f.write('\t'.join([gene_id, str(pos1), vid, ref, alt, '.', '.',
                               'TRANSCRIPT_ID=%s;GENOMIC_POSITION=chr:%d;GENE_SYMBOL=%s' % (tx_id, pos1, gname)]) + '\n')

def write_fusion_gvf(path, fusions):
    """fusion rows are written by the repo's own GVF writer (seqvar.io.write / VariantRecord.to_string)"""
    from moPepGen import seqvar
    from moPepGen.SeqFeature import FeatureLocation
    recs = []
    for f in fusions:
        r = f['row']
        attrs = {'TRANSCRIPT_ID': r['tx_id'], 'GENE_SYMBOL': r['gene_symbol'],
                 'GENOMIC_POSITION': 'chr:%d-%d' % (r['start0'], r['start0']),
                 'ACCEPTER_GENE_ID': r['acc_gene_id'], 'ACCEPTER_TRANSCRIPT_ID': r['acc_tx_id'],
                 'ACCEPTER_SYMBOL': r['acc_gene_symbol'], 'ACCEPTER_POSITION': r['acc_pos0'],
                 'ACCEPTER_GENOMIC_POSITION': 'chr:%d-%d' % (r['acc_pos0'], r['acc_pos0'])}
        recs.append(seqvar.VariantRecord(
            location=FeatureLocation(seqname=r['gene_id'], start=r['start0'], end=r['start0'] + 1),
            ref=r['ref'], alt='<FUSION>', _type='Fusion', _id=r['id'], attrs=attrs))
    meta = seqvar.GVFMetadata(parser='parseSTARFusion', source='Fusion', chrom='Gene ID')
    seqvar.io.write(recs, path, meta)

def read_fasta(path):
    out = []
    head = None
    with open(path) as f:
        for line in f:
            line = line.rstrip('\n')
            if line.startswith('>'):
                head = line[1:]
                out.append([head, ''])
            elif head is not None:
                out[-1][1] += line
    return out

def _aslist(v):
    return list(v) if isinstance(v, (list, tuple)) else [v]

class _ForcedTimeouts:
    """C02 retry clause: inside THIS worker process only, make the first n attempts of every transcript
    raise TimeoutError (as common.timeout would) and log the limits each attempt is given."""
    def __init__(self, n, only_first=False):
        self.only_first, self.first = only_first, None
        import importlib
        M = importlib.import_module('moPepGen.cli.call_variant_peptide')   # the module, not the function re-exported by cli
        M = sys.modules['moPepGen.cli.call_variant_peptide']
        self.M, self.n, self.log, self.count = M, n, [], {}
    def __enter__(self):
        self.orig = self.M.call_variant_peptides_wrapper
        def fake(**dispatch):
            p = dispatch['cleavage_params']
            tx = dispatch['tx_id']
            self.log.append([tx, p.max_variants_per_node, p.additional_variants_per_misc])
            if self.first is None:
                self.first = tx
            if self.count.get(tx, 0) < self.n and (not self.only_first or tx == self.first):
                self.count[tx] = self.count.get(tx, 0) + 1
                raise TimeoutError('forced by the C02 correspondence')
            return self.orig(**dispatch)
        self.M.call_variant_peptides_wrapper = fake
        return self
    def __exit__(self, *a):
        self.M.call_variant_peptides_wrapper = self.orig

def one_run(d, g, a, p, gvfs, r, idx):
    outp = os.path.join(d, 'out%d.fasta' % idx)
    argv = ['callVariant', '--input-path'] + gvfs + [
        '--genome-fasta', g, '--annotation-gtf', a, '--proteome-fasta', p,
        '--output-path', outp,
        '--cleavage-rule', r['rule'], '--cleavage-exception', r['exc'],
        '--miscleavage', str(r['k']), '--min-mw', repr(r['min_mw']),
        '--min-length', str(r['min_len']), '--max-length', str(r['max_len']),
        '--max-variants-per-node'] + [str(v) for v in _aslist(r.get('mvpn', -1))] + [
        '--additional-variants-per-misc'] + [str(v) for v in _aslist(r.get('avpm', -1))] + [
        '--min-nodes-to-collapse', str(r.get('mnc', 30)),
        '--naa-to-collapse', str(r.get('naa', 5)),
        '--threads', '1', '--quiet'] + list(r.get('extra', []))
    argv = [(' ' + x) if (len(x) > 1 and x[0] == '-' and x[1].isdigit()) else x for x in argv]
    args = _PARSER.parse_args(argv)
    if not hasattr(args, 'quiet'):
        args.quiet = True
    forced = _ForcedTimeouts(int(r['force_timeouts']), bool(r.get('force_first_only'))) if r.get('force_timeouts') is not None else None
    try:
        if forced:
            with forced:
                cli.call_variant_peptide(args)
        else:
            cli.call_variant_peptide(args)
    except SystemExit as e:
        return {'__exc__': 'SystemExit', 'msg': str(e.code)}
    except BaseException as e:   # noqa
        out = {'__exc__': type(e).__name__, 'msg': str(e)[:300], 'tb': traceback.format_exc()[-1200:]}
        if forced:
            out['attempts'] = forced.log
        return out
    out = {'fasta': read_fasta(outp)}
    if forced:
        out['attempts'] = forced.log
    return out

def handle(case):
    _N[0] += 1
    d = os.path.join(_WD, 'c%d' % _N[0])
    os.makedirs(d)
    try:
        g, a, p = G.write_world(case['world'], d)
        gvfs = []
        files = case.get('gvf_files') or [case['gvf']]
        for i, rows in enumerate(files):
            gp = os.path.join(d, 'v%d.gvf' % i)
            write_gvf(gp, rows)
            gvfs.append(gp)
        if case.get('fusions'):
            gp = os.path.join(d, 'fusion.gvf')
            write_fusion_gvf(gp, case['fusions'])
            gvfs.append(gp)
        res = []
        for i, r in enumerate(case['runs']):
            res.append(one_run(d, g, a, p, gvfs, r, i))
        return {'runs': res}
    finally:
        shutil.rmtree(d, ignore_errors=True)
