"""Implementation side for C10: the repo's own digestion functions."""
from Bio.Seq import Seq
from moPepGen.aa.AminoAcidSeqRecord import AminoAcidSeqRecord
from moPepGen.aa.AminoAcidSeqDict import AminoAcidSeqDict

class _Tx:
    def __init__(self, nf): self.nf = nf
    def is_cds_start_nf(self): return self.nf
class _Anno:
    def __init__(self, d): self.transcripts = d

def handle(c):
    k = c['kind']
    if k == 'sites':
        r = AminoAcidSeqRecord(Seq(c['seq']))
        return r.find_all_enzymatic_cleave_sites(rule=c['rule'], exception=c['exc'])
    if k == 'sites_range':
        r = AminoAcidSeqRecord(Seq(c['seq']))
        return [[s, list(rg)] for s, rg in r.find_all_enzymatic_cleave_sites_with_ranges(rule=c['rule'], exception=c['exc'])]
    if k == 'cleave':
        r = AminoAcidSeqRecord(Seq(c['seq']))
        ps = r.enzymatic_cleave(rule=c['rule'], exception=c['exc'], miscleavage=c['k'], min_mw=c['min_mw'],
                                min_length=c['min_len'], max_length=c['max_len'], cds_start_nf=c['nf'])
        return [str(p.seq) for p in ps]
    if k == 'pool':
        d = AminoAcidSeqDict()
        txs = {}
        for i, (s, nf, known) in enumerate(c['prots']):
            tid = 'T%d' % i
            d[tid] = AminoAcidSeqRecord(Seq(s), _id=tid, transcript_id=tid)
            if known:
                txs[tid] = _Tx(nf)
        pool = d.create_unique_peptide_pool(anno=_Anno(txs), rule=c['rule'], exception=c['exc'], miscleavage=c['k'],
                                            min_mw=c['min_mw'], min_length=c['min_len'], max_length=c['max_len'])
        return sorted(pool)
    raise ValueError(k)
