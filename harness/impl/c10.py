"""Implementation side for C10: the repo's own digestion functions."""
from Bio.Seq import Seq
from moPepGen.aa.AminoAcidSeqRecord import AminoAcidSeqRecord
from moPepGen.aa.AminoAcidSeqDict import AminoAcidSeqDict

class _Tx:
    def __init__(self, nf): self.nf = nf
    def is_cds_start_nf(self): return self.nf
class _Anno:
    def __init__(self, d): self.transcripts = d

def handle(c):
    k = c['kind']
    if isinstance(c.get('exc'), dict):
        c = dict(c); c['exc'] = c['exc']['regex']
    if k == 'sites':
        r = AminoAcidSeqRecord(Seq(c['seq']))
        return r.find_all_enzymatic_cleave_sites(rule=c['rule'], exception=c['exc'])
    if k == 'sites_range':
        r = AminoAcidSeqRecord(Seq(c['seq']))
        return [[s, list(rg)] for s, rg in r.find_all_enzymatic_cleave_sites_with_ranges(rule=c['rule'], exception=c['exc'])]
    if k == 'aux':
        r = AminoAcidSeqRecord(Seq(c['seq']))
        kw = dict(rule=c['rule'], exception=c['exc'], exception_sites=c['given'])
        out = {}
        out['all'] = r.find_all_cleave_and_stop_sites(**kw)
        try:
            out['all_range'] = [[a, list(b)] for a, b in r.find_all_cleave_and_stop_sites_with_range(**kw)]
        except ValueError:
            out['all_range'] = 'ValueError'
        out['first'] = r.find_first_cleave_or_stop_site(**kw)
        try:
            fr = r.find_first_cleave_or_stop_site_with_range(**kw)
            out['first_range'] = [fr[0], list(fr[1]) if fr[1] is not None else None]
        except ValueError:
            out['first_range'] = 'ValueError'
        out['first_cleave'] = r.find_first_enzymatic_cleave_site(rule=c['rule'], exception=c['exc'], start=c['start'])
        out['exc_sites'] = list(r.get_enzymatic_cleave_exception_sites(c['exc']))
        return out
    if k == 'cleave':
        r = AminoAcidSeqRecord(Seq(c['seq']))
        ps = r.enzymatic_cleave(rule=c['rule'], exception=c['exc'], miscleavage=c['k'], min_mw=c['min_mw'],
                                min_length=c['min_len'], max_length=c['max_len'], cds_start_nf=c['nf'])
        return [str(p.seq) for p in ps]
    if k == 'pool':
        d = AminoAcidSeqDict()
        txs = {}
        for i, (s, nf, known) in enumerate(c['prots']):
            tid = 'T%d' % i
            d[tid] = AminoAcidSeqRecord(Seq(s), _id=tid, transcript_id=tid)
            if known:
                txs[tid] = _Tx(nf)
        pool = d.create_unique_peptide_pool(anno=_Anno(txs), rule=c['rule'], exception=c['exc'], miscleavage=c['k'],
                                            min_mw=c['min_mw'], min_length=c['min_len'], max_length=c['max_len'])
        return sorted(pool)
    raise ValueError(k)

# ---- CLI-level pools: generateIndex / updateIndex / on-the-fly load_references ----
import os, sys, shutil, argparse
sys.path.insert(0, os.path.dirname(os.path.dirname(os.path.dirname(os.path.abspath(__file__)))))
_wd = None
def init(wd):
    global _wd
    _wd = wd

def _cli_pool(c):
    from harness.lib import gen_reference as G
    import _cli
    from moPepGen.index import IndexDir
    from moPepGen.params import CleavageParams
    from moPepGen.cli import common
    d = os.path.join(_wd, 'case')
    shutil.rmtree(d, ignore_errors=True)
    os.makedirs(d)
    g, a, p = G.write_world(c['world'], d)
    with open(p, 'a') as fh:
        for pid, tid, gid, sq in c.get('extra_prots', []):
            fh.write('>%s|%s|%s|-|-|X|%d\n%s\n' % (pid, tid, gid, len(sq), sq))
    out = {}
    def cl(ps):
        return ['-c', ps['rule'], '--cleavage-exception', ps['exc'], '-m', ps['k'], '-w', ps['min_mw'],
                '-l', ps['min_len'], '-x', ps['max_len']]
    def cp(ps):
        return CleavageParams(enzyme=ps['rule'], exception=ps['exc'], miscleavage=int(ps['k']), min_mw=float(ps['min_mw']),
                              min_length=int(ps['min_len']), max_length=int(ps['max_len']))
    idx = os.path.join(d, 'index')
    force = []
    if c.get('prior_world'):
        # history: the same directory first indexes ANOTHER reference with every parameter set, then
        # generateIndex --force replaces the reference; no pool of the replaced proteome may survive
        dp = os.path.join(d, 'prior')
        os.makedirs(dp)
        g0, a0, p0 = G.write_world(c['prior_world'], dp)
        _cli.run(['generateIndex', '-g', g0, '-a', a0, '-p', p0, '-o', idx, '--quiet'] + cl(c['params'][0]))
        for ps in c['params'][1:]:
            _cli.run(['updateIndex', '--index-dir', idx, '--quiet'] + cl(ps))
        force = ['--force']
    _cli.run(['generateIndex', '-g', g, '-a', a, '-p', p, '-o', idx, '--quiet'] + force + cl(c['params'][0]))
    for ps in c['params'][1:]:
        _cli.run(['updateIndex', '--index-dir', idx, '--quiet'] + cl(ps))
    pools = []
    for ps in c['params']:
        pools.append(sorted(IndexDir(__import__('pathlib').Path(idx)).load_canonical_peptides(cp(ps))))
    out['index'] = pools
    fly = []
    from pathlib import Path
    for ps in c['params']:
        ns = argparse.Namespace(index_dir=None, genome_fasta=Path(g), annotation_gtf=Path(a), proteome_fasta=Path(p),
                                reference_source=None, cleavage_rule=ps['rule'], cleavage_exception=ps['exc'],
                                miscleavage=ps['k'], min_mw=ps['min_mw'], min_length=ps['min_len'], max_length=ps['max_len'])
        _, _, _, pool = common.load_references(ns, load_genome=False, load_canonical_peptides=True, cleavage_params=cp(ps))
        fly.append(sorted(pool))
    out['fly'] = fly
    shutil.rmtree(d, ignore_errors=True)
    return out

_old_handle = handle
def handle(c):
    if c['kind'] == 'pool_cli':
        return _cli_pool(c)
    return _old_handle(c)
