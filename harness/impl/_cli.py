"""Build the real moPepGen argument parser (as moPepGen.cli.__main__.main does) and run
sub-commands in-process."""
import argparse, sys, io, contextlib, logging
from moPepGen import cli, constant

_parser = None
def parser():
    global _parser
    if _parser is None:
        p = argparse.ArgumentParser(prog=constant.PROG_NAME)
        sub = p.add_subparsers(dest='command')
        for name in dir(cli):
            if name.startswith('add_subparser_'):
                getattr(cli, name)(sub)
        _parser = p
    return _parser

def parse(argv):
    argv = [str(a) for a in argv]
    old = sys.argv
    sys.argv = ['moPepGen'] + argv      # print_help_if_missing_args looks at sys.argv
    try:
        return parser().parse_args(argv)
    finally:
        sys.argv = old

def run(argv):
    """parse + run; returns the Namespace.  Exceptions (incl. SystemExit) propagate."""
    args = parse(argv)
    lg = logging.getLogger(constant.PROG_NAME)
    for h in list(lg.handlers):
        lg.removeHandler(h)
    args.func(args)
    return args
