"""Implementation side of the graph-stage correspondence (stream 'graph' of C02; docs/absgraph.md).

Runs the repo's real callVariant entry point in-process exactly like harness/impl/callvariant.py, but with
`--graph-output-dir`, so that `VariantPeptideCaller.write_dgraphs / write_pgraphs` dump the final transcript
variant graph (TVG) and peptide variant graph (PVG) of every transcript as JSON (ThreeFrameTVG.jsonfy,
PeptideVariantGraph.jsonfy: per node `index, seq, variants (ids), rf_index, start_codon | has_start, is_stop`,
plus the edge list).  The dumped files are the graphs at the END of the pipeline (TVG after fit_into_codons,
PVG after create_cleavage_graph AND call_variant_peptides).

The stage checks also need the graphs BETWEEN the stages.  They are taken inside THIS worker process only, by
wrapping four methods (no /repo hook; the same technique as _ForcedTimeouts in callvariant.py) and calling the
repo's OWN jsonfy at the stage boundary:

   tvg_raw   after ThreeFrameTVG.create_variant_graph   (variant bubbles, before codon alignment)
   tvg_fit   after ThreeFrameTVG.fit_into_codons        (what translate() consumes)
   pvg_tr    the return value of ThreeFrameTVG.translate (peptide graph before cleavage)
   pvg_cl    after PeptideVariantGraph.create_cleavage_graph (before the peptide traversal)
   tvg_dump / pvg_dump   the files written by --graph-output-dir

Only the graph that went through create_variant_graph (i.e. not the variant-free graph of
call_canonical_peptides) is recorded; graphs of fusion / circRNA sub-calls are ignored (global_variant set).

PeptideVariantGraph.jsonfy leaves out every node without out-edges (the shared `stop` sink) and every edge that
touches such a node: the dump of a PVG therefore ends at the last real nodes of each branch.
"""
import os, sys, json, shutil, glob
sys.path.insert(0, os.path.dirname(os.path.abspath(__file__)))
import callvariant as CV
import gen_reference as G
from moPepGen import cli

def init(wd):
    CV.init(wd)

class _Stages:
    """record jsonfy() of the main graph of every transcript at the four stage boundaries"""
    def __init__(self):
        from moPepGen.svgraph.ThreeFrameTVG import ThreeFrameTVG
        from moPepGen.svgraph.PeptideVariantGraph import PeptideVariantGraph
        self.T, self.P = ThreeFrameTVG, PeptideVariantGraph
        self.snap = {}
        self.err = []

    def _put(self, g, stage, obj):
        if getattr(g, 'global_variant', None) is not None:
            return
        try:
            self.snap.setdefault(g.id, {})[stage] = obj.jsonfy()
        except BaseException as e:       # noqa  (a snapshot must never change the run)
            self.err.append('%s:%s:%s' % (g.id, stage, type(e).__name__))

    def __enter__(self):
        T, P, me = self.T, self.P, self
        self.o = (T.create_variant_graph, T.fit_into_codons, T.translate, P.create_cleavage_graph)
        o_cvg, o_fit, o_tr, o_cl = self.o
        def cvg(self, *a, **k):
            r = o_cvg(self, *a, **k)
            self._verif_main = True
            me._put(self, 'tvg_raw', self)
            return r
        def fit(self, *a, **k):
            r = o_fit(self, *a, **k)
            if getattr(self, '_verif_main', False):
                me._put(self, 'tvg_fit', self)
            return r
        def tr(self, *a, **k):
            pg = o_tr(self, *a, **k)
            if getattr(self, '_verif_main', False):
                pg._verif_main = True
                me._put(self, 'pvg_tr', pg)
            return pg
        def cl(self, *a, **k):
            r = o_cl(self, *a, **k)
            if getattr(self, '_verif_main', False):
                me._put(self, 'pvg_cl', self)
            return r
        T.create_variant_graph, T.fit_into_codons, T.translate, P.create_cleavage_graph = cvg, fit, tr, cl
        return self

    def __exit__(self, *a):
        T, P = self.T, self.P
        T.create_variant_graph, T.fit_into_codons, T.translate, P.create_cleavage_graph = self.o

def one_run(d, g, a, p, gvfs, r, idx):
    gdir = os.path.join(d, 'graphs%d' % idx)
    os.makedirs(gdir)
    # --timeout-seconds: an engine that no longer terminates (seen with a seeded change) ends as a ValueError of
    # caller_reducer instead of hanging the check
    r2 = dict(r, extra=list(r.get('extra', [])) + ['--graph-output-dir', gdir, '--timeout-seconds', str(r.get('timeout_s', 90))])
    with _Stages() as st:
        out = CV.one_run(d, g, a, p, gvfs, r2, idx)
    graphs = st.snap
    for f in sorted(glob.glob(os.path.join(gdir, '*_main_TVG.json'))):
        tx = os.path.basename(f)[:-len('_main_TVG.json')]
        graphs.setdefault(tx, {})['tvg_dump'] = json.load(open(f))
    for f in sorted(glob.glob(os.path.join(gdir, '*_main_PVG.json'))):
        tx = os.path.basename(f)[:-len('_main_PVG.json')]
        graphs.setdefault(tx, {})['pvg_dump'] = json.load(open(f))
    out['graphs'] = graphs
    out['dumped_files'] = sorted(os.path.basename(f) for f in glob.glob(os.path.join(gdir, '*')))
    if st.err:
        out['snapshot_errors'] = st.err
    return out

def handle(case):
    CV._N[0] += 1
    d = os.path.join(CV._WD, 'g%d' % CV._N[0])
    os.makedirs(d)
    try:
        g, a, p = G.write_world(case['world'], d)
        gvfs = []
        for i, rows in enumerate(case.get('gvf_files') or [case['gvf']]):
            gp = os.path.join(d, 'v%d.gvf' % i)
            CV.write_gvf(gp, rows)
            gvfs.append(gp)
        return {'runs': [one_run(d, g, a, p, gvfs, r, i) for i, r in enumerate(case['runs'])]}
    finally:
        shutil.rmtree(d, ignore_errors=True)
