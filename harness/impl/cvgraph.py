"""Implementation side of the graph-stage correspondence (stream 'graph' of C02; docs/absgraph.md).

Runs the repo's real callVariant entry point in-process exactly like harness/impl/callvariant.py, but with
`--graph-output-dir`, so that `VariantPeptideCaller.write_dgraphs / write_pgraphs` dump the final transcript
variant graph (TVG) and peptide variant graph (PVG) of every transcript as JSON (ThreeFrameTVG.jsonfy,
PeptideVariantGraph.jsonfy: per node `index, seq, variants (ids), rf_index, start_codon | has_start, is_stop`,
plus the edge list).  The dumped files are the graphs at the END of the pipeline (TVG after fit_into_codons,
PVG after create_cleavage_graph AND call_variant_peptides).

The stage checks also need the graphs BETWEEN the stages.  They are taken inside THIS worker process only, by
wrapping methods (no /repo hook; the same technique as _ForcedTimeouts in callvariant.py) and calling the repo's OWN
jsonfy() at the stage boundary (class _Stages below): tvg_raw (the graph handed to fit_into_codons), tvg_fit,
pvg_tr (return value of translate), pvg_cl (after create_cleavage_graph), plus tvg_dump / pvg_dump = the files
written by --graph-output-dir.  The graph is identified by the caller it is built in (main / fusion / circRNA); the
variant-free graph of call_canonical_peptides is ignored.  Cases may carry small records, fusions, alternative-
splicing records and circRNA records (GVF files written as in callvariant.py / callvariant2.py).

PeptideVariantGraph.jsonfy leaves out every node without out-edges (the shared `stop` sink) and every edge that
touches such a node: the dump of a PVG therefore ends at the last real nodes of each branch.
"""
import os, sys, json, shutil, glob
sys.path.insert(0, os.path.dirname(os.path.abspath(__file__)))
import callvariant as CV
import callvariant2 as CV2
import gen_reference as G
from moPepGen import cli

def init(wd):
    CV.init(wd)

class _Stages:
    """record jsonfy() of every graph callVariant builds for a transcript at the stage boundaries.  The graph is
    identified by the caller it is built in (call_peptide_main / call_peptide_fusion / call_peptide_circ_rna are
    wrapped to set the context; the variant-free graph of call_canonical_peptides has no context and is ignored):
       key '<tx>'                      main graph            (dump <tx>_main_TVG.json / _PVG.json)
       key '<tx>|Fusion|<fusion id>'   fusion graph          (dump <tx>_Fusion_<id>_*.json)
       key '<tx>|circRNA|<circ id>'    circRNA graph         (dump <tx>_circRNA_<id>_*.json)
    stages: tvg_raw = the graph handed to fit_into_codons (after create_variant_graph; circRNA: after
    create_variant_circ_graph + extend_loop + truncate_three_frames), tvg_fit = after fit_into_codons,
    pvg_tr = return value of translate(), pvg_cl = after create_cleavage_graph."""
    def __init__(self):
        import importlib
        from moPepGen.svgraph.ThreeFrameTVG import ThreeFrameTVG
        from moPepGen.svgraph.PeptideVariantGraph import PeptideVariantGraph
        importlib.import_module('moPepGen.cli.call_variant_peptide')
        self.M = sys.modules['moPepGen.cli.call_variant_peptide']
        self.T, self.P = ThreeFrameTVG, PeptideVariantGraph
        self.snap = {}
        self.err = []
        self.ctx = None

    def _put(self, stage, obj):
        if self.ctx is None:
            return
        try:
            self.snap.setdefault(self.ctx, {})[stage] = obj.jsonfy()
        except BaseException as e:       # noqa  (a snapshot must never change the run)
            self.err.append('%s:%s:%s' % (self.ctx, stage, type(e).__name__))

    def __enter__(self):
        T, P, M, me = self.T, self.P, self.M, self
        self.o = (T.fit_into_codons, T.translate, P.create_cleavage_graph,
                  M.call_peptide_main, M.call_peptide_fusion, M.call_peptide_circ_rna)
        o_fit, o_tr, o_cl, o_main, o_fus, o_circ = self.o
        def fit(self, *a, **k):
            me._put('tvg_raw', self)
            r = o_fit(self, *a, **k)
            me._put('tvg_fit', self)
            return r
        def tr(self, *a, **k):
            pg = o_tr(self, *a, **k)
            me._put('pvg_tr', pg)
            return pg
        def cl(self, *a, **k):
            r = o_cl(self, *a, **k)
            me._put('pvg_cl', self)
            return r
        def in_ctx(key, f, a, k):
            old, me.ctx = me.ctx, key
            try:
                return f(*a, **k)
            finally:
                me.ctx = old
        def main(*a, **k):
            return in_ctx(str(k.get('tx_id', a[0] if a else '?')), o_main, a, k)
        def fus(*a, **k):
            v = k.get('variant', a[0] if a else None)
            return in_ctx('%s|Fusion|%s' % (v.transcript_id, v.id), o_fus, a, k)
        def circ(*a, **k):
            r = k.get('record', a[0] if a else None)
            return in_ctx('%s|circRNA|%s' % (r.transcript_id, r.id), o_circ, a, k)
        T.fit_into_codons, T.translate, P.create_cleavage_graph = fit, tr, cl
        M.call_peptide_main, M.call_peptide_fusion, M.call_peptide_circ_rna = main, fus, circ
        return self

    def __exit__(self, *a):
        T, P, M = self.T, self.P, self.M
        (T.fit_into_codons, T.translate, P.create_cleavage_graph,
         M.call_peptide_main, M.call_peptide_fusion, M.call_peptide_circ_rna) = self.o

def _dump_key(name):
    """<tx>_main_TVG.json | <tx>_Fusion_<id>_TVG.json | <tx>_circRNA_<id>_PVG.json -> (key, 'tvg_dump' | 'pvg_dump')"""
    base, kind = name[:-len('_TVG.json')], ('tvg_dump' if name.endswith('_TVG.json') else 'pvg_dump')
    if base.endswith('_main'):
        return base[:-len('_main')], kind
    for tag in ('_Fusion_', '_circRNA_'):
        if tag in base:
            tx, vid = base.split(tag, 1)
            return '%s|%s|%s' % (tx, tag.strip('_'), vid), kind
    return base, kind

def one_run(d, g, a, p, gvfs, r, idx):
    gdir = os.path.join(d, 'graphs%d' % idx)
    os.makedirs(gdir)
    # --timeout-seconds: an engine that no longer terminates (seen with a seeded change) ends as a ValueError of
    # caller_reducer instead of hanging the check
    r2 = dict(r, extra=list(r.get('extra', [])) + ['--graph-output-dir', gdir, '--timeout-seconds', str(r.get('timeout_s', 90))])
    with _Stages() as st:
        out = CV.one_run(d, g, a, p, gvfs, r2, idx)
    graphs = st.snap
    for f in sorted(glob.glob(os.path.join(gdir, '*.json'))):
        key, kind = _dump_key(os.path.basename(f))
        graphs.setdefault(key, {})[kind] = json.load(open(f))
    out['graphs'] = graphs
    out['dumped_files'] = sorted(os.path.basename(f) for f in glob.glob(os.path.join(gdir, '*')))
    if st.err:
        out['snapshot_errors'] = st.err
    return out

def handle(case):
    CV._N[0] += 1
    d = os.path.join(CV._WD, 'g%d' % CV._N[0])
    os.makedirs(d)
    try:
        g, a, p = G.write_world(case['world'], d)
        gvfs = []
        for i, rows in enumerate(case.get('gvf_files') or ([case['gvf']] if case.get('gvf') else [])):
            gp = os.path.join(d, 'v%d.gvf' % i)
            CV.write_gvf(gp, rows)
            gvfs.append(gp)
        if case.get('fusions'):
            gp = os.path.join(d, 'fusion.gvf')
            CV.write_fusion_gvf(gp, case['fusions'])
            gvfs.append(gp)
        if case.get('as_records'):
            gp = os.path.join(d, 'as.gvf')
            CV2.write_as_gvf(gp, case['as_records'])
            gvfs.append(gp)
        if case.get('circ_records'):
            gp = os.path.join(d, 'circ.gvf')
            CV2.write_circ_gvf(gp, case['circ_records'])
            gvfs.append(gp)
        return {'runs': [one_run(d, g, a, p, gvfs, r, i) for i, r in enumerate(case['runs'])]}
    finally:
        shutil.rmtree(d, ignore_errors=True)
