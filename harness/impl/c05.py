"""Implementation side of C05 for inputs that need several kinds of GVF files (SNV/INDEL rows,
circRNA rows) and a per-run choice of the files: runs the repo's real callVariant entry point
in-process through harness/impl/callvariant.py's one_run (same argparse sub-parser).

case = {
  'world': <gen_reference world>,
  'files': [ {'kind': 'var', 'rows': [[gene_id, pos1, id, ref, alt, tx_id, gene_name], ...]}
           | {'kind': 'circ', 'rows': [[gene_id, start0, circ_id, [offsets], [lengths], [introns], tx_id, gene_name], ...]}
           | {'kind': 'fusion', 'rows': [[gene_id, pos1, fusion_id, ref, tx_id, gene_name, gpos, acc_gene, acc_tx, acc_symbol, acc_pos1, acc_gpos], ...]} ],
  'runs':  [ {<callvariant run keys>, 'use': [file indices] (default: all)} ]
}
Result: {'runs': [ {'fasta': [[header, seq], ...]} | {'__exc__': class} ]}
"""
import os, sys, shutil
sys.path.insert(0, os.path.join(os.path.dirname(os.path.dirname(os.path.abspath(__file__))), 'lib'))
import gen_reference as G
import callvariant as CV

_N = [0]

def init(wd):
    CV.init(wd)

CIRC_HEAD = """##fileformat=VCFv4.2
##mopepgen_version=1.4.6
##parser=parseCIRCexplorer
##reference_index=
##genome_fasta=
##annotation_gtf=
##source=circRNA
##CHROM=<Description='Gene ID'>
##INFO=<ID=OFFSET,Number=+,Type=Integer,Description="Offsets of fragments (exons or introns)">
##INFO=<ID=LENGTH,Number=+,Type=Integer,Description="Length of fragments (exons or introns)">
##INFO=<ID=INTRON,Number=+,Type=Integer,Description="Indices of fragments that are introns">
##INFO=<ID=TRANSCRIPT_ID,Number=1,Type=String,Description="Transcript ID">
##INFO=<ID=GENE_SYMBOL,Number=1,Type=String,Description="Gene Symbol">
##INFO=<ID=GENOMIC_POSITION,Number=1,Type=String,Description="Genomic Position">
##POS=<Description="Gene coordinate of circRNA start">
#CHROM\tPOS\tID\tREF\tALT\tQUAL\tFILTER\tINFO
"""

FUSION_HEAD = """##fileformat=VCFv4.2
##mopepgen_version=1.4.6
##parser=parseSTARFusion
##reference_index=
##genome_fasta=
##annotation_gtf=
##source=Fusion
##CHROM=<Description="Gene ID">
##INFO=<ID=TRANSCRIPT_ID,Number=1,Type=String,Description="Transcript ID">
##INFO=<ID=GENE_SYMBOL,Number=1,Type=String,Description="Gene Symbol">
##INFO=<ID=GENOMIC_POSITION,Number=1,Type=String,Description="Genomic Position">
##INFO=<ID=ACCEPTER_GENE_ID,Number=1,Type=String,Description="3' Accepter Transcript's Gene ID">
##INFO=<ID=ACCEPTER_TRANSCRIPT_ID,Number=1,Type=String,Description="3' Accepter Transcript's Transcript ID">
##INFO=<ID=ACCEPTER_POSITION,Number=1,Type=Integer,Description="Position of the break point of the 3' accepter transcript">
#CHROM\tPOS\tID\tREF\tALT\tQUAL\tFILTER\tINFO
"""

def write_fusion(path, rows):
    with open(path, 'w') as f:
        f.write(FUSION_HEAD)
        for gene_id, pos1, fid, ref, tx_id, gname, gpos, ag, at, asym, apos1, agpos in rows:
            info = ('TRANSCRIPT_ID=%s;GENE_SYMBOL=%s;GENOMIC_POSITION=%s;ACCEPTER_GENE_ID=%s;ACCEPTER_TRANSCRIPT_ID=%s;'
                    'ACCEPTER_SYMBOL=%s;ACCEPTER_POSITION=%d;ACCEPTER_GENOMIC_POSITION=%s' % (tx_id, gname, gpos, ag, at, asym, apos1, agpos))
            f.write('\t'.join([gene_id, str(pos1), fid, ref, '<FUSION>', '.', '.', info]) + '\n')

def write_circ(path, rows):
    with open(path, 'w') as f:
        f.write(CIRC_HEAD)
        for gene_id, start0, cid, offs, lens, introns, tx_id, gname in rows:
            info = 'OFFSET=%s;LENGTH=%s;INTRON=%s;TRANSCRIPT_ID=%s;GENE_SYMBOL=%s;GENOMIC_POSITION=chr:%d:%d' % (
                ','.join(map(str, offs)), ','.join(map(str, lens)), ','.join(map(str, introns)), tx_id, gname,
                start0, start0 + offs[-1] + lens[-1])
            f.write('\t'.join([gene_id, str(start0), cid, '.', '.', '.', '.', info]) + '\n')

def handle(case):
    _N[0] += 1
    d = os.path.join(CV._WD, 'm%d' % _N[0])
    os.makedirs(d)
    try:
        g, a, p = G.write_world(case['world'], d)
        paths = []
        for i, f in enumerate(case['files']):
            gp = os.path.join(d, 'f%d.gvf' % i)
            if f['kind'] == 'circ':
                write_circ(gp, f['rows'])
            elif f['kind'] == 'fusion':
                write_fusion(gp, f['rows'])
            else:
                CV.write_gvf(gp, f['rows'], source=f.get('source', 'gSNP%d' % i))
            paths.append(gp)
        res = []
        for i, r in enumerate(case['runs']):
            use = r.get('use')
            gv = paths if use is None else [paths[j] for j in use]
            res.append(CV.one_run(d, g, a, p, gv, r, i))
        return {'runs': res}
    finally:
        shutil.rmtree(d, ignore_errors=True)
