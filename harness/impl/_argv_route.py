"""Second route into a parser command: the REAL argument parser (harness/impl/_cli.py builds it exactly as
moPepGen.cli.__main__ does) with every option of the command spelled out on the command line.  The hand-built
argparse.Namespace route of the impl scripts cannot see a mismatch between an option's `dest` and the attribute the
command reads (parseCIRCexplorer --min-fpb-circ, repaired in /repo 5a10f55); this one can."""
import os, logging
import _cli
from moPepGen import constant

def body(path):
    if not os.path.exists(path):
        return []
    return sorted(l.rstrip('\n') for l in open(path) if not l.startswith('#'))

def run(argv, out_path, restore_handlers=None):
    """run the command; returns the sorted GVF body or {'__exc__': class}"""
    if os.path.exists(out_path):
        os.remove(out_path)
    lg = logging.getLogger(constant.PROG_NAME)
    old = list(lg.handlers) if restore_handlers is None else restore_handlers
    try:
        _cli.run(argv)
        return body(out_path)
    except SystemExit as e:
        return {'__exc__': 'SystemExit', 'msg': str(e.code)}
    except BaseException as e:   # noqa
        return {'__exc__': type(e).__name__, 'msg': str(e)[:200]}
    finally:
        lg.handlers = old

def make_index(genome, gtf, proteome, d):
    """generateIndex through the real command line; returns the index directory or an exception dict"""
    idx = os.path.join(d, 'index')
    r = run(['generateIndex', '-g', genome, '-a', gtf, '-p', proteome, '-o', idx, '--quiet'], os.path.join(d, '_none_'))
    return r if isinstance(r, dict) else idx

def reference_args(c, genome, gtf, proteome, d, with_genome=True):
    """reference options for the argv route: an index directory for c['argv_index'], else the files + --reference-source"""
    if c.get('argv_index'):
        idx = make_index(genome, gtf, proteome, d)
        if isinstance(idx, dict):
            return idx
        return ['--index-dir', idx]
    return (['-g', genome] if with_genome else []) + ['-a', gtf, '--reference-source', 'GENCODE']
