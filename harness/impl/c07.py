"""Implementation side for C07: the real callVariant entry point (real argparse sub-parser,
cli.call_variant_peptide) run in-process with the guarded fault-injection hook
(proposed_hooks/C07_fault.patch: MOPEPGEN_VERIF=1, MOPEPGEN_VERIF_FAIL='@<file>'; the file is rewritten
before every run so that pathos workers spawned earlier see the current failure set too).

case = {world: {genome.fasta, annotation.gtf, proteome.fasta}, gvfs: [text...],
        runs: [{fail: [unit ids], skip: bool, threads: int}], observe: bool}
For every run the reply holds
   exc     : None | exception class name (SystemExit included) raised by the command
   where   : the innermost function names of its traceback
   fasta   : None (no file) | sorted list of sequences in the FASTA
   table   : None | True  (the peptide table file exists; informational)
   tally   : {total, processed, invalid, variant, fusion, circRNA, n_total, n_valid} parsed from the
             logged summary, or None when no summary was logged
   calls   : (threads == 1 and observe) the unit ids in the order the three per-unit callers were
             entered (recorded by wrapping, in this worker process only, the names the wrapper resolves
             at call time; the real callers run unchanged underneath)
   warned  : unit kinds named in the 'calling failed' warnings, in order
"""
import argparse, os, sys, importlib, shutil, logging, re, traceback
importlib.import_module('moPepGen.cli.call_variant_peptide')
CVP = sys.modules['moPepGen.cli.call_variant_peptide']
from moPepGen import cli, constant

_WD = ['.']
_N = [0]
_FAILFILE = [None]
_REAL = dict(main=CVP.call_peptide_main, fusion=CVP.call_peptide_fusion, circ=CVP.call_peptide_circ_rna)

def init(wd):
    _WD[0] = wd
    _FAILFILE[0] = os.path.join(wd, 'verif_fail.txt')
    open(_FAILFILE[0], 'w').write('')
    os.environ['MOPEPGEN_VERIF'] = '1'
    os.environ['MOPEPGEN_VERIF_FAIL'] = '@' + _FAILFILE[0]

_P = [None]
def parser():
    if _P[0] is None:
        p = argparse.ArgumentParser()
        sub = p.add_subparsers(dest='command')
        cli.add_subparser_call_variant(sub)
        _P[0] = p
    return _P[0]

def read_fasta_seqs(path):
    if not os.path.exists(path):
        return None
    seqs, cur = [], None
    for line in open(path):
        line = line.strip()
        if line.startswith('>'):
            if cur is not None:
                seqs.append(cur)
            cur = ''
        elif cur is not None:
            cur += line
    if cur is not None:
        seqs.append(cur)
    return sorted(seqs)

class Capture(logging.Handler):
    def __init__(self):
        super().__init__(level=logging.DEBUG)
        self.lines = []
    def emit(self, record):
        try:
            self.lines.append((record.levelname, record.getMessage()))
        except Exception:  # noqa
            self.lines.append((record.levelname, str(record.msg)))

TALLY = [('total', r'Total transcripts with variants: (\d+)'),
         ('processed', r'Total transcripts processed: (\d+)'),
         ('invalid', r'Number of invalid transcripts: (\d+)'),
         ('variant', r'\s+Variant peptides: (\d+)'),
         ('fusion', r'\s+Fusion peptides: (\d+)'),
         ('circRNA', r'\s+circRNA peptides: (\d+)'),
         ('n_total', r'Total variant peptides generated \(including redundant\): (\d+)'),
         ('n_valid', r'Total variant peptides saved: (\d+)')]

def parse_tally(lines):
    """every summary line must appear exactly once, after 'callVariant summary:'"""
    msgs = [m for _, m in lines]
    if 'callVariant summary:' not in msgs:
        return None
    tail = msgs[msgs.index('callVariant summary:') + 1:]
    out = {}
    for key, pat in TALLY:
        hits = [re.fullmatch(pat, m) for m in tail]
        hits = [h for h in hits if h]
        if len(hits) != 1:
            return {'malformed': key, 'n': len(hits)}
        out[key] = int(hits[0].group(1))
    out['n_summaries'] = msgs.count('callVariant summary:')
    return out

def one_run(d, ref, gvfs, run, observe, opts):
    out = os.path.join(d, 'out.fasta')
    table = os.path.join(d, 'out_peptide_table.txt')
    for p in (out, table):
        if os.path.exists(p):
            os.remove(p)
    open(_FAILFILE[0], 'w').write('\n'.join(run['fail']) + '\n')
    argv = ['callVariant', '-i'] + gvfs + ['-o', out, '--threads', str(run['threads']),
                                         '-c', 'trypsin', '--cleavage-exception', opts.get('exc', 'none')] + ref
    if run['skip']:
        argv.append('--skip-failed')
    if opts.get('min_length') is not None:
        argv += ['--min-length', str(opts['min_length'])]
    if opts.get('min_mw') is not None:
        argv += ['--min-mw', str(opts['min_mw'])]
    calls = []
    def wrap(kind):
        real = _REAL[kind]
        def f(*a, **kw):
            if kind == 'main':
                calls.append('%s:main' % kw['tx_id'])
            elif kind == 'fusion':
                v = kw['variant']
                calls.append('%s:fusion:%s' % (v.location.seqname, v.id))
            else:
                r = kw['record']
                calls.append('%s:circ:%s' % (r.transcript_id, r.id))
            return real(*a, **kw)
        return f
    lg = logging.getLogger(constant.PROG_NAME)
    old_level, old_handlers, old_prop = lg.level, list(lg.handlers), lg.propagate
    cap = Capture()
    for h in old_handlers:
        lg.removeHandler(h)
    lg.addHandler(cap)
    lg.setLevel(logging.INFO)
    lg.propagate = False
    watch = observe and run['threads'] == 1
    if watch:
        CVP.call_peptide_main, CVP.call_peptide_fusion, CVP.call_peptide_circ_rna = wrap('main'), wrap('fusion'), wrap('circ')
    exc, where = None, None
    try:
        a = parser().parse_args(argv)
        a.func(a)                       # == cli.call_variant_peptide(args)
    except SystemExit as e:
        exc = 'SystemExit'
    except BaseException as e:  # noqa
        exc = type(e).__name__
        where = [f.name for f in traceback.extract_tb(e.__traceback__)][-8:]
    finally:
        CVP.call_peptide_main, CVP.call_peptide_fusion, CVP.call_peptide_circ_rna = _REAL['main'], _REAL['fusion'], _REAL['circ']
        lg.removeHandler(cap)
        for h in old_handlers:
            lg.addHandler(h)
        lg.setLevel(old_level)
        lg.propagate = old_prop
        open(_FAILFILE[0], 'w').write('')
    warned = []
    for lvl, m in cap.lines:
        if lvl == 'WARNING' and m.startswith('Variant peptides calling failed from'):
            mm = re.fullmatch(r'Variant peptides calling failed from (\S+?)(?: with (fusion|circRNA): (\S+))?', m)
            if mm:
                warned.append([mm.group(1), mm.group(2) or 'main', mm.group(3) or ''])
    return {'exc': exc, 'where': where, 'fasta': read_fasta_seqs(out), 'table': os.path.exists(table),
            'tally': parse_tally(cap.lines), 'calls': calls if watch else None, 'warned': warned}

def handle(c):
    _N[0] += 1
    d = os.path.join(_WD[0], 'c%d' % _N[0])
    os.makedirs(d)
    try:
        for name in ('genome.fasta', 'annotation.gtf', 'proteome.fasta'):
            open(os.path.join(d, name), 'w').write(c['world'][name])
        gvfs = []
        for k, text in enumerate(c['gvfs']):
            p = os.path.join(d, 'v%d.gvf' % k)
            open(p, 'w').write(text)
            gvfs.append(p)
        ref = ['-g', os.path.join(d, 'genome.fasta'), '-a', os.path.join(d, 'annotation.gtf'),
               '-p', os.path.join(d, 'proteome.fasta')]
        return {'runs': [one_run(d, ref, gvfs, r, c.get('observe', True), c.get('opts', {})) for r in c['runs']]}
    finally:
        shutil.rmtree(d, ignore_errors=True)
