"""Implementation side for the parser stream of C07: the CLI entry functions of parseSTARFusion,
parseFusionCatcher, parseArriba and parseVEP (real argparse sub-parsers) run in-process on tables rendered
from generated rows, with and without --skip-failed, plus the library-level conversion of every single row.

case = {world, tool: 'star'|'fc'|'arriba'|'vep', rows: [row...], opts: {thresholds},
        runs: [{rows: [row indices], skip: bool}]}
fusion row (as harness/impl/c15.py): {dgid, agid, dsym, asym, dchrom, achrom, L, R, dstrand, astrand, tstrand1,
        tstrand2, ev: {...}};   vep row: {gene, tx, loc, allele}
reply = {lib:  [per row: {'lines': [...]} | {'exc': class}],
         runs: [{exc, where, gvf: None (no file at the output path) | sorted body lines, tally: {...} | None,
                 warned_none: 'No variant record is saved' was logged}]}
"""
import os, sys, io, argparse, logging, shutil, re, traceback
from pathlib import Path

sys.path.insert(0, os.path.join(os.path.dirname(os.path.abspath(__file__)), '..', '..'))
from harness.lib import gen_reference as G

from moPepGen import cli, get_logger, constant
from moPepGen.cli import common
from moPepGen.parser import STARFusionParser, FusionCatcherParser, ArribaParser, VEPParser

WD = ['.']
_N = [0]

def init(wd):
    WD[0] = wd

class Capture(logging.Handler):
    def __init__(self):
        super().__init__(level=logging.DEBUG)
        self.msgs = []
    def emit(self, record):
        try:
            self.msgs.append(record.getMessage())
        except Exception:   # noqa
            pass

def star_row(r):
    e = r['ev']
    f = ['%s--%s' % (r['dsym'], r['asym']), '4', '5', e['est_j'], '3.86', 'ONLY_REF_SPLICE',
         '%s^%s' % (r['dsym'], r['dgid']), '%s:%d:%s' % (r['dchrom'], r['L'], r['dstrand']),
         '%s^%s' % (r['asym'], r['agid']), '%s:%d:%s' % (r['achrom'], r['R'], r['astrand']),
         'read1,read2', 'frag1,frag2', 'YES_LDAS', '0.1045', 'GT', '1.9086', 'AG', '1.7232', '["INTRACHROMOSOMAL[chr1:0.01Mb]"]']
    return '\t'.join(f)
STAR_HEAD = '#FusionName\tJunctionReadCount\tSpanningFragCount\test_J\test_S\tSpliceType\tLeftGene\tLeftBreakpoint\tRightGene\tRightBreakpoint\tJunctionReads\tSpanningFrags\tLargeAnchorSupport\tFFPM\tLeftBreakDinuc\tLeftBreakEntropy\tRightBreakDinuc\tRightBreakEntropy\tannots'

def fc_row(r):
    e = r['ev']
    f = [r['dsym'], r['asym'], 'oncogene,m9', str(e['common']), '12', str(e['unique']), '21', 'BOWTIE+STAR',
         '%s:%d:%s' % (r['dchrom'], r['L'], r['dstrand']), '%s:%d:%s' % (r['achrom'], r['R'], r['astrand']),
         r['dgid'], r['agid'], '', '', 'ACGT*TTGA', 'exonic/exonic']
    return '\t'.join(f)
FC_HEAD = 'Gene_1_symbol(5end_fusion_partner)\tGene_2_symbol(3end_fusion_partner)\tFusion_description\tCounts_of_common_mapping_reads\tSpanning_pairs\tSpanning_unique_reads\tLongest_anchor_found\tFusion_finding_method\tFusion_point_for_gene_1(5end_fusion_partner)\tFusion_point_for_gene_2(3end_fusion_partner)\tGene_1_id(5end_fusion_partner)\tGene_2_id(3end_fusion_partner)\tExon_1_id(5end_fusion_partner)\tExon_2_id(3end_fusion_partner)\tFusion_sequence\tPredicted_effect'

def arriba_row(r):
    e = r['ev']
    f = [r['dsym'], r['asym'], '%s/%s' % (r['dstrand'], r['tstrand1']), '%s/%s' % (r['astrand'], r['tstrand2']),
         '%s:%d' % (r['dchrom'], r['L']), '%s:%d' % (r['achrom'], r['R']), 'CDS/splice-site', 'intron', 'translocation',
         str(e['sr1']), str(e['sr2']), '19', '191', '92', e['conf'], 'out-of-frame', '.', '.', '.', '.',
         r['dgid'], r['agid'], '.', '.', 'downstream', 'upstream', 'duplicates(30)', 'ACGT|TTGA', '.', 'r1,r2']
    return '\t'.join(f)
ARRIBA_HEAD = '#gene1\tgene2\tstrand1(gene/fusion)\tstrand2(gene/fusion)\tbreakpoint1\tbreakpoint2\tsite1\tsite2\ttype\tsplit_reads1\tsplit_reads2\tdiscordant_mates\tcoverage1\tcoverage2\tconfidence\treading_frame\ttags\tretained_protein_domains\tclosest_genomic_breakpoint1\tclosest_genomic_breakpoint2\tgene_id1\tgene_id2\ttranscript_id1\ttranscript_id2\tdirection1\tdirection2\tfilters\tfusion_transcript\tpeptide_sequence\tread_identifiers'

def vep_row(r):
    return '\t'.join([r.get('uv', 'var'), r['loc'], r['allele'], r['gene'], r['tx'], 'Transcript',
                      'missense_variant', '1', '1', '1', 'A/B', 'aaa/bbb', '-', 'IMPACT=LOW'])
VEP_HEAD = '## VEP output\n#Uploaded_variation\tLocation\tAllele'

ROW = {'star': star_row, 'fc': fc_row, 'arriba': arriba_row, 'vep': vep_row}
HEAD = {'star': STAR_HEAD, 'fc': FC_HEAD, 'arriba': ARRIBA_HEAD, 'vep': VEP_HEAD}
CMD = {'star': 'parseSTARFusion', 'fc': 'parseFusionCatcher', 'arriba': 'parseArriba', 'vep': 'parseVEP'}
EXT = {'star': '.tsv', 'fc': '.txt', 'arriba': '.tsv', 'vep': '.tsv'}

_P = [None]
def parser():
    if _P[0] is None:
        p = argparse.ArgumentParser()
        sub = p.add_subparsers(dest='command')
        cli.add_subparser_parse_star_fusion(sub)
        cli.add_subparser_parse_fusion_catcher(sub)
        cli.add_subparser_parse_arriba(sub)
        cli.add_subparser_parse_vep(sub)
        _P[0] = p
    return _P[0]

def argv_of(tool, table, out, ref, opts, skip):
    a = [CMD[tool], '-i', table, '-o', out, '--source', 'Fusion' if tool != 'vep' else 'gSNP'] + ref
    if tool == 'star':
        a += ['--min-est-j', str(opts['min_est_j'])]
    elif tool == 'fc':
        a += ['--max-common-mapping', str(opts['max_common']), '--min-spanning-unique', str(opts['min_unique'])]
    elif tool == 'arriba':
        a += ['--min-split-read1', str(opts['min_sr1']), '--min-split-read2', str(opts['min_sr2']),
              '--min-confidence', opts['min_conf']]
    if skip:
        a.append('--skip-failed')
    return a

def write_table(tool, path, rows):
    with open(path, 'w') as f:
        f.write(HEAD[tool] + '\n')
        for r in rows:
            f.write(ROW[tool](r) + '\n')

def body(path):
    if not os.path.exists(path):
        return None
    return sorted(l.rstrip('\n') for l in open(path) if not l.startswith('#'))

KEYS = {'Totally records read': 'total', 'Records successfully processed': 'succeed', 'Records skipped': 'skipped',
        'Invalid gene ID': 'invalid_gene_id', 'Invalid position': 'invalid_position',
        'Insufficient evidence': 'insufficient_evidence', 'Antisense strand': 'antisense_strand',
        'Records failed': 'failed', 'Start codon mutation': 'start_site', 'Stop codon mutation': 'stop_site'}

def tally_of(msgs):
    out = {}
    for m in msgs:
        mm = re.match(r'\s*([A-Za-z ]+): (\d+)$', m)
        if mm and mm.group(1) in KEYS:
            k = KEYS[mm.group(1)]
            if k in out:
                out['_dup'] = k
            out[k] = int(mm.group(2))
    return out or None

def parse_one(tool, path):
    if tool == 'star':
        return list(STARFusionParser.parse(path))
    if tool == 'fc':
        return list(FusionCatcherParser.parse(path))
    with open(path, 'rt') as h:
        return list((ArribaParser if tool == 'arriba' else VEPParser).parse(h))

def run_cli(argv):
    lg = get_logger()
    cap = Capture()
    old_level, old_handlers, old_prop = lg.level, list(lg.handlers), lg.propagate
    for h in old_handlers:
        lg.removeHandler(h)
    lg.addHandler(cap)
    lg.setLevel(logging.INFO)
    lg.propagate = False
    exc, where = None, None
    old_argv = sys.argv
    sys.argv = ['moPepGen'] + argv
    try:
        a = parser().parse_args(argv)
        a.func(a)
    except SystemExit:
        exc = 'SystemExit'
    except BaseException as e:   # noqa
        exc = type(e).__name__
        where = [f.name for f in traceback.extract_tb(e.__traceback__)][-6:]
    finally:
        sys.argv = old_argv
        lg.removeHandler(cap)
        for h in old_handlers:
            lg.addHandler(h)
        lg.setLevel(old_level)
        lg.propagate = old_prop
    return exc, where, cap.msgs

def handle(c):
    _N[0] += 1
    d = os.path.join(WD[0], 'p%d' % _N[0])
    os.makedirs(d)
    try:
        tool = c['tool']
        gfa, gtf_, _ = G.write_world(c['world'], d)
        ref = ['-g', gfa, '-a', gtf_]
        out = {'lib': [], 'runs': []}
        # ---- library level, one row at a time
        a = parser().parse_args(argv_of(tool, 'x' + EXT[tool], os.path.join(d, 'x.gvf'), ref, c['opts'], False))
        logging.disable(logging.CRITICAL)
        try:
            genome, anno, *_ = common.load_references(a, load_canonical_peptides=False)
            for r in c['rows']:
                p = os.path.join(d, 'one' + EXT[tool])
                write_table(tool, p, [r])
                try:
                    lines = []
                    for rec in parse_one(tool, p):
                        if tool == 'vep':
                            lines.append(rec.convert_to_variant_record(anno, genome).to_string())
                        else:
                            lines += [x.to_string() for x in rec.convert_to_variant_records(anno, genome)]
                    out['lib'].append({'lines': sorted(lines)})
                except Exception as e:  # noqa
                    out['lib'].append({'exc': type(e).__name__, 'mro': [k.__name__ for k in type(e).__mro__][:4]})
        finally:
            logging.disable(logging.NOTSET)
        # ---- CLI runs
        for k, run in enumerate(c['runs']):
            table = os.path.join(d, 'in%d%s' % (k, EXT[tool]))
            gvf = os.path.join(d, 'out%d.gvf' % k)
            write_table(tool, table, [c['rows'][i] for i in run['rows']])
            exc, where, msgs = run_cli(argv_of(tool, table, gvf, ref, c['opts'], run['skip']))
            out['runs'].append({'exc': exc, 'where': where, 'gvf': body(gvf), 'tally': tally_of(msgs),
                                'warned_none': any('No variant record is saved' in m for m in msgs)})
        return out
    finally:
        shutil.rmtree(d, ignore_errors=True)
