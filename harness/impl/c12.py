"""Implementation side for C12: generateIndex / updateIndex / load_references run in-process through
the real argparse parser on a private scratch directory.

Case kinds
  tree : exhaustive exploration of all op sequences extending `prefix` up to total length `depth`
         over `alphabet` (directory snapshots are shared between sequences with a common prefix);
         returns one observation per explored node
  seq  : one explicit op sequence, optionally with `env` per op (a generateIndex run "in another
         environment" is emulated by rewriting the version fields of metadata.json right after it)
  ref  : reference data round trip (genome / annotation / proteome / coding transcripts)
  ver  : version-mismatch rejection by every consumer of an index
  fly  : on-the-fly load_references pools
  src  : --reference-source given / not given on GENCODE- and ENSEMBL-style references whose chromosome names make the
         built-in guess agree or disagree: index route vs raw-file route under the SAME options, and vs ground truth
Ops: ['g', ref, pidx, force, symlink?] | ['u', pidx, force]
Observation after an op:
  out      'ok' | 'SystemExit:<code>' | exception class name
  meta     None | {'version': [py, bio, mpg], 'pools': [[filename, index, params]], 'source': str|None}
  listing  sorted directory listing
  files    {pool file name: digest of the pickled set}
  loads    per probe: {'pool': digest, 'ref': id} or {'exc': class}
  refdata  which world the stored genome / proteome / annotation / coding transcripts equal
"""
import os, sys, json, shutil, hashlib, pickle, argparse
from pathlib import Path

ROOT = os.path.dirname(os.path.dirname(os.path.dirname(os.path.abspath(__file__))))
if ROOT not in sys.path:
    sys.path.insert(0, ROOT)
from harness.lib import gen_reference as G
import _cli
from moPepGen.index import IndexDir
from moPepGen.params import CleavageParams
from moPepGen.cli import common
from moPepGen import gtf

WD = None
def init(wd):
    global WD
    WD = wd

def dg(x):
    return hashlib.sha1(json.dumps(x, sort_keys=True).encode()).hexdigest()[:16]

def cl(ps):
    return ['-c', ps['rule'], '--cleavage-exception', ps['exc'], '-m', ps['k'], '-w', ps['min_mw'],
            '-l', ps['min_len'], '-x', ps['max_len']]

def cp(ps):
    # exactly as callVariant / callNovelORF / callAltTranslation build it from their arguments
    return CleavageParams(enzyme=ps['rule'], exception=ps['exc'], miscleavage=int(ps['k']), min_mw=float(ps['min_mw']),
                          min_length=int(ps['min_len']), max_length=int(ps['max_len']))

def outcome(f):
    try:
        f()
        return 'ok'
    except SystemExit as e:
        return 'SystemExit:%s' % e.code
    except BaseException as e:  # noqa
        return type(e).__name__

# ----------------------------------------------------------------------------- canonical views
def canon_params(d):
    mw = d.get('min_mw')
    return [d.get('enzyme'), d.get('exception'), d.get('miscleavage'),
            int(round(mw * 100000)) if isinstance(mw, (int, float)) else mw, d.get('min_length'), d.get('max_length')]

def read_meta(idx):
    p = os.path.join(idx, 'metadata.json')
    if not os.path.exists(p):
        return None
    try:
        data = json.load(open(p))
        v = data['version']
        return {'version': [v.get('python'), v.get('biopython'), v.get('mopepgen')],
                'pools': [[it['filename'], it['index'], canon_params(it['cleavage_params'])] for it in data['canonical_pools']],
                'source': data['source'], 'keys': sorted(data.keys())}
    except Exception as e:  # noqa
        return {'unreadable': type(e).__name__}

def pool_digest(path):
    try:
        with open(path, 'rb') as h:
            s = pickle.load(h)
        return dg(sorted(str(x) for x in s))
    except Exception as e:  # noqa
        return 'E:' + type(e).__name__

def tx_view(m):
    return {'exons': [[int(x.location.start), int(x.location.end)] for x in m.exon],
            'cds': [[int(x.location.start), int(x.location.end)] for x in m.cds],
            'strand': m.transcript.location.strand, 'chrom': m.transcript.chrom,
            'gene': m.gene_id, 'coding': bool(m.is_protein_coding), 'nf': bool(m.is_cds_start_nf()),
            'source': getattr(m.transcript, 'source', None)}

def anno_view(anno):
    out = {'tx': {}, 'genes': {}}
    for k in anno.transcripts.keys():
        out['tx'][k] = tx_view(anno.transcripts[k])
    for k in anno.genes.keys():
        g = anno.genes[k]
        out['genes'][k] = {'start': int(g.location.start), 'end': int(g.location.end), 'strand': g.location.strand,
                           'chrom': g.chrom, 'transcripts': sorted(g.transcripts)}
    return out

def truth_view(world):
    """what the annotation must contain, from the generator's ground truth only"""
    out = {'tx': {}, 'genes': {}}
    for gene in world['genes']:
        out['genes'][gene['id']] = {'start': gene['start'], 'end': gene['end'], 'strand': gene['strand'],
                                    'chrom': gene['chrom'], 'transcripts': sorted(t['id'] for t in gene['transcripts'])}
        for tx in gene['transcripts']:
            out['tx'][tx['id']] = {'exons': [list(e) for e in tx['exons']], 'strand': gene['strand'],
                                   'chrom': gene['chrom'], 'gene': gene['id']}
    return out

def world_prots(world):
    """transcript id -> protein sequence AS WRITTEN TO THE PROTEOME FASTA: the translation of the CDS unless
    the case overrides it (world['prot_override']: leading X, inner *, designed sequences)"""
    prots = {}
    ov = world.get('prot_override') or {}
    for gene in world['genes']:
        for tx in gene['transcripts']:
            if tx['cds']:
                prots[tx['id']] = ov.get(tx['id'], G.protein_of(world, gene, tx))
    return prots

def write_world(world, d):
    g, a, p = G.write_world(world, d)
    if world.get('prot_override'):
        prots = world_prots(world)
        with open(p, 'w') as f:
            for gene in world['genes']:
                for tx in gene['transcripts']:
                    if tx['cds']:
                        prot = prots[tx['id']]
                        f.write('>%s|%s|%s|-|-|%s|%d\n%s\n' % (tx['protein_id'], tx['id'], gene['id'], gene['name'], len(prot), prot))
    return g, a, p

def world_facts(world):
    prots = world_prots(world)
    return {'genome': dg(sorted(world['chroms'].items())), 'proteome': dg(sorted(prots.items())),
            'anno': dg(truth_view(world)), 'prots': prots}

class Env:
    """one scratch area: the reference files of every world + the index directory"""
    def __init__(self, worlds, name='case'):
        self.base = os.path.join(WD, name)
        shutil.rmtree(self.base, ignore_errors=True)
        os.makedirs(self.base)
        self.paths = []
        self.facts = []
        self.worlds = worlds
        for i, w in enumerate(worlds):
            d = os.path.join(self.base, 'ref%d' % i)
            os.makedirs(d)
            self.paths.append(write_world(w, d))
            self.facts.append(world_facts(w))
        self.idx = os.path.join(self.base, 'index')
        self.snap = 0

    def gtf_digests(self):
        return [hashlib.sha1(open(p[1], 'rb').read()).hexdigest()[:16] for p in self.paths]

    def run_op(self, op, params):
        if op[0] == 'g':
            g, a, p = self.paths[op[1]]
            argv = ['generateIndex', '-g', g, '-a', a, '-p', p, '-o', self.idx, '--quiet'] + cl(params[op[2]])
            if op[3]:
                argv.append('--force')
            if len(op) > 4 and op[4]:
                argv.append('--gtf-symlink')
        else:
            argv = ['updateIndex', '--index-dir', self.idx, '--quiet'] + cl(params[op[1]])
            if op[2]:
                argv.append('--force')
        return outcome(lambda: _cli.run(argv))

    def patch_version(self, ver):
        p = os.path.join(self.idx, 'metadata.json')
        data = json.load(open(p))
        data['version'] = {'python': ver[0], 'biopython': ver[1], 'mopepgen': ver[2]}
        json.dump(data, open(p, 'w'), indent=2)

    def which(self, key, digest):
        hits = [i for i, f in enumerate(self.facts) if f[key] == digest]
        return hits[0] if hits else 'unknown:' + digest

    def refdata(self):
        """what the reference files of the index contain, read back through IndexDir"""
        out = {}
        if not os.path.isdir(self.idx):
            return out
        try:
            ix = IndexDir(Path(self.idx))
        except Exception as e:  # noqa
            return {'open': type(e).__name__}
        def g():
            ge = ix.load_genome()
            return self.which('genome', dg(sorted((k, str(v.seq)) for k, v in ge.items())))
        def p():
            pr = ix.load_proteome()
            return self.which('proteome', dg(sorted((k, str(v.seq)) for k, v in pr.items())))
        def a():
            an = ix.load_annotation()
            v = anno_view(an)
            slim = {'tx': {k: {kk: x[kk] for kk in ('exons', 'strand', 'chrom', 'gene')} for k, x in v['tx'].items()},
                    'genes': v['genes']}
            return self.which('anno', dg(slim))
        def c():
            ct = ix.load_coding_tx()
            hits = [i for i, f in enumerate(self.facts) if set(ct) <= set(f['prots']) and
                    set(ct) == {t['id'] for ge in self.worlds[i]['genes'] for t in ge['transcripts'] if t['cds'] and
                                f['prots'].get(t['id']) is not None}]
            return hits[0] if hits else 'unknown'
        for name, f, fn in (('genome', g, 'genome.pkl'), ('proteome', p, 'proteome.pkl'), ('anno', a, 'annotation.gtf'),
                            ('coding', c, 'coding_transcripts.pkl')):
            if os.path.lexists(os.path.join(self.idx, fn)):
                try:
                    out[name] = f()
                except Exception as e:  # noqa
                    out[name] = 'E:' + type(e).__name__
        return out

    def load(self, ps):
        ns = argparse.Namespace(index_dir=Path(self.idx))
        try:
            genome, anno, prot, pool = common.load_references(ns, load_genome=True, load_canonical_peptides=True,
                                                              load_proteome=True, cleavage_params=cp(ps))
        except SystemExit as e:
            return {'exc': 'SystemExit:%s' % e.code}
        except BaseException as e:  # noqa
            return {'exc': type(e).__name__}
        r = {'pool': dg(sorted(str(x) for x in pool)), 'n': len(pool)}
        r['genome'] = self.which('genome', dg(sorted((k, str(v.seq)) for k, v in genome.items())))
        r['proteome'] = self.which('proteome', dg(sorted((k, str(v.seq)) for k, v in prot.items())))
        r['tx'] = sorted(anno.transcripts.keys()) == sorted(
            t['id'] for ge in self.worlds[r['genome']]['genes'] for t in ge['transcripts']) if isinstance(r['genome'], int) else False
        return r

    def observe(self, out, probes):
        idx = self.idx
        listing = sorted(os.listdir(idx)) if os.path.isdir(idx) else None
        files = {}
        for f in (listing or []):
            if f.startswith('canonical_peptides'):
                files[f] = pool_digest(os.path.join(idx, f))
        return {'out': out, 'meta': read_meta(idx), 'listing': listing, 'files': files,
                'loads': [self.load(ps) for ps in probes], 'refdata': self.refdata()}

    def snapshot(self):
        self.snap += 1
        d = os.path.join(self.base, 'snap%d' % self.snap)
        if os.path.isdir(self.idx):
            shutil.copytree(self.idx, d, symlinks=True)
        else:
            d = None
        return d

    def restore(self, d):
        shutil.rmtree(self.idx, ignore_errors=True)
        if d is not None:
            shutil.copytree(d, self.idx, symlinks=True)

    def drop(self, d):
        if d is not None:
            shutil.rmtree(d, ignore_errors=True)

    def close(self):
        shutil.rmtree(self.base, ignore_errors=True)

def start(env, c):
    if c.get('other'):
        os.makedirs(env.idx, exist_ok=True)
        open(os.path.join(env.idx, 'README.txt'), 'w').write('not an index file\n')

def do_tree(c):
    env = Env(c['worlds'])
    start(env, c)
    params, probes, alpha = c['params'], c['params'], c['alphabet']
    nodes = []
    table = {}          # observations are highly repetitive: each distinct one is sent once
    seq = []
    def note(out):
        o = env.observe(out, probes)
        key = dg(o)
        table.setdefault(key, o)
        nodes.append([list(seq), key])
    for k in c['prefix']:
        out = env.run_op(alpha[k], params)
        seq.append(k)
        note(out)
    def rec(depth_left):
        if depth_left == 0:
            return
        snap = env.snapshot()
        for k in range(len(alpha)):
            env.restore(snap)
            out = env.run_op(alpha[k], params)
            seq.append(k)
            note(out)
            rec(depth_left - 1)
            seq.pop()
        env.drop(snap)
    rec(c['depth'] - len(c['prefix']))
    gt = env.gtf_digests()
    env.close()
    return {'nodes': nodes, 'table': table, 'gtf_after': gt}

def do_seq(c):
    env = Env(c['worlds'])
    start(env, c)
    gt0 = env.gtf_digests()
    steps = []
    for i, op in enumerate(c['ops']):
        out = env.run_op(op, c['params'])
        e = (c.get('env') or [None] * len(c['ops']))[i]
        if op[0] == 'g' and out == 'ok' and e is not None:
            env.patch_version(e)
        steps.append(env.observe(out, c['params']))
    gt1 = env.gtf_digests()
    env.close()
    return {'steps': steps, 'sources_intact': gt0 == gt1}

# ----------------------------------------------------------------------------- reference round trip
def read_fasta(path):
    out, name = {}, None
    for line in open(path):
        line = line.rstrip('\n')
        if line.startswith('>'):
            name = line[1:]
            out[name] = ''
        elif name is not None:
            out[name] += line
    return out

def do_ref(c):
    w = c['world']
    flag = bool(c.get('invalid_as_noncoding'))
    env = Env([w])
    g, a, p = env.paths[0]
    argv = ['generateIndex', '-g', g, '-a', a, '-p', p, '-o', env.idx, '--quiet']
    if c.get('symlink'):
        argv.append('--gtf-symlink')
    if flag:
        argv.append('--invalid-protein-as-noncoding')
    out = outcome(lambda: _cli.run(argv))
    if out == 'ok' and c.get('then_update'):
        out = outcome(lambda: _cli.run(['updateIndex', '--index-dir', env.idx, '--quiet', '-c', 'lysc', '-m', 1]))
    res = {'out': out, 'diffs': []}
    if out == 'ok':
        ix = IndexDir(Path(env.idx))
        # genome: equal to the generator's chromosomes and to the raw FASTA
        ge = {k: str(v.seq) for k, v in ix.load_genome().items()}
        raw = read_fasta(g)
        if ge != w['chroms']:
            res['diffs'].append('genome != ground truth')
        if ge != {k.split()[0]: v for k, v in raw.items()}:
            res['diffs'].append('genome != raw fasta')
        # proteome: record by record against the FASTA file parsed here (ids and sequences), through both loaders
        truth = env.facts[0]['prots']
        rawp = {k.split('|')[1]: v for k, v in read_fasta(p).items()}
        ns = argparse.Namespace(index_dir=Path(env.idx))
        _, _, via_refs, _ = common.load_references(ns, load_genome=False, load_canonical_peptides=False, load_proteome=True)
        for name, loaded in (('IndexDir.load_proteome', ix.load_proteome()), ('load_references', via_refs)):
            pr = {k: str(v.seq) for k, v in loaded.items()}
            for k in sorted(set(pr) | set(rawp)):
                if k not in pr:
                    res['diffs'].append('%s: protein %s of the FASTA is missing' % (name, k))
                elif k not in rawp:
                    res['diffs'].append('%s: protein %s is not in the FASTA' % (name, k))
                elif pr[k] != rawp[k]:
                    res['diffs'].append('%s: protein %s is %s, the FASTA says %s' % (name, k, pr[k][:40], rawp[k][:40]))
            if any(getattr(v, 'transcript_id', k) != k for k, v in loaded.items()):
                res['diffs'].append('%s: transcript ids of the records differ from their keys' % name)
            if pr != truth:
                res['diffs'].append('%s != ground truth' % name)
        # annotation through the saved idx files vs a fresh index of the original GTF vs ground truth
        an = ix.load_annotation()
        v1 = anno_view(an)
        fresh = gtf.GenomicAnnotationOnDisk()
        fresh.generate_index(Path(a), source=None)
        from moPepGen.aa.AminoAcidSeqDict import AminoAcidSeqDict
        fp = AminoAcidSeqDict()
        fp.dump_fasta(Path(p), source=None)
        fresh.check_protein_coding(fp, flag)
        v2 = anno_view(fresh)
        if v1 != v2:
            res['diffs'].append('annotation loaded from the index != annotation parsed from the original GTF')
        tv = truth_view(w)
        slim = {'tx': {k: {kk: x[kk] for kk in ('exons', 'strand', 'chrom', 'gene')} for k, x in v1['tx'].items()},
                'genes': v1['genes']}
        if slim != tv:
            res['diffs'].append('annotation != ground truth')
        # the recorded source is the one inferred from the GTF; it reaches every loaded model through the
        # pointers (GenomicAnnotationOnDisk.source itself stays None after load_index: no consumer-visible effect)
        if ix.metadata.source != fresh.source:
            res['diffs'].append('source')
        res['anno_source_attr'] = [an.source, fresh.source]
        # the GTF copy is byte-identical
        if open(os.path.join(env.idx, 'annotation.gtf'), 'rb').read() != open(a, 'rb').read():
            res['diffs'].append('annotation.gtf bytes')
        # coding transcripts: those with a CDS whose protein is in the FASTA (and, with
        # --invalid-protein-as-noncoding, has no '*'), from the ground truth
        ct = set(ix.load_coding_tx())
        exp = {k for k, x in v2['tx'].items() if x['coding']}
        if ct != exp:
            res['diffs'].append('coding transcripts != is_protein_coding of the annotation')
        gt_coding = {k for k, s_ in truth.items() if not (flag and '*' in s_)}
        if ct != gt_coding:
            res['diffs'].append('coding transcripts %s != ground truth %s' % (sorted(ct), sorted(gt_coding)))
        res['n_tx'] = len(v1['tx'])
        res['n_coding'] = len(ct)
    env.close()
    return res

# ----------------------------------------------------------------------------- version gate
def do_ver(c):
    """generateIndex, rewrite the recorded version, then let every consumer of an index open it"""
    env = Env([c['world']])
    g, a, p = env.paths[0]
    ps = c['params'][0]
    out = outcome(lambda: _cli.run(['generateIndex', '-g', g, '-a', a, '-p', p, '-o', env.idx, '--quiet'] + cl(ps)))
    res = {'gen': out, 'consumers': {}}
    if out != 'ok':
        env.close()
        return res
    real = read_meta(env.idx)['version']
    res['real'] = real
    rec = [r if x == '<same>' else x for x, r in zip(c['recorded'], real)]
    env.patch_version(rec)
    res['recorded'] = rec
    before = env.observe('x', [])
    ns = argparse.Namespace(index_dir=Path(env.idx))
    cons = {}
    cons['load_references(pool)'] = outcome(lambda: common.load_references(ns, cleavage_params=cp(ps)))
    cons['load_references(no pool)'] = outcome(lambda: common.load_references(ns, load_genome=False, load_canonical_peptides=False))
    cons['updateIndex(new)'] = outcome(lambda: _cli.run(['updateIndex', '--index-dir', env.idx, '--quiet'] + cl(c['params'][1])))
    cons['updateIndex(existing)'] = outcome(lambda: _cli.run(['updateIndex', '--index-dir', env.idx, '--quiet'] + cl(ps)))
    cons['updateIndex(existing, force)'] = outcome(lambda: _cli.run(['updateIndex', '--index-dir', env.idx, '--quiet', '--force'] + cl(ps)))
    # real sub-commands that take --index-dir
    outp = os.path.join(env.base, 'out')
    os.makedirs(outp, exist_ok=True)
    gvf = os.path.join(env.base, 'empty.gvf')
    open(gvf, 'w').write('\n'.join(['##fileformat=VCFv4.2', '##mopepgen_version=1.4.6', '##parser=parseVEP', '##reference_index=',
                                     '##genome_fasta=', '##annotation_gtf=', '##source=gSNP', "##CHROM=<Description='Gene ID'>",
                                     '#CHROM\tPOS\tID\tREF\tALT\tQUAL\tFILTER\tINFO']) + '\n')
    cons['callNovelORF'] = outcome(lambda: _cli.run(['callNovelORF', '--index-dir', env.idx, '-o', os.path.join(outp, 'n.fasta'), '--quiet'] + cl(ps)))
    cons['callAltTranslation'] = outcome(lambda: _cli.run(['callAltTranslation', '--index-dir', env.idx, '-o', os.path.join(outp, 'a.fasta'),
                                                          '--w2f-reassignment', '--quiet'] + cl(ps)))
    cons['callVariant'] = outcome(lambda: _cli.run(['callVariant', '-i', gvf, '--index-dir', env.idx, '-o', os.path.join(outp, 'v.fasta'),
                                                   '--quiet'] + cl(ps)))
    after = env.observe('x', [])
    res['consumers'] = cons
    res['unchanged'] = before == after
    env.close()
    return res

# ----------------------------------------------------------------------------- on the fly
def do_fly(c):
    env = Env([c['world']])
    g, a, p = env.paths[0]
    out = []
    for ps in c['params']:
        ns = argparse.Namespace(index_dir=None, genome_fasta=Path(g), annotation_gtf=Path(a), proteome_fasta=Path(p),
                                reference_source=None, cleavage_rule=ps['rule'], cleavage_exception=ps['exc'],
                                miscleavage=ps['k'], min_mw=ps['min_mw'], min_length=ps['min_len'], max_length=ps['max_len'])
        try:
            _, _, _, pool = common.load_references(ns, load_genome=False, load_canonical_peptides=True, cleavage_params=cp(ps))
            out.append(sorted(str(x) for x in pool))
        except BaseException as e:  # noqa
            out.append({'exc': type(e).__name__})
    # and the same through an index
    pools = []
    o = outcome(lambda: _cli.run(['generateIndex', '-g', g, '-a', a, '-p', p, '-o', env.idx, '--quiet'] + cl(c['params'][0])))
    for ps in c['params'][1:]:
        outcome(lambda: _cli.run(['updateIndex', '--index-dir', env.idx, '--quiet'] + cl(ps)))
    for ps in c['params']:
        try:
            pools.append(sorted(str(x) for x in IndexDir(Path(env.idx)).load_canonical_peptides(cp(ps))))
        except BaseException as e:  # noqa
            pools.append({'exc': type(e).__name__})
    env.close()
    return {'fly': out, 'index': pools, 'gen': o}

# ----------------------------------------------------------------------------- --reference-source
def write_styled(world, d):
    """reference files in GENCODE style (gen_reference's writer) or ENSEMBL style (gene_biotype / transcript_biotype
    attributes, source column 'ensembl', ENSEMBL protein FASTA headers; ids of the world are already unversioned)"""
    if world.get('style') != 'ENSEMBL':
        return write_world(world, d)
    g, a, p = G.write_world(world, d)
    txt = open(a).read().replace('gene_type "', 'gene_biotype "').replace('transcript_type "', 'transcript_biotype "')
    txt = txt.replace('\tHAVANA\t', '\tensembl\t')
    open(a, 'w').write(txt)
    prots = world_prots(world)
    with open(p, 'w') as f:
        for gene in world['genes']:
            for tx in gene['transcripts']:
                if tx['cds']:
                    f.write('>%s.1 pep chromosome:GRCh38:%s:%d:%d:%d gene:%s.1 transcript:%s.1 gene_biotype:%s transcript_biotype:%s\n%s\n' % (
                        tx['protein_id'], gene['chrom'], gene['start'] + 1, gene['end'], gene['strand'], gene['id'], tx['id'],
                        gene['biotype'], tx['biotype'], prots[tx['id']]))
    return g, a, p

def src_view(anno, proteome, pool, source):
    v = {'source': source, 'tx': {}, 'coding': sorted(k for k in anno.transcripts.keys() if anno.transcripts[k].is_protein_coding)}
    for k in anno.transcripts.keys():
        m = anno.transcripts[k]
        try:
            bt = m.transcript.biotype
        except BaseException as e:  # noqa
            bt = 'E:' + type(e).__name__
        v['tx'][k] = {'source': getattr(m.transcript, 'source', None), 'biotype': bt, 'gene': m.gene_id,
                      'exons': [[int(x.location.start), int(x.location.end)] for x in m.exon],
                      'coding': bool(m.is_protein_coding)}
    v['proteome'] = {k: str(x.seq) for k, x in proteome.items()} if proteome is not None else None
    v['pool'] = sorted(str(x) for x in pool) if pool is not None else None
    return v

def do_src(c):
    w = c['world']
    base = os.path.join(WD, 'src')
    shutil.rmtree(base, ignore_errors=True)
    os.makedirs(os.path.join(base, 'ref'))
    g, a, p = write_styled(w, os.path.join(base, 'ref'))
    idx = os.path.join(base, 'index')
    opt, flag, ps = c['option'], bool(c['flag']), c['params']
    res = {}
    # ---- through the index
    argv = ['generateIndex', '-g', g, '-a', a, '-p', p, '-o', idx, '--quiet'] + cl(ps)
    if opt:
        argv += ['--reference-source', opt]
    if flag:
        argv.append('--invalid-protein-as-noncoding')
    out = outcome(lambda: _cli.run(argv))
    if out == 'ok' and c.get('update'):
        out2 = outcome(lambda: _cli.run(['updateIndex', '--index-dir', idx, '--quiet'] + cl(c['update'])))
        res['update'] = out2
    res['gen'] = out
    if out == 'ok':
        try:
            ns = argparse.Namespace(index_dir=Path(idx))
            _, anno, prot, pool = common.load_references(ns, load_genome=False, load_canonical_peptides=True,
                                                         load_proteome=True, invalid_protein_as_noncoding=flag,
                                                         cleavage_params=cp(ps))
            res['index'] = src_view(anno, prot, pool, read_meta(idx)['source'])
            res['index']['coding_file'] = sorted(IndexDir(Path(idx)).load_coding_tx())
        except BaseException as e:  # noqa
            res['index'] = {'exc': type(e).__name__}
    # ---- from the raw files, under the same options
    try:
        ns = argparse.Namespace(index_dir=None, genome_fasta=Path(g), annotation_gtf=Path(a), proteome_fasta=Path(p),
                                reference_source=opt, cleavage_rule=ps['rule'], cleavage_exception=ps['exc'],
                                miscleavage=ps['k'], min_mw=ps['min_mw'], min_length=ps['min_len'], max_length=ps['max_len'])
        _, anno, prot, pool = common.load_references(ns, load_genome=False, load_canonical_peptides=True, load_proteome=True,
                                                     invalid_protein_as_noncoding=flag, cleavage_params=cp(ps))
        res['raw'] = src_view(anno, prot, pool, anno.source)
    except BaseException as e:  # noqa
        res['raw'] = {'exc': type(e).__name__}
    shutil.rmtree(base, ignore_errors=True)
    return res

def handle(c):
    k = c['kind']
    if k == 'src':
        return do_src(c)
    if k == 'tree':
        return do_tree(c)
    if k == 'seq':
        return do_seq(c)
    if k == 'ref':
        return do_ref(c)
    if k == 'ver':
        return do_ver(c)
    if k == 'fly':
        return do_fly(c)
    raise ValueError(k)
