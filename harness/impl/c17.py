"""Implementation side for C17: CIRCexplorerParser classes, GenomicAnnotation.find_exon_index /
find_intron_index, CircRNAModel and the CLI entry function parse_circexplorer.

case = {'world', 'rows': [...], 'ce3': bool, 'thr': {'reads': int, 'fpb': '1.250'|None, 'score': ...},
        'sr': [lo, hi], 'er': [lo, hi], 'cli': bool}
row  = {'chrom','start','end','strand','sizes','offsets','reads','type','gene_name','tx','fpb','score'}
"""
import os, sys, re, argparse, logging
from pathlib import Path

sys.path.insert(0, os.path.dirname(os.path.dirname(os.path.dirname(os.path.abspath(__file__)))))
from harness.lib import gen_reference as G   # only write_world (file rendering) is used here

from moPepGen import cli, circ, constant
from moPepGen.cli import common
from moPepGen.parser import CIRCexplorerParser

_WD = None
_N = [0]

class _Capture(logging.Handler):
    def __init__(self):
        super().__init__(level=logging.DEBUG)
        self.msgs = []
    def emit(self, record):
        try:
            self.msgs.append(record.getMessage())
        except Exception:   # noqa  (the repo has a malformed format string in one warning)
            self.msgs.append(str(record.msg))

_CAP = _Capture()

def init(workdir):
    global _WD
    _WD = workdir
    lg = logging.getLogger(constant.PROG_NAME)
    lg.handlers = [_CAP]
    lg.setLevel(logging.INFO)
    lg.propagate = False
    logging.raiseExceptions = False

def exc_class(e):
    return {'__exc__': type(e).__name__, 'msg': str(e)[:200]}

def line_of(r, ce3):
    f = [r['chrom'], str(r['start']), str(r['end']), r.get('name', 'circular_RNA/1'), '0', r['strand'],
         str(r['start']), str(r['start']), '0,0,0', str(len(r['sizes'])), ','.join(map(str, r['sizes'])),
         ','.join(map(str, r['offsets'])), str(r['reads']), r['type'], r['gene_name'], r['tx'],
         ','.join(str(i + 1) for i in range(max(1, len(r['sizes'])))), 'chr:1-2|chr:3-4']
    if ce3:
        f += [r['fpb'], '1.0', r['score']]
    return '\t'.join(f)

def model_tuple(m, gseq=None):
    out = {'gene': m.gene_id, 'tx': m.transcript_id, 'id': m.id,
           'frags': [[int(f.location.start), int(f.location.end)] for f in m.fragments],
           'intron': list(m.intron), 'genomic_position': m.genomic_position, 'gvf': m.to_string()}
    if gseq is not None:
        try:
            s = m.get_circ_rna_sequence(gseq)
            out['seq'] = None if s is None else str(s.seq)
        except Exception as e:   # noqa
            out['seq'] = exc_class(e)
    return out

def tally_of(msgs):
    t = {}
    for m in msgs:
        for key, pat in (('total', r'Totally records read: (\d+)'), ('succeed', r'Records successfully processed: (\d+)'),
                         ('skipped', r'Records skipped: (\d+)'), ('invalid', r'Invalid circRNA record: (\d+)'),
                         ('insufficient', r'Insufficient evidence: (\d+)')):
            mm = re.search(pat, m)
            if mm:
                t[key] = int(mm.group(1))
    return t

def fnum(x):
    return None if x is None else float(x)

def handle(c):
    _N[0] += 1
    d = os.path.join(_WD, 'c%d' % _N[0])
    os.makedirs(d)
    g, a, p = G.write_world(c['world'], d)
    ce3 = c['ce3']
    th = c['thr']
    table = Path(d) / 'circ.tsv'
    with open(table, 'w') as f:
        for r in c['rows']:
            f.write(line_of(r, ce3) + '\n')
    args = argparse.Namespace(index_dir=None, annotation_gtf=Path(a), genome_fasta=Path(g), proteome_fasta=None,
                              reference_source=None, debug_level=1, quiet=True,
                              input_path=table, output_path=Path(d) / 'circ.gvf', source='circRNA',
                              command='parseCIRCexplorer', circexplorer3=ce3, min_read_number=th['reads'],
                              min_fbr_circ=fnum(th.get('fpb')), min_circ_score=fnum(th.get('score')),
                              intron_start_range='%d,%d' % tuple(c['sr']), intron_end_range='%d,%d' % tuple(c['er']),
                              skip_failed=False)
    genome, anno, *_ = common.load_references(args, load_genome=True, load_canonical_peptides=False)
    out = {'lib': [], 'valid': []}
    gseqs = {}
    # the reader may yield fewer records than the table has rows: align by row identity (the name column carries the row's
    # tag; verbatim repeats share it), rows the reader did not yield are reported as missing
    MISSING = {'__missing__': True}
    rows = c['rows']
    k = 0
    for rec in CIRCexplorerParser.parse(table, ce3):
        while k < len(rows) and rows[k].get('name', 'circular_RNA/1') != rec.name:
            out['lib'].append(MISSING); out['valid'].append(MISSING)
            k += 1
        if k >= len(rows):
            break
        k += 1
        try:
            if ce3:
                out['valid'].append(bool(rec.is_valid(th['reads'], fnum(th.get('fpb')), fnum(th.get('score')))))
            else:
                out['valid'].append(bool(rec.is_valid(th['reads'])))
        except Exception as e:   # noqa
            out['valid'].append(exc_class(e))
        try:
            m = rec.convert_to_circ_rna(anno, tuple(c['sr']), tuple(c['er']))
            gid = m.gene_id
            if gid not in gseqs:
                gm = anno.genes[gid]
                gseqs[gid] = gm.get_gene_sequence(genome[gm.chrom])
            out['lib'].append(model_tuple(m, gseqs[gid]))
        except Exception as e:   # noqa
            out['lib'].append(exc_class(e))
    while len(out['lib']) < len(rows):
        out['lib'].append(MISSING); out['valid'].append(MISSING)
    if c.get('cli', True):
        del _CAP.msgs[:]
        try:
            cli.parse_circexplorer(args)
            res = {'tally': tally_of(_CAP.msgs), 'records': None}
            if os.path.exists(args.output_path):
                recs = []
                with open(args.output_path) as h:
                    lines = [l.rstrip('\n') for l in h if not l.startswith('#')]
                with open(args.output_path) as h:
                    models = list(circ.io.parse(h))
                for l, m in zip(lines, models):
                    gid = m.gene_id
                    if gid not in gseqs:
                        gm = anno.genes[gid]
                        gseqs[gid] = gm.get_gene_sequence(genome[gm.chrom])
                    t = model_tuple(m, gseqs[gid])
                    t['line'] = l
                    recs.append(t)
                res['records'] = recs
            out['cli'] = res
        except BaseException as e:   # noqa
            out['cli'] = exc_class(e)
    if c.get('argv'):
        # the same run through the real argument parser, every option on the command line (CE2 and CE3 layouts)
        import _argv_route as AR
        out2 = os.path.join(d, 'circ_argv.gvf')
        ref = AR.reference_args(c, g, a, p, d, with_genome=False)
        if isinstance(ref, dict):
            out['cli_argv'] = ref
        else:
            argv = ['parseCIRCexplorer', '-i', str(table), '-o', out2, '--source', 'circRNA', '--debug-level', 'INFO', '--quiet',
                    '--min-read-number', str(th['reads']), '--intron-start-range=%d,%d' % tuple(c['sr']),
                    '--intron-end-range=%d,%d' % tuple(c['er'])] + ref
            if ce3:
                argv += ['--circexplorer3']
                if th.get('fpb') is not None:
                    argv += ['--min-fpb-circ', th['fpb']]
                if th.get('score') is not None:
                    argv += ['--min-circ-score', th['score']]
            if c.get('skip_failed'):
                argv += ['--skip-failed']
            out['cli_argv'] = AR.run(argv, out2, restore_handlers=[_CAP])
            # hand-built Namespace with the same options (incl. --skip-failed when flagged)
            import copy
            args2 = copy.copy(args)
            args2.skip_failed = bool(c.get('skip_failed'))
            args2.output_path = Path(d) / 'circ_hand.gvf'
            try:
                cli.parse_circexplorer(args2)
                out['cli_hand'] = AR.body(str(args2.output_path))
            except BaseException as e:   # noqa
                out['cli_hand'] = exc_class(e)
    return out
