"""Implementation side of the failing-input search for docs/py2coq.md target 27 (--max-adjacent-as-mnv):
seqvar.VariantRecord.find_mnvs_from_adjacent_variants (which calls create_mnv_from_adjacent) on bare records.

case = {records: [[start, end, ref, alt, type, id], ...], K}
returns [[start, end, ref, alt, [member ids]], ...] in the order of the returned list
"""
from moPepGen.SeqFeature import FeatureLocation
from moPepGen.seqvar.VariantRecord import VariantRecord, find_mnvs_from_adjacent_variants

def init(wd):
    pass

def handle(case):
    vs = [VariantRecord(location=FeatureLocation(s, e, seqname='ENSG0001'), ref=r, alt=a, _type=t, _id=i,
                        attrs={'TRANSCRIPT_ID': 'ENST0001'}) for s, e, r, a, t, i in case['records']]
    out = find_mnvs_from_adjacent_variants(vs, case['K'])
    return [[int(m.location.start), int(m.location.end), str(m.ref), str(m.alt), list(m.attrs['INDIVIDUAL_VARIANT_IDS'])]
            for m in out]
