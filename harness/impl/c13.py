"""Implementation side for C13: the repo's GVF codec, circRNA codec, indexGVF entry point and
VariantRecordPoolOnDisk, called in-process."""
import os, io, argparse, shutil, hashlib
from pathlib import Path
from moPepGen.SeqFeature import FeatureLocation, SeqFeature
from moPepGen.seqvar.VariantRecord import VariantRecord
from moPepGen.seqvar.GVFMetadata import GVFMetadata
from moPepGen.seqvar import io as sio
from moPepGen.seqvar import GVFIndex
from moPepGen.seqvar.VariantRecordPoolOnDisk import VariantRecordPoolOnDisk, VariantRecordPoolOnDiskOpener
from moPepGen.circ import io as cio
from moPepGen.circ.CircRNA import CircRNAModel
from moPepGen.cli.index_gvf import add_subparser_index_gvf, index_gvf

WD = None
_N = [0]
_PARSER = None

def init(wd):
    global WD
    WD = wd

def _exc(e):
    return {'__exc__': type(e).__name__}

def mk_record(r):
    attrs = {}
    for k, v in r['attrs']:
        attrs[k] = v
    return VariantRecord(location=FeatureLocation(seqname=r['seqname'], start=r['start'], end=r['end']),
                         ref=r['ref'], alt=r['alt'], _type=r['type'], _id=r['id'], attrs=attrs)

def rec_out(v):
    return {'seqname': v.location.seqname, 'start': int(v.location.start), 'end': int(v.location.end),
            'ref': str(v.ref), 'alt': str(v.alt), 'type': v.type, 'id': v.id,
            'attrs': [[k, x] for k, x in v.attrs.items()]}

def mk_circ(c):
    frags = [SeqFeature(chrom=c['gene_id'], location=FeatureLocation(seqname=c['gene_id'], start=s, end=e),
                        attributes={}, type='intron' if (j + 1) in c['intron'] else 'exon')
             for j, (s, e) in enumerate(c['frags'])]
    return CircRNAModel(c['tx'], frags, list(c['intron']), c['id'], c['gene_id'], c['gene_name'], c['genomic'])

def circ_out(c):
    return {'tx': c.transcript_id, 'frags': [[int(f.location.start), int(f.location.end)] for f in c.fragments],
            'intron': list(c.intron), 'id': c.id, 'gene_id': c.gene_id, 'gene_name': c.gene_name,
            'genomic': c.genomic_position}

def any_out(r):
    if isinstance(r, CircRNAModel):
        return ['circ', circ_out(r)]
    return ['var', rec_out(r)]

def wpw(make, to_line):
    """[s1 | exc, s2 | exc]"""
    try:
        obj = make()
    except Exception as e:  # constructor refuses the record: nothing to write
        return {'ctor': type(e).__name__}
    try:
        s1 = obj.to_string()
    except Exception as e:
        return [_exc(e), _exc(e)]
    try:
        obj2 = to_line(s1 + '\n')
        s2 = obj2.to_string()
    except Exception as e:
        return [s1, _exc(e)]
    return [s1, s2]

def index_args(path):
    global _PARSER
    if _PARSER is None:
        p = argparse.ArgumentParser()
        sub = p.add_subparsers(dest='command')
        add_subparser_index_gvf(sub)
        _PARSER = p
    return _PARSER.parse_args(['indexGVF', '-i', str(path)])

def metadata_for(f):
    if f['circ']:
        return GVFMetadata(parser='parseCIRCexplorer', source=f.get('source', 'circRNA'), chrom='Gene ID',
                           reference_index=f.get('reference_index'), genome_fasta=f.get('genome_fasta'),
                           annotation_gtf=f.get('annotation_gtf'))
    # note: GVFMetadata.__init__ aliases (and add_info mutates) the module-level INFO table; harmless for the round trip
    return GVFMetadata(parser=f.get('parser', 'parseVEP'), source=f.get('source', 'gSNP'), chrom='Gene ID',
                       reference_index=f.get('reference_index'), genome_fasta=f.get('genome_fasta'),
                       annotation_gtf=f.get('annotation_gtf'))

def write_file(f, path):
    if f['circ']:
        with open(path, 'w') as h:
            cio.write([mk_circ(c) for c in f['records']], metadata_for(f), h)
    else:
        sio.write([mk_record(r) for r in f['records']], str(path), metadata_for(f))

def rewrite_file(src, dst, circ):
    """parse everything back (metadata + records) and write again with the repo's writer"""
    with open(src, 'rt') as h:
        md = GVFMetadata.parse(h)
        if circ:
            recs = list(cio.parse(h))
        else:
            recs = list(sio.parse(h))
    if circ:
        with open(dst, 'w') as h:
            cio.write(recs, md, h)
    else:
        sio.write(recs, str(dst), md)

def apply_edit(path, edit):
    data = open(path, 'rb').read()
    t = edit['type']
    if t == 'append':
        data = data + edit['line'].encode() + b'\n'
    elif t == 'reorder':
        lines = data.split(b'\n')
        body = [i for i, l in enumerate(lines) if l and not l.startswith(b'#')]
        if len(body) >= 2:
            a, b = body[edit['a'] % len(body)], body[edit['b'] % len(body)]
            lines[a], lines[b] = lines[b], lines[a]
        data = b'\n'.join(lines)
    elif t == 'byte':
        # only from the '#CHROM' header line onwards: the '##' metadata block is not modelled
        first = 0
        for l in data.split(b'\n'):
            if not l.startswith(b'##'):
                break
            first += len(l) + 1
        first = min(first, len(data) - 1)
        pos = first + edit['pos'] % (len(data) - first)
        old = data[pos:pos + 1]
        new = edit['char'].encode()
        if new == old:
            new = b'Z' if old != b'Z' else b'Y'
        data = data[:pos] + new + data[pos + 1:]
    elif t == 'drop_last':
        lines = data.split(b'\n')
        if lines and lines[-1] == b'':
            lines = lines[:-2] + [b'']
        data = b'\n'.join(lines)
    elif t == 'crlf':                       # LF -> CRLF (unix2dos)
        data = data.replace(b'\r\n', b'\n').replace(b'\n', b'\r\n')
    elif t == 'lf':                         # CRLF -> LF (dos2unix)
        data = data.replace(b'\r\n', b'\n')
    elif t == 'trail_ws':                   # white space added at the end of one line from '#CHROM' on
        lines = data.split(b'\n')
        cand = [i for i, l in enumerate(lines[:-1]) if not l.startswith(b'##')]
        if cand:
            i = cand[edit['a'] % len(cand)]
            cr = lines[i].endswith(b'\r')
            core = lines[i][:-1] if cr else lines[i]
            lines[i] = core + edit['ws'].encode() + (b'\r' if cr else b'')
        data = b'\n'.join(lines)
    elif t == 'lone_cr':                    # the terminator of one record line becomes a bare CR (classic Mac ending)
        lines = data.split(b'\n')
        cand = [i for i, l in enumerate(lines[:-1]) if l and not l.startswith(b'#')]
        if cand:
            i = cand[edit['a'] % len(cand)]
            if not lines[i].endswith(b'\r'):
                lines[i] = lines[i] + b'\r' + lines[i + 1]
                del lines[i + 1]
        data = b'\n'.join(lines)
    elif t == 'bom':
        data = b'\xef\xbb\xbf' + data
    elif t == 'final_newline':              # drop the terminator of the last line
        if data.endswith(b'\r\n'):
            data = data[:-2]
        elif data.endswith(b'\n'):
            data = data[:-1]
    elif t in ('touch', 'rewrite_identical'):
        pass                                # same bytes written again (new mtime, new inode content)
    open(path, 'wb').write(data)

def handle_pool(c):
    _N[0] += 1
    d = Path(WD) / ('p%d' % _N[0])
    d.mkdir()
    out = {'files': []}
    try:
        paths = []
        for i, f in enumerate(c['files']):
            path = d / ('f%d.gvf' % i)
            paths.append(path)
            fo = {}
            try:
                write_file(f, path)
            except Exception as e:
                out['write_error'] = _exc(e)
                return out
            fo['text1'] = open(path, 'rb').read().decode('latin-1')      # bytes, one char per byte
            # second write: parse (metadata + records) -> write
            try:
                p2 = d / ('f%d.second.gvf' % i)
                rewrite_file(path, p2, f['circ'])
                fo['text2'] = open(p2, 'rb').read().decode('latin-1')
                os.remove(p2)
            except Exception as e:
                fo['text2'] = _exc(e)
            for e in f.get('pre_edits', []):   # edits BEFORE indexing (e.g. a CRLF file that is then indexed)
                apply_edit(path, e)
            fo['indexed'] = open(path, 'rb').read().decode('latin-1')
            if f.get('idx'):
                try:
                    index_gvf(index_args(path))
                    fo['idx_text'] = open(str(path) + '.idx').read()
                except Exception as e:
                    fo['idx_text'] = _exc(e)
            if f.get('raw_idx') is not None:      # hand-made .idx file (malformed stream)
                open(str(path) + '.idx', 'w').write(f['raw_idx'])
                fo['idx_text'] = f['raw_idx']
            for e in f.get('edits', []):
                apply_edit(path, e)
            fo['final'] = open(path, 'rb').read().decode('latin-1')
            fo['sha512'] = hashlib.sha512(open(path, 'rb').read()).hexdigest()
            # linear scan with the repo's reader
            try:
                with open(path, 'rt') as h:
                    md = GVFMetadata.parse(h)
                    fo['is_circ'] = md.is_circ_rna()
                    recs = list(cio.parse(h)) if md.is_circ_rna() else list(sio.parse(h))
                fo['scan'] = [[r.transcript_id, any_out(r)] for r in recs]
            except Exception as e:
                fo['scan'] = _exc(e)
            # iterate_pointer directly
            try:
                with open(path, 'rb') as h:
                    fo['iter'] = [[p.key, p.start, p.end] for p in GVFIndex.iterate_pointer(h, fo.get('is_circ', f['circ']))]
            except Exception as e:
                fo['iter'] = _exc(e)
            out['files'].append(fo)
        # the pool
        pool = VariantRecordPoolOnDisk(gvf_files=paths)
        try:
            with VariantRecordPoolOnDiskOpener(pool):
                ptrs = {}
                for k, ps in pool.pointers.items():
                    ptrs[k] = [[pool.gvf_handles.index(p.handle), p.start, p.end] for p in ps]
                out['pointers'] = ptrs
                loads = {}
                for k in list(pool.pointers.keys()) + c.get('absent_keys', []):
                    try:
                        # the gathering loop of VariantRecordPoolOnDisk.__getitem__
                        records = []
                        for pointer in pool.pointers[k]:
                            records += pointer.load()
                        loads[k] = [any_out(r) for r in records]
                    except Exception as e:
                        loads[k] = _exc(e)
                out['loads'] = loads
                if c.get('getitem'):
                    # the real __getitem__ (possible without annotation when all records are circRNA)
                    gi = {}
                    for k in pool.pointers:
                        try:
                            series = pool[k]
                            gi[k] = {'circ': [circ_out(x) for x in series.circ_rna],
                                     'other': len(series.transcriptional) + len(series.intronic) + len(series.fusion)}
                        except Exception as e:
                            gi[k] = _exc(e)
                    out['getitem'] = gi
        except Exception as e:
            out['open_error'] = _exc(e)
            for h in pool.gvf_handles:
                try:
                    h.close()
                except Exception:
                    pass
        return out
    finally:
        shutil.rmtree(d, ignore_errors=True)

def handle(c):
    k = c['kind']
    if k == 'wpw':
        return wpw(lambda: mk_record(c['rec']), sio.line_to_variant_record)
    if k == 'circ_wpw':
        return wpw(lambda: mk_circ(c['circ']), cio.line_to_circ_model)
    if k == 'parse_line':
        return rec_out(sio.line_to_variant_record(c['line']))
    if k == 'circ_parse_line':
        return circ_out(cio.line_to_circ_model(c['line']))
    if k == 'pool':
        return handle_pool(c)
    raise ValueError(k)
