"""Implementation side of the failing-input search for the exon look-ups of docs/py2coq.md target 26:
TranscriptAnnotationModel.get_upstream_exon_end / get_downstream_exon_start on a bare exon list.

case = {fn: 'get_upstream_exon_end'|'get_downstream_exon_start', strand: 1|-1, exons: [[start, end], ...], pos}
returns the integer, or {'__exc__': class name} (by harness/impl/_worker.py)
"""
from types import SimpleNamespace as NS
from moPepGen.gtf.TranscriptAnnotationModel import TranscriptAnnotationModel

def init(wd):
    pass

def handle(case):
    m = TranscriptAnnotationModel.__new__(TranscriptAnnotationModel)
    m.transcript = NS(strand=case['strand'])
    m.exon = [NS(location=NS(start=s, end=e)) for s, e in case['exons']]
    return getattr(m, case['fn'])(case['pos'])
