"""Worker: _worker.py <script> <in.json> <out.json> <workdir>.  Runs under /venv with PYTHONPATH=/repo."""
import sys, os, json, importlib, traceback, io, contextlib, logging
sys.path.insert(0, os.path.dirname(os.path.abspath(__file__)))
script, inp, outp, wd = sys.argv[1:5]
mod = importlib.import_module(script)
if hasattr(mod, 'init'):
    mod.init(wd)
cases = json.load(open(inp))
out = []
for c in cases:
    try:
        buf = io.StringIO()
        with contextlib.redirect_stdout(buf):
            r = mod.handle(c)
        out.append(r)
    except SystemExit as e:
        out.append({'__exc__': 'SystemExit', 'msg': str(e.code)})
    except BaseException as e:  # noqa
        out.append({'__exc__': type(e).__name__, 'msg': str(e)[:500],
                    'tb': traceback.format_exc()[-1500:]})
json.dump(out, open(outp, 'w'))
