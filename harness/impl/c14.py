"""Implementation side for C14: the repo's VEP / REDItools parser classes and the CLI entry functions.

case = {'world': <gen_reference world>, 'vep': [row...], 'redi': {...} (either may be absent)}
  vep row  : {'gene': id, 'tx': id, 'loc': 'chr1:12-13', 'allele': 'A'}
  redi     : {'thr': {alt, freq, rna, dna}, 'col': <1-based transcript id column>,
              'rows': [{'chrom','pos','ref','counts':[a,c,g,t],'subs':'AG CT','gcov':'12','txcol':'T1-transcript&T2-exon'}]}
Everything observable is returned; the comparison happens in harness/props/c14.py.
"""
import os, io, sys, argparse, logging
from pathlib import Path

sys.path.insert(0, os.path.dirname(os.path.dirname(os.path.dirname(os.path.abspath(__file__)))))
from harness.lib import gen_reference as G   # only write_world (file rendering) is used here

from moPepGen import cli
from moPepGen.cli import common
from moPepGen.parser import VEPParser, REDItoolsParser

logging.disable(logging.CRITICAL)
_WD = None
_N = [0]

def init(workdir):
    global _WD
    _WD = workdir

def exc_class(e):
    return {'__exc__': type(e).__name__, 'msg': str(e)[:200]}

def vep_line(r):
    return '\t'.join([r.get('uv', 'var'), r['loc'], r['allele'], r['gene'], r['tx'], 'Transcript',
                      r.get('csq', 'missense_variant'), '1', '1', '1', r.get('aa', 'A/B'), r.get('codons', 'aaa/bbb'),
                      '-', 'IMPACT=LOW'])

def rec_tuple(v):
    return {'gene': v.location.seqname, 'start': int(v.location.start), 'end': int(v.location.end),
            'ref': str(v.ref), 'alt': str(v.alt), 'type': v.type, 'id': v.id,
            'attrs': {k: str(x) for k, x in v.attrs.items()}, 'gvf': v.to_string()}

def read_gvf(path):
    if not os.path.exists(path):
        return None
    out = []
    for line in open(path):
        if line.startswith('#'):
            continue
        f = line.rstrip('\n').split('\t')
        info = dict(kv.split('=', 1) for kv in f[7].split(';') if '=' in kv)
        out.append({'gene': f[0], 'pos': int(f[1]), 'id': f[2], 'ref': f[3], 'alt': f[4], 'info': info})
    return out

def redi_line(r):
    return '\t'.join([r['chrom'], str(r['pos']), r['ref'], str(r.get('strand', 0)), str(r.get('cov', sum(r['counts']))),
                      '40.58', '[' + ', '.join(str(x) for x in r['counts']) + ']', r['subs'], '%.2f' % r.get('freq', 0.5),
                      r['gcov'], '20', '-', '-', '-', 'transcript', 'G', r['txcol']])

def handle(c):
    _N[0] += 1
    d = os.path.join(_WD, 'c%d' % _N[0])
    os.makedirs(d)
    g, a, p = G.write_world(c['world'], d)
    out = {}
    base = dict(index_dir=None, annotation_gtf=Path(a), genome_fasta=Path(g), proteome_fasta=None,
                reference_source=None, debug_level=1, quiet=True)
    if c.get('vep') is not None:
        args = argparse.Namespace(input_path=[Path(d) / 'in.tsv'], output_path=Path(d) / 'out.gvf', source='VEP',
                                  skip_failed=True, command='parseVEP', **base)
        genome, anno, *_ = common.load_references(args, load_canonical_peptides=False)
        lib = []
        for r in c['vep']:
            try:
                rec = list(VEPParser.parse(io.StringIO(vep_line(r) + '\n')))[0]
                lib.append(rec_tuple(rec.convert_to_variant_record(anno, genome)))
            except Exception as e:   # noqa
                lib.append(exc_class(e))
        out['vep_lib'] = lib
        if c.get('cli', True):
            with open(args.input_path[0], 'w') as f:
                f.write('## VEP output\n#Uploaded_variation\tLocation\tAllele\n')
                for r in c['vep']:
                    f.write(vep_line(r) + '\n')
            try:
                cli.parse_vep(args)
                out['vep_cli'] = read_gvf(str(args.output_path))
            except BaseException as e:   # noqa
                out['vep_cli'] = exc_class(e)
            # without --skip-failed a failing record must abort the run (no GVF)
            args2 = argparse.Namespace(**{**vars(args), 'skip_failed': False, 'output_path': Path(d) / 'out2.gvf'})
            try:
                cli.parse_vep(args2)
                out['vep_cli_strict'] = read_gvf(str(args2.output_path))
            except BaseException as e:   # noqa
                out['vep_cli_strict'] = exc_class(e)
    if c.get('redi') is not None:
        rd = c['redi']
        th = rd['thr']
        table = Path(d) / 'redi.tsv'
        with open(table, 'w') as f:
            f.write('Region\tPosition\tReference\tStrand\n')
            for r in rd['rows']:
                f.write(redi_line(r) + '\n')
        args = argparse.Namespace(input_path=table, output_path=Path(d) / 'redi.gvf', source='RNAEditing',
                                  command='parseREDItools', transcript_id_column=rd.get('col', 17),
                                  min_coverage_alt=th['alt'], min_frequency_alt=th['freq'],
                                  min_coverage_rna=th['rna'], min_coverage_dna=th['dna'], **base)
        _, anno, *_ = common.load_references(args, load_genome=False, load_canonical_peptides=False)
        lib = []
        subs = []
        try:
            recs = list(REDItoolsParser.parse(str(table), rd.get('col', 17) - 1))
        except Exception as e:   # noqa
            recs = None
            out['redi_parse'] = exc_class(e)
        for rec in (recs or []):
            try:
                subs.append([s[0] + s[1] for s in rec.get_valid_subs(th['alt'], th['freq'], th['rna'], th['dna'])])
            except Exception as e:   # noqa
                subs.append(exc_class(e))
            try:
                vs = rec.convert_to_variant_records(anno, th['alt'], th['freq'], th['rna'], th['dna'])
                lib.append([rec_tuple(v) for v in vs])
            except Exception as e:   # noqa
                lib.append(exc_class(e))
        out['redi_subs'] = subs
        out['redi_lib'] = lib
        if c.get('cli', True):
            try:
                cli.parse_reditools(args)
                out['redi_cli'] = read_gvf(str(args.output_path))
            except BaseException as e:   # noqa
                out['redi_cli'] = exc_class(e)
    return out
