"""Implementation side for C20: the repo's real decoyFasta entry point and DecoyFasta methods.

random.sample is wrapped (never replaced: the original is still called, so --seed keeps its
meaning) to record, for every call, the argument and the returned list."""
import argparse, os, random, sys, importlib
from pathlib import Path
from Bio.Seq import Seq
importlib.import_module('moPepGen.cli.decoy_fasta')
DF = sys.modules['moPepGen.cli.decoy_fasta']

_orig_sample = random.sample
_log = []

def _recording_sample(population, k, **kw):
    res = _orig_sample(population, k, **kw)
    _log.append([list(population), list(res)])
    return res

random.sample = _recording_sample
_WD = ['.']
_N = [0]

def init(wd):
    _WD[0] = wd

def write_fasta(path, recs, width):
    with open(path, 'wt') as fh:
        for h, s in recs:
            fh.write('>' + h + '\n')
            if width <= 0:
                fh.write(s + '\n')
            else:
                for i in range(0, len(s), width):
                    fh.write(s[i:i + width] + '\n')

def read_fasta(path):
    """independent minimal FASTA reader: header = text after '>', sequence = joined lines"""
    recs, h, parts = [], None, []
    with open(path, 'rt') as fh:
        for line in fh:
            line = line.rstrip('\n')
            if line.startswith('>'):
                if h is not None:
                    recs.append([h, ''.join(parts)])
                h, parts = line[1:], []
            else:
                parts.append(line)
    if h is not None:
        recs.append([h, ''.join(parts)])
    return recs

def mk_args(c, inp, outp):
    a = argparse.Namespace()
    a.command = 'decoyFasta'
    a.input_path = Path(inp)
    a.output_path = Path(outp)
    a.decoy_string = c['decoy_string']
    a.decoy_string_position = c['position']
    a.method = c['method']
    a.enzyme = c['enzyme']
    a.shuffle_max_attempts = c['max_attempts']
    a.non_shuffle_pattern = c['pattern']
    a.keep_peptide_nterm = 'true' if c['nterm'] else 'false'
    a.keep_peptide_cterm = 'true' if c['cterm'] else 'false'
    a.seed = c.get('seed')
    a.order = c['order']
    a.quiet = True
    return a

def run_once(c, targets, perturb=None):
    _N[0] += 1
    inp = os.path.join(_WD[0], 'in%d.fasta' % _N[0])
    outp = os.path.join(_WD[0], 'out%d.fasta' % _N[0])
    write_fasta(inp, targets, c.get('width', 0))
    del _log[:]
    # put the process-global generator into a different state before every run, so that two runs can only
    # agree through the tool's own seeding (--seed), never through an inherited ambient state
    if perturb is None:
        perturb = 7919 * _N[0] + 13
    random.seed(perturb)
    for _ in range(perturb % 5):
        random.random()
    try:
        d = DF.DecoyFasta.from_args(mk_args(c, inp, outp))
        d.main()                      # == cli.decoy_fasta(args)
        res = {'status': 'ok', 'records': read_fasta(outp), 'overlap': d._summary.n_overlap,
               'n_decoy': d._summary.n_decoy}
    except ValueError:
        res = {'status': 'ValueError'}
    res['stream'] = [r for _, r in _log]
    res['queries'] = [q for q, _ in _log]
    for p in (inp, outp):
        if os.path.exists(p):
            os.remove(p)
    return res

def handle(c):
    k = c['kind']
    if k == 'run':
        pt = c.get('perturb') or [None, None, None]
        out = {'runs': [run_once(c, ts, pt[k % len(pt)]) for k, ts in enumerate(c['orders'])]}
        if c.get('rerun'):
            out['rerun'] = run_once(c, c['orders'][0], pt[2 % len(pt)])
        return out
    d = DF.DecoyFasta(None, None, c.get('method', 'reverse'), c.get('enzyme'), c.get('nterm', True),
                      c.get('cterm', True), c.get('pattern', '').split(','), 30, None, 'DECOY_', 'prefix',
                      'juxtaposed')
    if k == 'fixed':
        return d.find_fixed_indices(Seq(c['seq']))
    if k == 'reverse':
        return str(DF.DecoyFasta.reverse_sequence(Seq(c['seq']), c['fixed']))
    if k == 'shuffle':
        del _log[:]
        s = str(DF.DecoyFasta.shuffle_sequence(Seq(c['seq']), c['fixed']))
        return {'seq': s, 'shuffled': _log[-1][1], 'query': _log[-1][0]}
    raise ValueError(k)
