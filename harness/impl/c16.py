"""Implementation side for C16: the repo's rMATS record classes and the parseRMATS CLI entry function.

case = {world, events: [{type, gene (index into world.genes), cols: [ints...], ijc, sjc}], min_ijc, min_sjc,
        suffix: 'JC'|'JCEC', quote: bool}
returns {lib: [per event: list of GVF lines | {'__exc__': cls}], cli: sorted GVF body lines | {'__exc__': cls},
         tally: [total, succeed, skipped] }
"""
import os, sys, argparse, logging, shutil
from pathlib import Path

sys.path.insert(0, os.path.join(os.path.dirname(os.path.abspath(__file__)), '..', '..'))
from harness.lib import gen_reference as G          # pure python, no repo imports

from moPepGen import cli, seqvar
from moPepGen.cli import common
from moPepGen.parser import RMATSParser

WD = None
HEAD = {
    'SE': 'ID\tGeneID\tgeneSymbol\tchr\tstrand\texonStart_0base\texonEnd\tupstreamES\tupstreamEE\tdownstreamES\tdownstreamEE',
    'A5SS': 'ID\tGeneID\tgeneSymbol\tchr\tstrand\tlongExonStart_0base\tlongExonEnd\tshortES\tshortEE\tflankingES\tflankingEE',
    'A3SS': 'ID\tGeneID\tgeneSymbol\tchr\tstrand\tlongExonStart_0base\tlongExonEnd\tshortES\tshortEE\tflankingES\tflankingEE',
    'MXE': 'ID\tGeneID\tgeneSymbol\tchr\tstrand\t1stExonStart_0base\t1stExonEnd\t2ndExonStart_0base\t2ndExonEnd\tupstreamES\tupstreamEE\tdownstreamES\tdownstreamEE',
    'RI': 'ID\tGeneID\tgeneSymbol\tchr\tstrand\triExonStart_0base\triExonEnd\tupstreamES\tupstreamEE\tdownstreamES\tdownstreamEE',
}
TAIL = '\tID\tIJC_SAMPLE_1\tSJC_SAMPLE_1\tIJC_SAMPLE_2\tSJC_SAMPLE_2\tIncFormLen\tSkipFormLen\tPValue\tFDR\tIncLevel1\tIncLevel2\tIncLevelDifference'

def init(wd):
    global WD
    WD = wd
    logging.disable(logging.CRITICAL)

def row(world, ev, i, quote):
    g = world['genes'][ev['gene']]
    q = '"' if quote else ''
    f = [str(i), q + g['id'] + q, q + g['name'] + q, g['chrom'], '+' if g['strand'] == 1 else '-']
    f += [str(x) for x in ev['cols']]
    f += [str(i), str(ev['ijc']), str(ev['sjc']), '', '', '148', '74', 'NA', 'NA', '1.0', '', 'NA']
    return '\t'.join(f)

def body(path):
    if not os.path.exists(path):
        return []
    return sorted(l.rstrip('\n') for l in open(path) if not l.startswith('#'))

def handle(c):
    d = os.path.join(WD, 'c')
    shutil.rmtree(d, ignore_errors=True)
    os.makedirs(d)
    world = c['world']
    gfa, gtf_, _prot = G.write_world(world, d)
    args = argparse.Namespace()
    args.command = 'parseRMATS'
    args.source = 'AlternativeSplicing'
    args.index_dir = None
    args.genome_fasta = Path(gfa)
    args.annotation_gtf = Path(gtf_)
    args.proteome_fasta = None
    args.reference_source = None
    args.quiet = True
    args.debug_level = 1
    args.min_ijc = c['min_ijc']
    args.min_sjc = c['min_sjc']
    genome, anno, *_ = common.load_references(args, load_canonical_peptides=False)
    # gene_model.transcripts is a python set in the on-disk annotation: its iteration order is external
    # nondeterminism (string hashing); it is observed here and handed to the model
    out = {'lib': [], 'lib0': [], 'tx_order': {g['id']: list(anno.genes[g['id']].transcripts) for g in world['genes']}}
    # library level: one event at a time through the real reader and record class
    for i, ev in enumerate(c['events']):
        p = os.path.join(d, 'one_%s.MATS.%s.txt' % (ev['type'], c['suffix']))
        with open(p, 'w') as f:
            f.write(HEAD[ev['type']] + TAIL + '\n' + row(world, ev, i, c['quote']) + '\n')
        try:
            recs = []
            for rec in RMATSParser.parse(p, ev['type']):
                recs += rec.convert_to_variant_records(anno=anno, genome=genome, min_ijc=c['min_ijc'], min_sjc=c['min_sjc'])
            out['lib'].append(sorted(r.to_string() for r in recs))
        except Exception as e:   # noqa
            out['lib'].append({'__exc__': type(e).__name__, 'msg': str(e)[:200]})
        # the same row without read-count filtering (thresholds -1): maps every CLI line back to its row(s)
        try:
            recs = []
            for rec in RMATSParser.parse(p, ev['type']):
                recs += rec.convert_to_variant_records(anno=anno, genome=genome, min_ijc=-1, min_sjc=-1)
            out['lib0'].append(sorted(r.to_string() for r in recs))
        except Exception as e:   # noqa
            out['lib0'].append({'__exc__': type(e).__name__})
    # CLI level
    names = {'SE': 'skipped_exon', 'A5SS': 'alternative_5_splicing', 'A3SS': 'alternative_3_splicing',
             'MXE': 'mutually_exclusive_exons', 'RI': 'retained_intron'}
    for t, dest in names.items():
        evs = [(i, ev) for i, ev in enumerate(c['events']) if ev['type'] == t]
        if not evs:
            setattr(args, dest, None)
            continue
        p = os.path.join(d, 'all_%s.MATS.%s.txt' % (t, c['suffix']))
        with open(p, 'w') as f:
            f.write(HEAD[t] + TAIL + '\n')
            for i, ev in evs:
                f.write(row(world, ev, i, c['quote']) + '\n')
        setattr(args, dest, Path(p))
    args.output_path = Path(os.path.join(d, 'out.gvf'))
    try:
        cli.parse_rmats(args)
        out['cli'] = body(str(args.output_path))
    except Exception as e:  # noqa
        out['cli'] = {'__exc__': type(e).__name__, 'msg': str(e)[:200]}
    if c.get('argv'):
        # the same run through the real argument parser, every option on the command line
        import _argv_route as AR
        flags = {'SE': '--se', 'A5SS': '--a5ss', 'A3SS': '--a3ss', 'MXE': '--mxe', 'RI': '--ri'}
        out2 = os.path.join(d, 'out_argv.gvf')
        ref = AR.reference_args(c, gfa, gtf_, _prot, d)
        if isinstance(ref, dict):
            out['cli_argv'] = ref
        else:
            argv = ['parseRMATS']
            for t, dest in names.items():
                if getattr(args, dest) is not None:
                    argv += [flags[t], str(getattr(args, dest))]
            argv += ['--min-ijc', str(c['min_ijc']), '--min-sjc', str(c['min_sjc']), '-o', out2, '--source', 'AlternativeSplicing',
                     '--debug-level', 'INFO', '--quiet'] + ref
            out['cli_argv'] = AR.run(argv, out2)
    return out
