"""Implementation side for C08: the real CLI function call_novel_orf_peptide(args), with the
Namespace built by the real argparse sub-parser (add_subparser_call_novel_orf)."""
import os, sys, argparse, shutil, logging
sys.path.insert(0, os.path.join(os.path.dirname(os.path.dirname(os.path.abspath(__file__))), 'lib'))
import gen_reference as G
from moPepGen.cli import call_novel_orf as CNO

_WD = None
_N = [0]

def init(wd):
    global _WD
    _WD = wd
    logging.disable(logging.CRITICAL)

def _parser():
    ap = argparse.ArgumentParser(prog='moPepGen')
    sub = ap.add_subparsers(dest='command')
    CNO.add_subparser_call_novel_orf(sub)
    return ap

def read_fasta(path):
    out = []
    if not os.path.exists(path):
        return None
    h, s = None, []
    for line in open(path):
        line = line.rstrip('\n')
        if line.startswith('>'):
            if h is not None:
                out.append([h, ''.join(s)])
            h, s = line[1:], []
        else:
            s.append(line)
    if h is not None:
        out.append([h, ''.join(s)])
    return out

def apply_genome_case(path, spec):
    """rewrite the genome FASTA with lower-case (soft-masked) stretches: spec = {'all': bool, 'masks': {chrom: [[s,e],..]}}"""
    if not spec:
        return
    recs = read_fasta(path)
    with open(path, 'w') as f:
        for h, s in recs:
            name = h.split()[0]
            if spec.get('all'):
                s = s.lower()
            else:
                s = list(s)
                for a, b in spec.get('masks', {}).get(name, []):
                    s[a:b] = [x.lower() for x in s[a:b]]
                s = ''.join(s)
            f.write('>%s\n' % h)
            for i in range(0, len(s), 60):
                f.write(s[i:i + 60] + '\n')

def handle(c):
    _N[0] += 1
    d = os.path.join(_WD or '.', 'c%d' % _N[0])
    os.makedirs(d, exist_ok=True)
    try:
        g, a, p = G.write_world(c['world'], d)
        apply_genome_case(g, c.get('genome_case'))
        o = c['opts']
        argv = ['callNovelORF', '-g', g, '-a', a, '-p', p, '-o', os.path.join(d, 'out.fasta'),
                '--output-orf', os.path.join(d, 'orf.fasta'),
                '-c', o['rule'], '-m', str(o['k']), '-w', repr(o['min_mw']), '-l', str(o['min_len']),
                '-x', str(o['max_len']), '--min-tx-length', str(o['min_tx_length']),
                '--orf-assignment', o['orf_assignment']]
        if o.get('exc') not in (None,):
            argv += ['--cleavage-exception', o['exc']]
        if o.get('coding_novel_orf'):
            argv.append('--coding-novel-orf')
        if o.get('w2f'):
            argv.append('--w2f-reassignment')
        for key, fn in (('inclusion', 'incl.txt'), ('exclusion', 'excl.txt')):
            if o.get(key) is not None:
                path = os.path.join(d, fn)
                with open(path, 'w') as f:
                    f.write(''.join(x + '\n' for x in o[key]))
                argv += ['--%s-biotypes' % key, path]
        args = _parser().parse_args(argv)
        if o.get('exc') is None:
            # no CLI spelling means "no exception" for trypsin; the Namespace attribute is set directly
            args.cleavage_exception = None
        args.func(args)
        return {'pep': read_fasta(os.path.join(d, 'out.fasta')), 'orf': read_fasta(os.path.join(d, 'orf.fasta'))}
    finally:
        shutil.rmtree(d, ignore_errors=True)
