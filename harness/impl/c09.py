"""Implementation side for C09: the real CLI function call_alt_translation(args), with the
Namespace built by the real argparse sub-parser (add_subparser_call_alt_translation)."""
import os, sys, argparse, shutil, logging
sys.path.insert(0, os.path.join(os.path.dirname(os.path.dirname(os.path.abspath(__file__))), 'lib'))
import gen_reference as G
import importlib
import moPepGen.cli  # noqa
CAT = importlib.import_module('moPepGen.cli.call_alt_translation')   # the module (cli/__init__ re-exports the function under the same name)

_WD = None
_N = [0]

def init(wd):
    global _WD
    _WD = wd
    logging.disable(logging.CRITICAL)

def _parser():
    ap = argparse.ArgumentParser(prog='moPepGen')
    sub = ap.add_subparsers(dest='command')
    CAT.add_subparser_call_alt_translation(sub)
    return ap

def read_fasta(path):
    out = []
    if not os.path.exists(path):
        return None
    h, s = None, []
    for line in open(path):
        line = line.rstrip('\n')
        if line.startswith('>'):
            if h is not None:
                out.append([h, ''.join(s)])
            h, s = line[1:], []
        else:
            s.append(line)
    if h is not None:
        out.append([h, ''.join(s)])
    return out

class _StubSeq:
    def __init__(self, s): self.seq = s
class _StubNode:
    """stand-in for a PVGNode: translational_modification only measures / truncates it to build the
    (ignored here) peptide segments; which sequences are yielded with which label is what is compared"""
    def __init__(self, s): self.seq = _StubSeq(s)
    def copy(self): return _StubNode(self.seq.seq)
    def truncate_right(self, i): self.seq.seq = self.seq.seq[:i]
    def truncate_left(self, i): self.seq.seq = self.seq.seq[i:]

def handle_tmod(c):
    from Bio.Seq import Seq
    from moPepGen.SeqFeature import FeatureLocation
    from moPepGen import params, seqvar
    from moPepGen.svgraph import VariantPeptideDict as VPD
    cp = params.CleavageParams(enzyme='trypsin', exception=None, miscleavage=2, min_mw=0.0,
                               min_length=c['min_len'], max_length=c['max_len'])
    mn = VPD.MiscleavedNodes(data=[], cleavage_params=cp, orfs=[], tx_id='ENST0001.1', gene_id=None)
    mn.create_peptide_segments = lambda nodes: []
    secs = []
    for u in c['secs']:
        var = seqvar.VariantRecord(location=FeatureLocation(3 * u, 3 * u + 3, seqname='ENST0001.1'), ref='TGA', alt='<SECT>',
                                   _type='SECT', _id='SECT-%d' % (u + 1), attrs={'TRANSCRIPT_ID': 'ENST0001.1'})
        secs.append(seqvar.VariantRecordWithCoordinate(variant=var, location=FeatureLocation(u, u + 1)))
    md = VPD.VariantPeptideMetadata()
    # callAltTranslation: check_variants (= check_external_variants) is False on this path
    out = []
    for seq, m in mn.translational_modification(Seq(c['seq']), md, set(), [], c['start'], secs, False, False, set(),
                                                [_StubNode(c['seq'])]):
        ev = [e for e in m.label.split('|')[1:] if e.startswith('SECT-')]
        out.append([int(ev[0][5:]) if ev else 0, str(seq)])
    return out

def apply_genome_case(path, spec):
    """rewrite the genome FASTA with lower-case (soft-masked) stretches: spec = {'all': bool, 'masks': {chrom: [[s,e],..]}}"""
    if not spec:
        return
    recs = read_fasta(path)
    with open(path, 'w') as f:
        for h, s in recs:
            name = h.split()[0]
            if spec.get('all'):
                s = s.lower()
            else:
                s = list(s)
                for a, b in spec.get('masks', {}).get(name, []):
                    s[a:b] = [x.lower() for x in s[a:b]]
                s = ''.join(s)
            f.write('>%s\n' % h)
            for i in range(0, len(s), 60):
                f.write(s[i:i + 60] + '\n')

def handle(c):
    if c.get('kind') == 'tmod':
        return handle_tmod(c)
    _N[0] += 1
    d = os.path.join(_WD or '.', 'c%d' % _N[0])
    os.makedirs(d, exist_ok=True)
    try:
        g, a, p = G.write_world(c['world'], d)
        apply_genome_case(g, c.get('genome_case'))
        o = c['opts']
        argv = ['callAltTranslation', '-g', g, '-a', a, '-p', p, '-o', os.path.join(d, 'out.fasta'),
                '-c', o['rule'], '-m', str(o['k']), '-w', repr(o['min_mw']), '-l', str(o['min_len']),
                '-x', str(o['max_len'])]
        if o.get('exc') is not None:
            argv += ['--cleavage-exception', o['exc']]
        if o.get('sect'):
            argv.append('--selenocysteine-termination')
        if o.get('w2f'):
            argv.append('--w2f-reassignment')
        args = _parser().parse_args(argv)
        if o.get('exc') is None:
            args.cleavage_exception = None
        args.func(args)
        return {'pep': read_fasta(os.path.join(d, 'out.fasta'))}
    finally:
        shutil.rmtree(d, ignore_errors=True)
