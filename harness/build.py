"""Build step shared by setup.sh and every ./check run.

  1. translators: /repo (+ installed Biopython) -> coq/Gen/*.v   (content-compared)
  2. coq_makefile + make -k (full .vo build, never -vos)
  3. extraction of every api_* definition in coq/Extract/Api_*.v, OCaml oracle build

Everything happens under a file lock so concurrent checks do not trample each other.
"""
import os, sys, re, subprocess, glob, fcntl, hashlib, time, json

ROOT = os.path.dirname(os.path.dirname(os.path.abspath(__file__)))
COQ = os.path.join(ROOT, 'coq')
OCAML = os.path.join(ROOT, 'ocaml')
GEN = os.path.join(OCAML, 'gen')
REPO = os.environ.get('VERIF_REPO', '/repo')
PY = '/venv/bin/python'
ORACLE = os.path.join(OCAML, 'oracle')

def sh(cmd, cwd=None, timeout=1800, env=None):
    p = subprocess.run(cmd, cwd=cwd, shell=isinstance(cmd, str), stdout=subprocess.PIPE,
                       stderr=subprocess.STDOUT, text=True, timeout=timeout, env=env)
    return p.returncode, p.stdout

def run_translators(log):
    """Each translator module in harness/translate exposes run(repo, gendir) -> list of changed files.
    Translators that need the repo's third-party packages run under /venv."""
    changed = []
    os.makedirs(os.path.join(COQ, 'Gen'), exist_ok=True)   # untracked: absent in a fresh checkout
    tdir = os.path.join(ROOT, 'harness', 'translate')
    for f in sorted(glob.glob(os.path.join(tdir, '*.py'))):
        name = os.path.basename(f)[:-3]
        if name.startswith('_'):
            continue
        rc, out = sh([PY, os.path.join(tdir, '_run.py'), name, REPO, os.path.join(COQ, 'Gen')])
        log.append('translate %s rc=%d %s' % (name, rc, out.strip()[-300:]))
        if rc != 0:
            changed.append(name + ':FAILED')
        elif out.strip().endswith('CHANGED'):
            changed.append(name)
    return changed

def coq_files():
    fs = []
    for d in ('Model', 'Gen', 'Proofs', 'Props', 'Extract'):
        fs += sorted(glob.glob(os.path.join(COQ, d, '*.v')))
    return [os.path.relpath(f, COQ) for f in fs]

def make_coq(log, jobs=16):
    files = coq_files()
    proj = '-Q . MoPep\n' + '\n'.join(files) + '\n'
    pj = os.path.join(COQ, '_CoqProject')
    if not os.path.exists(pj) or open(pj).read() != proj:
        open(pj, 'w').write(proj)
        sh('coq_makefile -f _CoqProject -o Makefile', cwd=COQ)
    if not os.path.exists(os.path.join(COQ, 'Makefile')):
        sh('coq_makefile -f _CoqProject -o Makefile', cwd=COQ)
    rc, out = sh('timeout 1500 make -k -j%d 2>&1' % jobs, cwd=COQ, timeout=1600)
    log.append('make rc=%d' % rc)
    if rc != 0:
        log.append(out[-3000:])
    built = {f: os.path.exists(os.path.join(COQ, f[:-2] + '.vo')) and
                os.path.getmtime(os.path.join(COQ, f[:-2] + '.vo')) >= os.path.getmtime(os.path.join(COQ, f))
             for f in files}
    return rc, out, built

def api_defs():
    defs = []
    for f in sorted(glob.glob(os.path.join(COQ, 'Extract', 'Api_*.v'))):
        mod = os.path.basename(f)[:-2]
        if not os.path.exists(f[:-2] + '.vo'):
            continue
        for m in re.finditer(r'^Definition\s+(api_\w+)', open(f).read(), re.M):
            defs.append((mod, m.group(1)))
    return defs

def build_oracle(log, force=False):
    defs = api_defs()
    os.makedirs(GEN, exist_ok=True)
    # fingerprint: all Model/Gen/Extract .vo contents + driver
    h = hashlib.sha256()
    for d in ('Model', 'Gen', 'Extract'):
        for f in sorted(glob.glob(os.path.join(COQ, d, '*.vo'))):
            h.update(open(f, 'rb').read())
    h.update(open(os.path.join(OCAML, 'driver.ml'), 'rb').read())
    h.update(repr(defs).encode())
    fp = h.hexdigest()
    fpfile = os.path.join(GEN, '.fingerprint')
    if not force and os.path.exists(ORACLE) and os.path.exists(fpfile) and open(fpfile).read() == fp:
        log.append('oracle up to date')
        return True
    for f in glob.glob(os.path.join(GEN, '*')):
        os.remove(f)
    mods = sorted(set(m for m, _ in defs))
    ex = ['From Coq Require Import ExtrOcamlBasic.', 'From Coq Require Extraction.']
    ex += ['From MoPep Require %s.' % ' '.join('Extract.' + m for m in mods)]
    ex += ['Set Extraction KeepSingleton.' if False else '']
    ex += ['Separate Extraction %s.' % ' '.join('%s.%s' % (m, d) for m, d in defs)]
    open(os.path.join(GEN, 'ExtractAll.v'), 'w').write('\n'.join(ex) + '\n')
    rc, out = sh('timeout 600 coqc -Q %s MoPep ExtractAll.v' % COQ, cwd=GEN)
    if rc != 0:
        log.append('extraction failed: ' + out[-2000:])
        return False
    tbl = ['let table : (string * (Base.coq_val -> Base.coq_val)) list = [']
    tbl += ['  ("%s", %s.%s);' % (d[4:], m, d) for m, d in defs]
    tbl += [']']
    open(os.path.join(GEN, 'table.ml'), 'w').write('\n'.join(tbl) + '\n')
    sh('cp %s %s' % (os.path.join(OCAML, 'driver.ml'), GEN))
    rc, out = sh('ocamlfind ocamldep -sort *.mli *.ml', cwd=GEN)
    order = out.split()
    rc, out = sh('ocamlfind ocamlopt -O3 -w -a -o %s %s 2>&1 || ocamlfind ocamlopt -w -a -o %s %s' %
                 (ORACLE, ' '.join(order), ORACLE, ' '.join(order)), cwd=GEN)
    if rc != 0 or not os.path.exists(ORACLE):
        log.append('ocaml build failed: ' + out[-2000:])
        return False
    open(fpfile, 'w').write(fp)
    log.append('oracle rebuilt (%d apis)' % len(defs))
    return True

def build(verbose=False):
    """returns dict(ok, translators_changed, built, log)"""
    os.makedirs(os.path.join(ROOT, '.work'), exist_ok=True)
    lock = open(os.path.join(ROOT, '.work', 'build.lock'), 'w')
    fcntl.flock(lock, fcntl.LOCK_EX)
    log = []
    t0 = time.time()
    try:
        changed = run_translators(log)
        rc, out, built = make_coq(log)
        ok_oracle = build_oracle(log)
    finally:
        fcntl.flock(lock, fcntl.LOCK_UN)
    res = dict(make_rc=rc, make_out=out[-20000:], translators_changed=changed, built=built, oracle=ok_oracle, log=log,
               wall=time.time() - t0)
    if verbose:
        print('\n'.join(log))
    return res

if __name__ == '__main__':
    r = build(verbose=True)
    bad = [f for f, ok in r['built'].items() if not ok]
    print('not built:', bad)
    sys.exit(0 if (r['make_rc'] == 0 and r['oracle']) else 1)
