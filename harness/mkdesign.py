"""Assemble DESIGN.md from docs/design/*.md and docs/Cxx.md."""
import os, glob, json
ROOT = os.path.dirname(os.path.dirname(os.path.abspath(__file__)))
D = os.path.join(ROOT, 'docs', 'design')
def rd(n):
    p = os.path.join(D, n)
    return open(p).read().rstrip() + '\n\n' if os.path.exists(p) else ''
kf = json.load(open(os.path.join(ROOT, 'known_findings.json')))
import re as _re
tab = '**Repaired (one `fix:` commit each):**\n\n| property | commit | what failed |\n|---|---|---|\n'
for line in kf.get('fixed', []):
    m = _re.match(r'fixed: property=(\S+) (\S+) (.*)', line)
    if m:
        tab += '| %s | %s | %s |\n' % (m.group(1), m.group(2), m.group(3).replace('|', '\\|'))
tab += '\n**Open known findings (suppressed only when the executable signature matches):**\n\n| property | id | what | replay |\n|---|---|---|---|\n'
for f in kf.get('findings', []):
    tab += '| %s | %s | %s | %s |\n' % (f['property'], f['id'], f['what'].replace('|', '\\|')[:600], f.get('example_replay', ''))
head = rd('00_head.md').replace('@@DEFECT_TABLES@@', tab).replace('@@NFIXED@@', str(len(kf.get('fixed', [])))).replace('@@NOPEN@@', str(len(kf.get('findings', []))))
out = head + rd('20_levels.md') + rd('30_architecture.md') + rd('40_reach.md') + rd('50_deciding.md') + rd('60_policy.md')
out += '## 7. Properties (as built)\n\n' + rd('70_intro.md')
props = [json.loads(l) for l in open(os.path.join(ROOT, 'properties.jsonl'))]
order = ['C10', 'C11', 'C13', 'C12', 'C14', 'C15', 'C16', 'C17', 'C18', 'C19', 'C20', 'C06', 'C07', 'C01', 'C02', 'C03', 'C04', 'C05', 'C08', 'C09']
for pid in order:
    f = os.path.join(ROOT, 'docs', pid + '.md')
    if os.path.exists(f):
        out += open(f).read().rstrip() + '\n\n'
    else:
        t = [p for p in props if p['id'] == pid][0]['title']
        out += '### %s – %s\n\n(check not delivered yet; see MANIFEST.json not_applicable and Appendix C for the plan)\n\n' % (pid, t)
pf = os.path.join(ROOT, 'docs', 'py2coq.md')
if os.path.exists(pf):
    out += open(pf).read().rstrip() + '\n\n'
out += '---------------------------------------------------------------------------------------------------\n\n' + rd('80_trusted.md')
# seeded table
out += '## 10. Independently seeded breaking changes and which checks catch them\n\n' + rd('90_seeded_intro.md')
import collections
def _cls(fr):
    low = str(fr).lower()
    if 'missed' in low[:40]: return 'missed'
    if 'no-input' in low[:60] or 'no-failing-input' in low[:200]: return 'caught, no failing input'
    if 'only' in low[:30]: return 'caught by another property only'
    return 'caught'
_first = collections.defaultdict(collections.Counter); _final = collections.defaultdict(collections.Counter)
for d in sorted(glob.glob(os.path.join(ROOT, 'seeded', '*'))):
    m = os.path.join(d, 'meta.json')
    if not os.path.exists(m):
        continue
    j = json.load(open(m)); rnd = (int(os.path.basename(d).split('-')[1]) - 1) // 3 + 1
    _first[rnd][_cls(j.get('result_first_run', j.get('caught_by', '')))] += 1
    rf = j.get('result_final')
    _final[rnd][_cls(rf.get('result') if isinstance(rf, dict) else (rf or j.get('result_first_run', '')))] += 1
out += '| round | seeds | first run: caught / no failing input / other property only / missed | last run: caught / no failing input / other property only / missed |\n|---|---|---|---|\n'
for rnd in sorted(_first):
    f, g = _first[rnd], _final[rnd]
    ks = ['caught', 'caught, no failing input', 'caught by another property only', 'missed']
    out += '| %d | %d | %s | %s |\n' % (rnd, sum(f.values()), ' / '.join(str(f[k]) for k in ks), ' / '.join(str(g[k]) for k in ks))
out += '\n'
out += '| seed | property | change (summary) | needs | first run | after strengthening |\n|---|---|---|---|---|---|\n'
for d in sorted(glob.glob(os.path.join(ROOT, 'seeded', '*'))):
    m = os.path.join(d, 'meta.json')
    if not os.path.exists(m):
        continue
    j = json.load(open(m))
    esc = lambda s: str(s).replace('|', '\\|').replace('\n', ' ')
    fin = lambda r: ('%s (%s violation lines, %s with a failing input)%s' % (r.get('result'), r.get('violations'), r.get('with_failing_input'), ('; ' + r['note']) if r.get('note') else '')) if isinstance(r, dict) else r
    out += '| %s | %s | %s | %s | %s | %s |\n' % (os.path.basename(d), j.get('property', ''), esc(j.get('summary', ''))[:300], esc(j.get('needs', ''))[:200],
                                        esc(j.get('result_first_run', j.get('caught_by', '')))[:160], esc(fin(j.get('result_final', '')))[:200])
out += '\n' + rd('95_cost.md')
out += rd('A_semantics.md') + rd('B_absgraph.md')
out += '## Appendix C – the round-0 plan per property (for comparison with section 7)\n\n' + rd('70_plan.md').replace('## 7. Properties', '').lstrip()
out += rd('D_false_alarms.md')
open(os.path.join(ROOT, 'DESIGN.md'), 'w').write(out)
print('DESIGN.md', len(out.splitlines()), 'lines')
