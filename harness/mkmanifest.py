"""Assemble MANIFEST.json from harness/props/*.manifest.json fragments."""
import json, glob, os, sys
ROOT = os.path.dirname(os.path.dirname(os.path.abspath(__file__)))
props = [json.loads(l)['id'] for l in open(os.path.join(ROOT, 'properties.jsonl'))]
frags = {}
for f in sorted(glob.glob(os.path.join(ROOT, 'harness', 'props', '*.manifest.json'))):
    d = json.load(open(f))
    frags[d['property_id']] = d
checks = []
na = []
for p in props:
    if p in frags and not frags[p].get('not_applicable'):
        d = dict(frags[p])
        d.setdefault('quick_cmd', './check %s --tier quick' % p)
        d.setdefault('thorough_cmd', './check %s --tier thorough' % p)
        d.setdefault('evidence_file', 'evidence/%s.json' % p)
        d.setdefault('replay_cmd_template', './check %s --replay {path}' % p)
        d.setdefault('engine', 'coq+oracle')
        checks.append(d)
    else:
        na.append({'property_id': p, 'reason': frags.get(p, {}).get('reason', 'check not built yet (work in progress; see DESIGN.md)')})
base = json.load(open(os.path.join(ROOT, 'harness', 'manifest.base.json')))
base['checks'] = checks
for e in base.get('engines', []):
    e['serves_properties'] = [c['property_id'] for c in checks]
base['not_applicable'] = na
json.dump(base, open(os.path.join(ROOT, 'MANIFEST.json'), 'w'), indent=1)
print('checks:', [c['property_id'] for c in checks], 'n/a:', [x['property_id'] for x in na])
