#!/bin/bash
# Independent re-check of every property module (and everything it depends on) with coqchk; prints the axiom summary.
cd "$(dirname "$0")/../coq"
timeout 3600 coqchk -o -silent -Q . MoPep $(ls Props/*.v | sed 's#Props/\(.*\)\.v#MoPep.Props.\1#')
