"""Re-run every stored seeded change against its property's quick check (sequentially, each on a
scratch worktree of /repo with the patch applied, VERIF_REPO) and print one JSON line per seed.
usage: seed_regress.py [Cxx ...]   (run inside a /verif checkout whose framework is built)"""
import os, sys, json, glob, subprocess, re, time
ROOT = os.path.dirname(os.path.dirname(os.path.abspath(__file__)))
want = set(sys.argv[1:])
out = []
for d in sorted(glob.glob(os.path.join(ROOT, 'seeded', '*'))):
    name = os.path.basename(d)
    prop = name.split('-')[0]
    if want and prop not in want:
        continue
    wt = '/tmp/seedreg_%d_%s' % (os.getpid(), name)
    subprocess.run(['git', '-C', '/repo', 'worktree', 'add', '-q', '--detach', wt, 'HEAD'], check=False)
    r = subprocess.run(['git', '-C', wt, 'apply', os.path.join(d, 'patch.diff')], capture_output=True, text=True)
    res = {'seed': name, 'property': prop}
    if r.returncode != 0:
        res['result'] = 'patch-does-not-apply'
    else:
        t0 = time.time()
        env = dict(os.environ, VERIF_REPO=wt)
        p = subprocess.run(['./check', prop, '--tier', 'quick'], cwd=ROOT, env=env, capture_output=True, text=True)
        lines = [l for l in p.stdout.splitlines() if l.startswith('VIOLATION')]
        with_input = [l for l in lines if 'no-failing-input-found' not in l]
        res['violations'] = len(lines)
        res['with_failing_input'] = len(with_input)
        res['result'] = 'caught' if with_input else ('caught-no-input' if lines else 'MISSED')
        first = [l for l in p.stdout.splitlines() if l.startswith('#')]
        res['first'] = first[0][:200] if first else ''
        res['wall'] = round(time.time() - t0, 1)
    subprocess.run(['git', '-C', '/repo', 'worktree', 'remove', '--force', wt], check=False)
    print(json.dumps(res), flush=True)
