"""C16 correspondence: parseRMATS (record classes + CLI entry function) vs the Coq model Model/Rmats.v,
plus an independent declarative check of the property's own statement.

For every generated case (a reference world from gen_reference.gen_world + a list of rMATS events rendered
as rows of the five rMATS tables + read thresholds) the implementation side (harness/impl/c16.py) runs
  * RMATSParser.parse(file, type) -> <X>Record.convert_to_variant_records(anno, genome, min_ijc, min_sjc)
    for every event separately (library level), and
  * cli.parse_rmats(Namespace) on the five files together (CLI level, emitted GVF read back).
The oracle runs Rmats.{se,ss,mxe,ri}_convert on the same event; the records are rendered to GVF text by the
glue below and compared exactly (sorted lines; exception classes).

Declarative check (no model involved): every emitted record whose transcript is "in scope" of the event
(the transcript's exons coincide with the event's exons in one of the two forms) is applied to the
transcript sequence under the documented semantics and compared with the sequence of the alternative
isoform built from the exon list (ground truth from gen_reference).
"""
import json, copy
from harness.lib import oracle as O, impl as I, gen_reference as G

PROPERTY = 'C16'
TYPES = ['SE', 'A5SS', 'A3SS', 'MXE', 'RI']
TCODE = {t: i for i, t in enumerate(TYPES)}
IDPREFIX = {'SE': 'SE_', 'A5SS': 'A5SS_', 'A3SS': 'A5SS_', 'MXE': 'MXE_', 'RI': 'RI_'}   # A3SSRecord.create_variant_id really writes "A5SS_"
ERRS = {1: 'ValueError', 2: 'IndexError', 3: 'Unmodelled'}

# ------------------------------------------------------------------------------------------ generators
def introns(tx):
    ex = tx['exons']
    return [(ex[i][1], ex[i + 1][0]) for i in range(len(ex) - 1)]

def sub_interval(rng, a, b, margin=1, minlen=1):
    """random [s,e) strictly inside (a,b) leaving `margin` on both sides; None if impossible"""
    lo, hi = a + margin, b - margin
    if hi - lo < minlen:
        return None
    s = rng.randint(lo, hi - minlen)
    e = rng.randint(s + minlen, hi)
    return [s, e]

def gen_events_for_gene(rng, world, gi, n):
    g = world['genes'][gi]
    txs = g['transcripts']
    allex = sorted({tuple(e) for t in txs for e in t['exons']})
    evs = []
    def counts():
        return dict(ijc=rng.choice([0, 1, 1, 2, 3, 5]), sjc=rng.choice([0, 1, 1, 2, 3, 5]))
    tries = 0
    while len(evs) < n and tries < n * 6:
        tries += 1
        ty = rng.choice(TYPES)
        tx = rng.choice(txs)
        ex = tx['exons']
        ev = None
        if ty == 'SE':
            mode = rng.choice(['skip', 'skip', 'incl_novel', 'incl_novel', 'incl_iso', 'multi'])
            if mode == 'skip' and len(ex) >= 3:
                j = rng.randrange(len(ex) - 2)
                U, E, D = ex[j], ex[j + 1], ex[j + 2]
                ev = dict(cols=[E[0], E[1], U[0], U[1], D[0], D[1]], mode=mode)
            elif mode == 'multi' and len(ex) >= 4:
                i = rng.randrange(len(ex) - 3)
                j = rng.randrange(i + 3, len(ex))
                E = ex[rng.randrange(i + 1, j)]
                U, D = ex[i], ex[j]
                ev = dict(cols=[E[0], E[1], U[0], U[1], D[0], D[1]], mode=mode)
            elif mode in ('incl_novel', 'incl_iso') and len(ex) >= 2:
                j = rng.randrange(len(ex) - 1)
                U, D = ex[j], ex[j + 1]
                E = None
                if mode == 'incl_iso':
                    c = [e for e in allex if U[1] < e[0] and e[1] < D[0]]
                    if c:
                        E = list(rng.choice(c))
                if E is None:
                    E = sub_interval(rng, U[1], D[0], margin=rng.choice([0, 1, 1, 2]))
                if E:
                    ev = dict(cols=[E[0], E[1], U[0], U[1], D[0], D[1]], mode=mode)
        elif ty in ('A5SS', 'A3SS') and len(ex) >= 2:
            j = rng.randrange(len(ex) - 1)
            A, B = ex[j], ex[j + 1]
            # which genomic side is alternative: exon end of A (flank B) or exon start of B (flank A)
            at_end = (ty == 'A5SS') == (g['strand'] == 1)
            mode = rng.choice(['shorter', 'longer', 'iso'])
            if at_end:
                cand = None
                if mode == 'iso':
                    c = [e[1] for e in allex if e[1] != A[1] and A[0] < e[1] < B[0]]
                    cand = rng.choice(c) if c else None
                if cand is None:
                    cand = rng.randint(A[0] + 1, A[1] - 1) if (mode == 'shorter' and A[1] - A[0] >= 2) else \
                        (rng.randint(A[1] + 1, B[0] - 1) if B[0] - A[1] >= 2 else None)
                if cand is not None:
                    lo, hi = sorted([cand, A[1]])
                    ev = dict(cols=[A[0], hi, A[0], lo, B[0], B[1]], mode=mode)
            else:
                cand = None
                if mode == 'iso':
                    c = [e[0] for e in allex if e[0] != B[0] and A[1] < e[0] < B[1]]
                    cand = rng.choice(c) if c else None
                if cand is None:
                    cand = rng.randint(B[0] + 1, B[1] - 1) if (mode == 'shorter' and B[1] - B[0] >= 2) else \
                        (rng.randint(A[1] + 1, B[0] - 1) if B[0] - A[1] >= 2 else None)
                if cand is not None:
                    lo, hi = sorted([cand, B[0]])
                    ev = dict(cols=[lo, B[1], hi, B[1], A[0], A[1]], mode=mode)
        elif ty == 'MXE' and len(ex) >= 3:
            j = rng.randrange(len(ex) - 2)
            U, X, D = ex[j], ex[j + 1], ex[j + 2]
            mode = rng.choice(['novel', 'novel', 'iso', 'both'])
            Y = None
            if mode == 'both' and len(ex) >= 4 and j + 3 < len(ex):
                Y, D = ex[j + 2], ex[j + 3]
            if Y is None and mode == 'iso':
                c = [e for e in allex if (U[1] < e[0] and e[1] < X[0]) or (X[1] < e[0] and e[1] < D[0])]
                if c:
                    Y = list(rng.choice(c))
            if Y is None:
                side = rng.choice([0, 1])
                Y = sub_interval(rng, U[1], X[0]) if side == 0 else sub_interval(rng, X[1], D[0])
            if Y:
                f1, f2 = sorted([list(X), list(Y)])
                ev = dict(cols=[f1[0], f1[1], f2[0], f2[1], U[0], U[1], D[0], D[1]], mode=mode)
        elif ty == 'RI':
            mode = rng.choice(['spliced', 'retained'])
            if mode == 'spliced' and len(ex) >= 2:
                j = rng.randrange(len(ex) - 1)
                A, B = ex[j], ex[j + 1]
                ev = dict(cols=[A[0], B[1], A[0], A[1], B[0], B[1]], mode=mode)
            elif mode == 'retained':
                X = rng.choice(ex)
                iv = sub_interval(rng, X[0], X[1], margin=rng.choice([1, 1, 2]))
                if iv:
                    ev = dict(cols=[X[0], X[1], X[0], iv[0], iv[1], X[1]], mode=mode)
        if rng.random() < 0.18 and len(ex) >= 3 and ty in ('SE', 'A5SS', 'A3SS'):
            # one or more exons of the transcript lie INSIDE the new junction (interjacent exons), the far end of the
            # junction matched or falling inside an exon
            i = rng.randrange(len(ex) - 2)
            j = rng.randrange(i + 2, len(ex))
            A, B = ex[i], ex[j]
            if ty == 'SE':
                E = ex[rng.randrange(i + 1, j)]
                U, D = list(A), list(B)
                k = rng.choice(['both', 'down_inside', 'up_inside'])
                if k == 'down_inside' and B[1] - B[0] >= 3:
                    D = [rng.randint(B[0] + 1, B[1] - 2), B[1]]
                elif k == 'up_inside' and A[1] - A[0] >= 3:
                    U = [A[0], rng.randint(A[0] + 2, A[1] - 1)]
                ev = dict(cols=[E[0], E[1], U[0], U[1], D[0], D[1]], mode='interjacent')
            else:
                at_end = (ty == 'A5SS') == (g['strand'] == 1)
                if at_end and A[1] - A[0] >= 3:
                    x = rng.randint(A[0] + 1, A[1] - 1)
                    ev = dict(cols=[A[0], A[1], A[0], x, B[0], B[1]], mode='interjacent')
                elif not at_end and B[1] - B[0] >= 3:
                    x = rng.randint(B[0] + 1, B[1] - 1)
                    ev = dict(cols=[B[0], B[1], x, B[1], A[0], A[1]], mode='interjacent')
        if ev is None:
            continue
        ev.update(type=ty, gene=gi)
        ev.update(counts())
        evs.append(ev)
    return evs

def soup(rng, world, gi):
    """boundary soup: event coordinates drawn from the gene's own exon boundaries in arbitrary (sorted) combination;
    reaches the cascade's partial-match arms (spanning exons, substitutions, several interjacent exons)"""
    g = world['genes'][gi]
    pts = sorted({p for t in g['transcripts'] for e in t['exons'] for p in e})
    ty = rng.choice(TYPES)
    n = 8 if ty == 'MXE' else 6
    if len(pts) < 4:
        return None
    c = sorted(rng.choice(pts) + rng.choice([0, 0, 0, 0, 1, -1]) for _ in range(n))
    for i in range(0, n, 2):
        if c[i] >= c[i + 1]:
            c[i + 1] = c[i] + rng.randint(1, 4)
    if ty == 'SE':
        cols = [c[2], c[3], c[0], c[1], c[4], c[5]]
    elif ty in ('A5SS', 'A3SS'):
        at_end = (ty == 'A5SS') == (g['strand'] == 1)
        cols = [c[0], c[3], c[0], c[1], c[4], c[5]] if at_end else [c[2], c[5], c[4], c[5], c[0], c[1]]
    elif ty == 'MXE':
        cols = [c[2], c[3], c[4], c[5], c[0], c[1], c[6], c[7]]
    else:
        cols = [c[0], c[5], c[0], c[1], c[4], c[5]]
    return dict(type=ty, gene=gi, cols=cols, mode='soup', ijc=rng.choice([0, 1, 2, 3]), sjc=rng.choice([0, 1, 2, 3]))

def perturb(rng, world, ev):
    """near-miss stream: move one coordinate by a few bases (exons no longer coincide exactly)"""
    ev = copy.deepcopy(ev)
    k = rng.randrange(len(ev['cols']))
    ev['cols'][k] += rng.choice([-3, -2, -1, 1, 2, 3])
    ev['mode'] = 'perturbed'
    return ev

def malform(rng, world, ev):
    """malformed stream: a coordinate outside the gene / chromosome"""
    ev = copy.deepcopy(ev)
    g = world['genes'][ev['gene']]
    k = rng.randrange(len(ev['cols']))
    ev['cols'][k] = rng.choice([g['start'] - rng.randint(1, 5), g['end'] + rng.randint(0, 5), g['start'], g['end'] - 1])
    ev['mode'] = 'malformed'
    return ev

def add_partial_retaining_isoform(rng, world, gi):
    """adds to the gene an isoform that retains one intron of an existing isoform but covers the flanking exons only
    partially (alternative TSS/TES inside the upstream / downstream exon), and returns RI events on that intron"""
    g = world['genes'][gi]
    cands = [(t, j) for t in g['transcripts'] for j in range(len(t['exons']) - 1)]
    if not cands:
        return []
    t, j = rng.choice(cands)
    A, B = t['exons'][j], t['exons'][j + 1]
    k = rng.choice([0, 1, 2, max(0, A[1] - A[0] - 1)])          # start inside the upstream exon
    m = rng.choice([0, 1, 2, max(0, B[1] - B[0] - 1), max(0, B[1] - B[0] - 2)])   # end inside the downstream exon
    k = min(k, A[1] - A[0] - 1)
    m = min(m, B[1] - B[0] - 1)
    if k == 0 and m == 0:
        k = 1 if A[1] - A[0] > 1 else 0
    exons = ([list(e) for e in t['exons'][:j]] if k == 0 else []) + [[A[0] + k, B[1] - m]] + \
            ([list(e) for e in t['exons'][j + 2:]] if m == 0 else [])
    if any(tuple(map(tuple, x['exons'])) == tuple(map(tuple, exons)) for x in g['transcripts']):
        return []
    num = int(g['id'][4:15]) * 10 + 8
    if any(x['id'].startswith('ENST%011d.' % num) for x in g['transcripts']):
        return []
    g['transcripts'].append({'id': 'ENST%011d.%d' % (num, rng.randint(1, 9)), 'protein_id': None, 'exons': exons, 'cds': None,
                             'frame': 0, 'tags': [], 'sec': [], 'utr': False, 'biotype': 'retained_intron'})
    out = []
    for _ in range(rng.choice([1, 2])):
        out.append(dict(type='RI', gene=gi, cols=[A[0], B[1], A[0], A[1], B[0], B[1]], mode='partial_retained',
                        ijc=rng.choice([1, 2, 3, 5]), sjc=rng.choice([0, 1, 2, 3])))
    return out

def gen_case(rng, small=True):
    while True:
        w = G.gen_world(rng, n_chrom=1, max_genes=3, small=small, multi_iso_p=0.85)
        if any(len(t['exons']) >= 2 for g in w['genes'] for t in g['transcripts']):
            break
    evs = []
    for gi, g in enumerate(w['genes']):
        if max(len(t['exons']) for t in g['transcripts']) < 2:
            continue
        if rng.random() < 0.35:
            evs += add_partial_retaining_isoform(rng, w, gi)
        evs += gen_events_for_gene(rng, w, gi, rng.randint(3, 8))
    extra = []
    for gi, g in enumerate(w['genes']):
        for _ in range(rng.randint(0, 3)):
            e = soup(rng, w, gi)
            if e:
                extra.append(e)
    for ev in list(evs):
        r = rng.random()
        if r < 0.15:
            extra.append(perturb(rng, w, ev))
        elif r < 0.2:
            extra.append(malform(rng, w, ev))
    evs += extra
    rng.shuffle(evs)
    mi, ms = rng.choice([0, 1, 1, 1, 2, 3]), rng.choice([0, 1, 1, 1, 2, 3])
    if rng.random() < 0.5:
        # --min-ijc != --min-sjc with the read counts of most rows strictly between the two
        lo, hi = rng.choice([(0, 2), (1, 3), (1, 5), (2, 6)])
        mi, ms = (lo, hi) if rng.random() < 0.5 else (hi, lo)
        for ev in evs:
            if rng.random() < 0.7:
                ev['ijc'] = rng.randint(lo, hi - 1) if rng.random() < 0.8 else hi
                ev['sjc'] = rng.randint(lo, hi - 1) if rng.random() < 0.8 else hi
    return dict(world=w, events=evs, min_ijc=mi, min_sjc=ms, suffix=rng.choice(['JC', 'JCEC']), quote=rng.random() < 0.3)

# ------------------------------------------------------------------------------------------ model side
def enc_gene(g):
    return [g['strand'], g['start'], g['end'],
            [[t['exons'][0][0], t['exons'][-1][1], [list(e) for e in t['exons']]] for t in g['transcripts']]]

def oracle_reqs(case):
    w = case['world']
    reqs = []
    gs_cache = {}
    for ev in case['events']:
        g = w['genes'][ev['gene']]
        if ev['gene'] not in gs_cache:
            gs_cache[ev['gene']] = (enc_gene(g), G.gene_seq(w, g))
        eg, gseq = gs_cache[ev['gene']]
        reqs.append(('c16_convert', [eg, gseq, TCODE[ev['type']], ev['cols'],
                                      [ev['ijc'], ev['sjc'], case['min_ijc'], case['min_sjc']]]))
    return reqs

def render(world, ev, idnums, r):
    """model record -> GVF line exactly as VariantRecord.to_string would print it"""
    g = world['genes'][ev['gene']]
    kind, src, txi, start, end, ref, S, E, DS, DE, gp1, gp2 = r
    tid = g['transcripts'][txi]['id']
    vid = IDPREFIX[ev['type']] + '-'.join(str(x) for x in idnums)
    alt = ['<DEL>', '<INS>', '<SUB>'][kind]
    gpos = '%s:%d:%d' % (g['chrom'], gp1, gp2) if src == 0 else '%s:%d-%d' % (g['chrom'], gp1, gp2)
    if kind == 0:
        info = ['TRANSCRIPT_ID=' + tid, 'START=%d' % (S + 1), 'END=%d' % E]
    elif kind == 2:
        info = ['TRANSCRIPT_ID=' + tid, 'START=%d' % (S + 1), 'END=%d' % E, 'DONOR_START=%d' % (DS + 1), 'DONOR_END=%d' % DE,
                'DONOR_GENE_ID=' + g['id']]
    elif src == 0:
        info = ['TRANSCRIPT_ID=' + tid, 'DONOR_GENE_ID=' + g['id'], 'DONOR_START=%d' % (DS + 1), 'DONOR_END=%d' % DE]
    else:
        info = ['TRANSCRIPT_ID=' + tid, 'DONOR_START=%d' % (DS + 1), 'DONOR_END=%d' % DE, 'DONOR_GENE_ID=' + g['id'], 'COORDINATE=gene']
    info += ['GENE_SYMBOL=' + g['name'], 'GENOMIC_POSITION=' + gpos]
    return '\t'.join([g['id'], str(start + 1), vid, chr(ref), alt, '.', '.', ';'.join(info)])

def model_lib(case, replies):
    out = []
    for ev, m in zip(case['events'], replies):
        code, idnums, recs = m
        if code != 0:
            out.append({'__exc__': ERRS[code]})
        else:
            out.append(sorted(render(case['world'], ev, idnums, r) for r in recs))
    return out

def model_cli(case, replies):
    """parse_rmats: files in the order SE, A5SS, A3SS, MXE, RI; per transcript a set (first inserted wins)"""
    w = case['world']
    ordered = []
    for t in TYPES:
        for ev, m in zip(case['events'], replies):
            if ev['type'] != t:
                continue
            code, idnums, recs = m
            if code != 0:
                return {'__exc__': ERRS[code]}
            for r in recs:
                ordered.append((ev, idnums, r))
    # set semantics per transcript id (gene index joins the key because transcript ids are global)
    keyed = {}
    kept = []
    for gi in sorted({ev['gene'] for ev, _, _ in ordered}):
        items = [(ev, idn, r) for ev, idn, r in ordered if ev['gene'] == gi]
        keep = O.call('c16_dedup_tx', [r for _, _, r in items])
        # dedup_first keeps the first occurrence: walk both lists
        it = iter(items)
        for k in keep:
            for ev, idn, r in it:
                if r == k:
                    kept.append((ev, idn, r))
                    break
    return sorted(render(w, ev, idn, r) for ev, idn, r in kept)

# ------------------------------------------------------------------------------------------ declarative side (python only)
def parse_line(line):
    f = line.split('\t')
    info = dict(kv.split('=', 1) for kv in f[7].split(';'))
    return dict(gene=f[0], pos=int(f[1]) - 1, id=f[2], ref=f[3], alt=f[4], info=info, tid=info['TRANSCRIPT_ID'])

def py_apply(world, g, tx, rec):
    """documented semantics, written directly on python strings; None when a coordinate is not exonic"""
    t = G.tx_seq(world, g, tx)
    gseq = G.gene_seq(world, g)
    def conv(i):
        if not 0 <= i < g['end'] - g['start']:
            return None
        return G.g2tx(g, tx, G.gene2g(g, i))
    info = rec['info']
    if rec['alt'] == '<DEL>':
        a, b = conv(int(info['START']) - 1), conv(int(info['END']) - 1)
        if a is None or b is None or a > b:
            return None
        return t[:a] + t[b + 1:]
    ds, de = int(info['DONOR_START']) - 1, int(info['DONOR_END'])
    if rec['alt'] == '<INS>':
        p = conv(rec['pos'])
        if p is None:
            return None
        return t[:p + 1] + gseq[ds:de] + t[p + 1:]
    if rec['alt'] == '<SUB>':
        a, b = conv(int(info['START']) - 1), conv(int(info['END']) - 1)
        if a is None or b is None or a > b:
            return None
        return t[:a] + gseq[ds:de] + t[b + 1:]
    return None

def find_consecutive(ex, pat):
    n = len(pat)
    for i in range(len(ex) - n + 1):
        if [list(e) for e in ex[i:i + n]] == [list(p) for p in pat]:
            return i
    return -1

def py_alt(g, ex, ev):
    """(alternative form of a transcript (exon list) under the event, which form that is: 'inc' needs IJC,
    'skip' needs SJC), or None when the transcript's exons do not coincide with the event's exons in either form.
    rMATS: inclusion form = exon included / long splice site / 1st exclusive exon / intron retained."""
    c = ev['cols']
    ex = [list(e) for e in ex]
    ty = ev['type']
    if ty == 'SE':
        E, U, D = c[0:2], c[2:4], c[4:6]
        if not (U[0] < U[1] < E[0] < E[1] < D[0] < D[1]):
            return None
        i = find_consecutive(ex, [U, E, D])
        if i >= 0:
            return ex[:i + 1] + ex[i + 2:], 'skip'
        i = find_consecutive(ex, [U, D])
        if i >= 0:
            return ex[:i + 1] + [E] + ex[i + 1:], 'inc'
        return None
    if ty in ('A5SS', 'A3SS'):
        L, S, F = c[0:2], c[2:4], c[4:6]
        at_end = (ty == 'A5SS') == (g['strand'] == 1)
        if at_end:
            if not (L[0] == S[0] and S[0] < S[1] < L[1] < F[0] < F[1]):
                return None
            for i in range(len(ex) - 1):
                a, b = ex[i], ex[i + 1]
                if b[0] == F[0] and a[1] in (L[1], S[1]):
                    new = S[1] if a[1] == L[1] else L[1]
                    if a[0] < new:
                        return ex[:i] + [[a[0], new]] + ex[i + 1:], ('skip' if a[1] == L[1] else 'inc')
            return None
        if not (L[1] == S[1] and F[0] < F[1] < L[0] < S[0] < S[1]):
            return None
        for i in range(len(ex) - 1):
            a, b = ex[i], ex[i + 1]
            if a[1] == F[1] and b[0] in (L[0], S[0]):
                new = S[0] if b[0] == L[0] else L[0]
                if new < b[1]:
                    return ex[:i + 1] + [[new, b[1]]] + ex[i + 2:], ('skip' if b[0] == L[0] else 'inc')
        return None
    if ty == 'MXE':
        F1, F2, U, D = c[0:2], c[2:4], c[4:6], c[6:8]
        if not (U[0] < U[1] < F1[0] < F1[1] < F2[0] < F2[1] < D[0] < D[1]):
            return None
        i = find_consecutive(ex, [U, F1, D])
        if i >= 0:
            return ex[:i + 1] + [F2] + ex[i + 2:], 'skip'
        i = find_consecutive(ex, [U, F2, D])
        if i >= 0:
            return ex[:i + 1] + [F1] + ex[i + 2:], 'inc'
        return None
    if ty == 'RI':
        ue, ds = c[3], c[4]
        if not ue < ds:
            return None
        for i, a in enumerate(ex):
            if a[0] < ue and ds < a[1]:
                return ex[:i] + [[a[0], ue], [ds, a[1]]] + ex[i + 1:], 'skip'
            if i + 1 < len(ex) and a[1] == ue and ex[i + 1][0] == ds:
                return ex[:i] + [[a[0], ex[i + 1][1]]] + ex[i + 2:], 'inc'
        return None

def impose_junction(ex, ue, ds):
    """the transcript with the splice junction ue -> ds imposed: the exon holding ue is cut at ue, the exon holding ds
    starts at ds, every exon in between is dropped.  None when ue / ds are not exonic in that order."""
    ex = [list(e) for e in ex]
    ia = [i for i, e in enumerate(ex) if e[0] < ue <= e[1]]
    ib = [i for i, e in enumerate(ex) if e[0] <= ds < e[1]]
    if not ia or not ib or ia[0] >= ib[0] or ue >= ds:
        return None
    a, b = ex[ia[0]], ex[ib[0]]
    alt = ex[:ia[0]] + [[a[0], ue], [ds, b[1]]] + ex[ib[0] + 1:]
    return None if alt == ex else alt

def event_junctions(g, ev):
    """(upstream end, downstream start, form whose read count supports it) of every junction the event tests"""
    c = ev['cols']
    ty = ev['type']
    if ty == 'SE':
        return [(c[3], c[4], 'skip'), (c[3], c[0], 'inc'), (c[1], c[4], 'inc')]
    if ty in ('A5SS', 'A3SS'):
        at_end = (ty == 'A5SS') == (g['strand'] == 1)
        return [(c[1], c[4], 'inc'), (c[3], c[4], 'skip')] if at_end else [(c[5], c[0], 'inc'), (c[5], c[2], 'skip')]
    if ty == 'MXE':
        return [(c[1], c[6], 'inc'), (c[5], c[2], 'skip')]
    return []

def py_alt_ext(g, ex, ev):
    """extended scope for <DEL> records: the transcript does not carry the event's exons next to each other (exons of
    the transcript lie inside the new junction, or the far end of the junction falls inside an exon), but a junction of
    the event can be imposed on it.  Candidates: one alternative per imposable junction."""
    out = []
    for ue, ds, form in event_junctions(g, ev):
        alt = impose_junction(ex, ue, ds)
        if alt is not None:
            out.append((alt, form))
    return out

def form_junctions(g, ev, form):
    """junctions (exon end, next exon start) of the form a record creates, and the junction(s) whose novelty alone
    makes the form certainly unannotated AND makes the code consider the event (MUST side of the converse)"""
    c = ev['cols']
    ty = ev['type']
    if ty == 'SE':
        E, U, D = c[0:2], c[2:4], c[4:6]
        J = [(U[1], D[0])] if form == 'skip' else [(U[1], E[0]), (E[1], D[0])]
        return J, J
    if ty in ('A5SS', 'A3SS'):
        L, S, F = c[0:2], c[2:4], c[4:6]
        at_end = (ty == 'A5SS') == (g['strand'] == 1)
        X = S if form == 'skip' else L
        J = [(X[1], F[0])] if at_end else [(F[1], X[0])]
        return J, J
    if ty == 'MXE':
        F1, F2, U, D = c[0:2], c[2:4], c[4:6], c[6:8]
        if form == 'skip':      # the 2nd exon is created; MXERecord looks at U->2nd only
            return [(U[1], F2[0]), (F2[1], D[0])], [(U[1], F2[0])]
        return [(U[1], F1[0]), (F1[1], D[0])], [(F1[1], D[0])]
    if ty == 'RI':
        return ([(c[3], c[4])], [(c[3], c[4])]) if form == 'skip' else ('retained', 'retained')

def iso_junction_sets(g):
    return [{(t['exons'][i][1], t['exons'][i + 1][0]) for i in range(len(t['exons']) - 1)} for t in g['transcripts']]

def retaining_isoform(g, ue, ds):
    """ground truth: some annotated exon covers the intron with exonic sequence on both sides"""
    return any(e[0] < ue and ds < e[1] for t in g['transcripts'] for e in t['exons'])

def form_annotated(g, ev, form):
    """some annotated isoform of the gene already has the created form at all its junctions"""
    J, _ = form_junctions(g, ev, form)
    if J == 'retained':
        return retaining_isoform(g, ev['cols'][3], ev['cols'][4])
    return any(all(j in js for j in J) for js in iso_junction_sets(g))

def form_surely_novel(g, ev, form):
    _, M = form_junctions(g, ev, form)
    if M == 'retained':
        return not retaining_isoform(g, ev['cols'][3], ev['cols'][4])
    allj = set().union(*iso_junction_sets(g)) if g['transcripts'] else set()
    return any(j not in allj for j in M)

def support_ok(ev, form, min_ijc, min_sjc):
    return ev['ijc'] >= min_ijc if form == 'inc' else ev['sjc'] >= min_sjc

EXT_COUNT = [0]      # records judged in the extended (junction-imposition) scope, for the evidence file

def declarative(case, ev, lines, thresholds=True):
    """evaluate the three clauses of the statement on the lines emitted for one event:
       reproduces-the-isoform, novelty (the created form is not annotated), read support >= the form's threshold.
       Returns (n_in_scope, n_out_scope, failures, set of transcript ids that received a reproducing record)."""
    w = case['world']
    g = w['genes'][ev['gene']]
    tmap = {t['id']: t for t in g['transcripts']}
    ins = outs = 0
    fails = []
    served = set()
    ext = EXT_COUNT
    for line in lines:
        rec = parse_line(line)
        tx = tmap.get(rec['tid'])
        if tx is None:
            fails.append(('record for a transcript that is not in the gene', line)); continue
        alt = py_alt(g, tx['exons'], ev)
        if alt is None:
            # extended scope: a deletion must impose one of the event's junctions on the transcript
            cands = py_alt_ext(g, tx['exons'], ev) if rec['alt'] == '<DEL>' else []
            if not cands:
                outs += 1
                continue
            got = py_apply(w, g, tx, rec)
            hit = [(a, f) for a, f in cands if G.tx_seq(w, g, {'exons': a}) == got]
            ext[0] += 1
            if not hit:
                fails.append(('the deletion reproduces none of the isoforms obtained by imposing a junction of the event on the '
                              'transcript: got %s, candidates %s (exons %s)' % (got, [a for a, _ in cands], tx['exons']), line))
            elif thresholds and not any(support_ok(ev, f, case['min_ijc'], case['min_sjc']) for _, f in hit):
                fails.append(('deletion imposing the %s junction although its read support (IJC %d, SJC %d) is below the threshold '
                              '(min_ijc %d, min_sjc %d)' % (hit[0][1], ev['ijc'], ev['sjc'], case['min_ijc'], case['min_sjc']), line))
            continue
        alt, form = alt
        ins += 1
        if thresholds and not support_ok(ev, form, case['min_ijc'], case['min_sjc']):
            fails.append(('record for the %s form although its read support (IJC %d, SJC %d) is below the threshold (min_ijc %d, min_sjc %d)' % (
                {'inc': 'inclusion', 'skip': 'skipping'}[form], ev['ijc'], ev['sjc'], case['min_ijc'], case['min_sjc']), line))
        if form_annotated(g, ev, form):
            fails.append(('record creates the %s form of %s %s although an annotated isoform of the gene already has it' % (
                {'inc': 'inclusion', 'skip': 'skipping'}[form], ev['type'], ev['cols']), line))
        got = py_apply(w, g, tx, rec)
        want = G.tx_seq(w, g, {'exons': alt})
        if got != want:
            fails.append(('applying the record does not give the alternative isoform: got %s want %s (exons %s -> %s)' % (
                got, want, tx['exons'], alt), line))
        else:
            served.add(tx['id'])
    return ins, outs, fails, served

_SLACK = []
def ri_slack():
    """the constant the translator read from RIRecord.py on this run (coq/Gen/RmatsConst.v)"""
    if not _SLACK:
        import os, re
        f = os.path.join(os.path.dirname(os.path.dirname(os.path.dirname(os.path.abspath(__file__)))), 'coq', 'Gen', 'RmatsConst.v')
        m = re.search(r'ri_end_slack : Z := (-?\d+)', open(f).read()) if os.path.exists(f) else None
        _SLACK.append(int(m.group(1)) if m else 1)
    return _SLACK[0]

def obliged(case, ev, served, lines=()):
    """converse (MUST side only): transcripts in scope whose created form is certainly unannotated and sufficiently
    supported must receive a reproducing record.  Documented conventions of the code are outside MUST:
    MXE skipped form needs SJC > min_sjc (O1); identical MXE records of several isoforms collapse to one (O2), so the
    obligation is per group; a retained intron whose downstream part is 1 nt is not recognised (O4); on the minus strand a
    1-nt last exon fails `tx_end > downstream_start + 1`."""
    g = case['world']['genes'][ev['gene']]
    missing = []
    groups = {}
    for t in g['transcripts']:
        a = py_alt(g, t['exons'], ev)
        if a is None:
            continue
        alt, form = a
        if not form_surely_novel(g, ev, form):
            continue
        if not support_ok(ev, form, case['min_ijc'], case['min_sjc']):
            continue
        if ev['type'] == 'MXE' and form == 'skip' and ev['sjc'] <= case['min_sjc']:
            continue
        if ev['type'] == 'RI' and form == 'skip' and ri_slack() >= 1 and \
                any(e[0] < ev['cols'][3] and ev['cols'][4] == e[1] - 1 for e in t['exons']):
            continue      # only while the source still carries the repaired off-by-one (ri_end_slack >= 1)
        if ev['type'] == 'SE' and form == 'skip' and g['strand'] == -1 and t['exons'][-1][1] <= ev['cols'][4] + 1:
            continue
        if ev['type'] in ('A5SS', 'A3SS') and form == 'inc' and not ((ev['type'] == 'A5SS') == (g['strand'] == 1)):
            # O11: create_downstream_insertion is guarded by `-1 < downstream_end_index < len(exon) - 1`: the exon whose
            # start is alternative must end where the event's long exon ends and must not be the transcript's last exon
            c = ev['cols']
            k = [i for i, e in enumerate(t['exons']) if e[0] == c[2]]
            if not k or t['exons'][k[0]][1] != c[1] or k[0] == len(t['exons']) - 1:
                continue
        groups.setdefault(form if ev['type'] == 'MXE' else (form, t['id']), []).append(t['id'])
    w = case['world']
    for k, tids in groups.items():
        if any(t in served for t in tids):
            continue
        if ev['type'] == 'MXE':
            # O2: MXERecord returns list(set(...)) and record equality ignores the transcript: the record may survive
            # under another (even out-of-scope) isoform; accept a line that, applied to this transcript, gives its alternative
            ok = False
            for tid in tids:
                t = [x for x in g['transcripts'] if x['id'] == tid][0]
                alt = py_alt(g, t['exons'], ev)[0]
                want = G.tx_seq(w, g, {'exons': alt})
                if any(py_apply(w, g, t, parse_line(l)) == want for l in lines if l.split('\t')[0] == g['id']):
                    ok = True
            if ok:
                continue
        missing.append((k[0] if isinstance(k, tuple) else k, tids))
    return missing

def threshold_check(case, ev, lines):
    """no record when both supports are below their thresholds (form-specific part is in the model comparison)"""
    if lines and ev['ijc'] < case['min_ijc'] and ev['sjc'] < case['min_sjc']:
        return ['records emitted although IJC %d < %d and SJC %d < %d' % (ev['ijc'], case['min_ijc'], ev['sjc'], case['min_sjc'])]
    return []

def junctions_of(g, ev):
    c = ev['cols']
    ty = ev['type']
    if ty == 'SE':
        return [(c[3], c[4]), (c[3], c[0]), (c[1], c[4])]
    if ty in ('A5SS', 'A3SS'):
        at_end = (ty == 'A5SS') == (g['strand'] == 1)
        return [(c[1], c[4]), (c[3], c[4])] if at_end else [(c[5], c[0]), (c[5], c[2])]
    if ty == 'MXE':
        return [(c[1], c[6]), (c[5], c[2])]
    return None

def novelty_check(case, ev, lines):
    """no record when every junction of the event is annotated in some isoform of the gene"""
    g = case['world']['genes'][ev['gene']]
    js = junctions_of(g, ev)
    if js is None or not lines:
        return []
    have = {(t['exons'][i][1], t['exons'][i + 1][0]) for t in g['transcripts'] for i in range(len(t['exons']) - 1)}
    if all(j in have for j in js):
        return ['records emitted although all junctions %s are annotated' % (js,)]
    return []

# ------------------------------------------------------------------------------------------ driver
def reorder(case, im):
    """transcripts of each gene in the iteration order the implementation observed (a python set)"""
    if not (isinstance(im, dict) and 'tx_order' in im):
        return case
    c = dict(case)
    c['world'] = copy.deepcopy(case['world'])
    for g in c['world']['genes']:
        order = {t: i for i, t in enumerate(im['tx_order'].get(g['id'], []))}
        g['transcripts'].sort(key=lambda t: order.get(t['id'], 1 << 30))
    return c

def evaluate(ctx, cases):
    impl = I.run_cases('c16', cases, jobs=ctx.jobs, tag='c16')
    cases = [reorder(c, im) for c, im in zip(cases, impl)]
    reqs, spans = [], []
    for c in cases:
        r = oracle_reqs(c)
        spans.append((len(reqs), len(reqs) + len(r)))
        reqs += r
    replies = O.call_parallel(reqs, jobs=8)
    results = []
    for c, im, (a, b) in zip(cases, impl, spans):
        results.append((c, im, replies[a:b]))
    return results

def canon_impl(x):
    if isinstance(x, dict) and '__exc__' in x:
        return {'__exc__': x['__exc__']}
    return x

def one_event_case(case, i):
    c = dict(case)
    c['events'] = [case['events'][i]]
    return c

def analyse(ctx, results, stats):
    violations = []
    for case, im, rep in results:
        if isinstance(im, dict) and '__exc__' in im:
            violations.append({'what': 'implementation worker failed before the events were processed: %s' % im.get('msg', im['__exc__']),
                               'replay_obj': {'kind': 'case', 'case': case}, 'no_input': False})
            continue
        mlib = model_lib(case, rep)
        for i, (ev, a, b) in enumerate(zip(case['events'], im['lib'], mlib)):
            a = canon_impl(a)
            stats['events'] += 1
            key = ev['type'] + '/' + ev['mode'] + ('/-' if case['world']['genes'][ev['gene']]['strand'] == -1 else '/+')
            stats['dist'][key] = stats['dist'].get(key, 0) + 1
            lines = a if isinstance(a, list) else []
            ins, outs, fails, served = declarative(case, ev, lines)
            fails += [(m, None) for m in threshold_check(case, ev, lines) + novelty_check(case, ev, lines)]
            if isinstance(a, list):
                for form, tids in obliged(case, ev, served, lines):
                    stats['obliged_missing'] += 1
                    fails.append(('no record although the %s form of %s %s is unannotated and supported (IJC %d, SJC %d, min_ijc %d, min_sjc %d) for transcript(s) %s' % (
                        form, ev['type'], ev['cols'], ev['ijc'], ev['sjc'], case['min_ijc'], case['min_sjc'], tids), None))
            # unfiltered output of the same row: reproduction and novelty on every record the row can ever contribute
            l0 = im.get('lib0', [None] * len(case['events']))[i]
            if isinstance(l0, list):
                extra = [l for l in l0 if l not in lines]
                _i, _o, f0, _s = declarative(case, ev, extra, thresholds=False)
                fails += f0
                stats['unfiltered_records'] += len(l0)
            stats['in_scope_records'] += ins
            stats['out_scope_records'] += outs
            for l in lines:
                k = l.split('\t')[4]
                stats['kinds'][k] = stats['kinds'].get(k, 0) + 1
            if isinstance(a, dict):
                stats['errors'][a['__exc__']] = stats['errors'].get(a['__exc__'], 0) + 1
            if ins:
                stats['nontrivial'].add(json.dumps([case['world']['genes'][ev['gene']], ev['type'], ev['cols'], ev['ijc'], ev['sjc'], case['min_ijc'], case['min_sjc']], sort_keys=True))
            sub = one_event_case(case, i)
            if fails:
                violations.append({'what': 'C16 %s event %s on gene strand %+d: %s' % (ev['type'], ev['cols'], case['world']['genes'][ev['gene']]['strand'], fails[0][0][:300]),
                                   'replay_obj': {'kind': 'case', 'case': sub, 'line': fails[0][1]}, 'no_input': False})
            elif a != b:
                stats['harmless'].append({'case': sub, 'impl': a, 'model': b})
        # CLI level
        mc = model_cli(case, rep)
        ac = canon_impl(im['cli'])
        stats['cli_cases'] += 1
        if 'cli_argv' in im:
            stats['argv_runs'] = stats.get('argv_runs', 0) + 1
            av = canon_impl(im['cli_argv'])
            if av != ac:
                violations.append({'what': 'C16 parseRMATS through the real argument parser (%s) gives %s, the entry function called with '
                                           'the same options gives %s' % ('--index-dir' if case.get('argv_index') else 'reference files',
                                                                           str(av)[:200], str(ac)[:200]),
                                   'replay_obj': {'kind': 'case', 'case': case}, 'no_input': False})
        cli_fail = cli_declarative(case, im, ac, stats) if isinstance(ac, list) else None
        if cli_fail:
            what, evs = cli_fail
            sub = dict(case); sub['events'] = evs
            violations.append({'what': 'C16 parse_rmats (--min-ijc %d --min-sjc %d): %s' % (case['min_ijc'], case['min_sjc'], what[:400]),
                               'replay_obj': {'kind': 'case', 'case': sub}, 'no_input': False})
        elif ac != mc:
            stats['cli_diff'].append({'case': case, 'impl': ac, 'model': mc})
    return violations

def cli_declarative(case, im, cli_lines, stats):
    """the three clauses on the GVF written by parse_rmats.  Each line is traced to the row(s) that can produce it (the
    implementation's own unfiltered per-row output); it is unjustified when, for every such row, the line's transcript is
    in scope and the created form is annotated or insufficiently supported.  Conversely every obliged (row, transcript)
    must be served by some line of the file."""
    w = case['world']
    lib0 = im.get('lib0')
    if not lib0:
        return None
    producers = {}
    for i, l0 in enumerate(lib0):
        if isinstance(l0, list):
            for l in l0:
                producers.setdefault(l, []).append(i)
    for line in cli_lines:
        evs = producers.get(line)
        if not evs:
            continue
        rec = parse_line(line)
        verdicts = []
        for i in evs:
            ev = case['events'][i]
            g = w['genes'][ev['gene']]
            tx = {t['id']: t for t in g['transcripts']}.get(rec['tid'])
            a = py_alt(g, tx['exons'], ev) if tx else None
            if a is None:
                verdicts.append('unknown'); continue
            alt, form = a
            if not support_ok(ev, form, case['min_ijc'], case['min_sjc']):
                verdicts.append('the %s form has IJC %d / SJC %d' % (form, ev['ijc'], ev['sjc']))
            elif form_annotated(g, ev, form):
                verdicts.append('the %s form is already annotated' % form)
            else:
                verdicts.append('ok')
        stats['cli_lines_checked'] += 1
        if 'ok' not in verdicts and 'unknown' not in verdicts:
            return ('the GVF contains %s ... but %s' % (line[:160], '; '.join(verdicts)), [case['events'][i] for i in evs])
    # converse
    by_gene = {}
    for line in cli_lines:
        by_gene.setdefault(line.split('\t')[0], []).append(line)
    for i, ev in enumerate(case['events']):
        if not isinstance(lib0[i], list):
            continue
        g = w['genes'][ev['gene']]
        _i, _o, _f, served = declarative(case, ev, by_gene.get(g['id'], []), thresholds=False)
        miss = obliged(case, ev, served, by_gene.get(g['id'], []))
        if miss:
            form, tids = miss[0]
            return ('no line for transcript(s) %s although the %s form of %s %s is unannotated and supported (IJC %d, SJC %d)' % (
                tids, form, ev['type'], ev['cols'], ev['ijc'], ev['sjc']), [ev])
    return None

def mark_argv(cases, every=12, with_index=2):
    """a small stream through the REAL argument parser (harness/impl/_argv_route.py): every option of the command on the
    command line; the first few also through generateIndex + --index-dir"""
    k = 0
    for i, c in enumerate(cases):
        if i % every == 0:
            c['argv'] = True
            if k < with_index:
                c['argv_index'] = True
            k += 1

def new_stats():
    return dict(events=0, dist={}, in_scope_records=0, out_scope_records=0, kinds={}, errors={}, nontrivial=set(),
                harmless=[], cli_cases=0, cli_diff=[], obliged_missing=0, unfiltered_records=0, cli_lines_checked=0,
                thr_between=0, partial_retaining=0)

def run(ctx):
    rng = ctx.rng
    n = 1200 if ctx.quick else 12000
    import os, glob
    corpus = []
    cdir = os.path.join(os.path.dirname(os.path.dirname(os.path.dirname(os.path.abspath(__file__)))), 'corpus', 'C16')
    for f in sorted(glob.glob(os.path.join(cdir, '*.json'))):
        obj = json.load(open(f))
        if obj.get('kind') == 'case':
            corpus.append((os.path.basename(f), obj))
    cases = [gen_case(rng) for _ in range(n)]
    mark_argv(cases)
    stats = new_stats()
    violations = []
    # corpus first
    if corpus:
        cres = evaluate(ctx, [o['case'] for _, o in corpus])
        cstats = new_stats()
        cv = analyse(ctx, cres, cstats)
        for (name, obj), v in zip(corpus, cv + [None] * len(corpus)):
            pass
        for v in cv:
            fid = None
            for name, obj in corpus:
                if obj.get('finding') and obj['case']['events'][0]['cols'] == v['replay_obj']['case']['events'][0]['cols']:
                    fid = obj['finding']
            # fixed findings are regression cases: a recurrence is a VIOLATION
            violations.append(v)
        stats['harmless'] += cstats['harmless']; stats['cli_diff'] += cstats['cli_diff']
    results = evaluate(ctx, cases)
    violations += analyse(ctx, results, stats)
    violations = classify(violations)
    # model/implementation differences where the statement itself still holds on the implementation's output
    if stats['harmless'] or stats['cli_diff']:
        ex = (stats['harmless'] or stats['cli_diff'])[0]
        violations.append({'what': 'implementation and proved model disagree on %d events / %d CLI runs although the declarative '
                                   'statement holds on the implementation output; first: impl %s vs model %s' % (
                                       len(stats['harmless']), len(stats['cli_diff']), str(ex['impl'])[:200], str(ex['model'])[:200]),
                           'replay_obj': {'kind': 'correspondence', 'name': 'corr:C16/convert_to_variant_records', 'example': ex},
                           'no_input': True})
    samples = []
    for c, im, rep in results[:40]:
        for ev, a in zip(c['events'], im['lib'] if isinstance(im, dict) and 'lib' in im else []):
            if isinstance(a, list) and a and len(samples) < 6:
                samples.append({'event': ev, 'strand': c['world']['genes'][ev['gene']]['strand'], 'min': [c['min_ijc'], c['min_sjc']], 'records': a[:2]})
    return dict(evaluations=stats['events'] + stats['cli_cases'], distinct_nontrivial=len(stats['nontrivial']),
                rule='one evaluation = one rMATS row through the real reader + record class compared with the model '
                     '(plus one per CLI run of parse_rmats on all rows of a world); non-trivial = the row produced at least one '
                     'record for an in-scope transcript whose reconstruction was compared with the ground-truth isoform; '
                     'distinct by (gene structure, event, counts, thresholds)',
                samples=samples, distribution=stats['dist'], record_kinds=stats['kinds'], error_classes=stats['errors'],
                in_scope_records=stats['in_scope_records'], extended_scope_deletions=EXT_COUNT[0], out_of_scope_records=stats['out_scope_records'],
                cli_runs=stats['cli_cases'], argv_route_runs=stats.get('argv_runs', 0), cli_lines_checked=stats['cli_lines_checked'], unfiltered_records=stats['unfiltered_records'], disagreements=len(stats['harmless']) + len(stats['cli_diff']),
                violations=[v for v in violations if not v.get('finding')][:12] + [v for v in violations if v.get('finding')][:4],
                assumptions=['rMATS coordinates are 0-based half-open genomic, upstream/downstream by genomic coordinate on both strands (rMATS convention)',
                             'gene strand is +1 or -1; transcript line spans first exon start .. last exon end',
                             'records for transcripts whose exons do not coincide with the event (out_of_scope_records) are compared with the model only'],
                trusted_base=['GVF text rendering of model records (harness/props/c16.py:render)',
                              'python ground truth harness/lib/gen_reference.py (tx_seq, g2tx, gene2g)'])

def classify(violations):
    """no open finding of C16 has a signature: every violation is reported (C16-RI-retained-1nt was repaired in /repo
    c65fc44; its replay corpus/C16/finding_RI-retained-1nt.json runs first on every check as a regression case)"""
    return violations

def search_failing_input(ctx, broken):
    """an obligation of Props/C16.v no longer checks (e.g. the translator does not recognise RIRecord's retained test any
    more): look for a concrete input on which the implementation violates the statement"""
    import random
    rng = random.Random(ctx.seed)
    cases = []
    while len(cases) < 300:
        c = gen_case(rng)
        if any(e['mode'] == 'partial_retained' for e in c['events']):
            cases.append(c)
    stats = new_stats()
    v = [x for x in analyse(ctx, evaluate(ctx, cases), stats) if not x.get('no_input')]
    v = [x for x in classify(v) if not x.get('finding')]
    if v:
        o = dict(v[0]['replay_obj']); o['what'] = v[0]['what']
        return o
    return None

def replay(ctx, obj):
    if obj.get('kind') != 'case':
        return dict(violations=[{'what': 'correspondence replay: ' + obj.get('name', ''), 'replay_obj': obj, 'no_input': True}])
    stats = new_stats()
    res = evaluate(ctx, [obj['case']])
    v = classify(analyse(ctx, res, stats))
    for h in stats['harmless'] + stats['cli_diff']:
        v.append({'what': 'replay: impl %s vs model %s' % (str(h['impl'])[:300], str(h['model'])[:300]), 'replay_obj': obj, 'no_input': False})
    return dict(violations=v)
