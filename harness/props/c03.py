"""C03 correspondence: FASTA headers of callVariant are truthful witnesses (Model/Spec.v: witness_ok).

For every (peptide, header entry) pair of every output:
  * the entry parses by the documented grammar  <backbone>|<variant id>|...|[ORFn|]<index>
  * the backbone is a transcript that has records in the input GVF, every named id occurs in the GVF
    rows of that transcript
  * witness_ok: applying EXACTLY the named records (and no others) to the transcript yields a
    translation from a permitted start in which the peptide is a digestion product
    (witness_ok_iff proves the decider equivalent to that statement)
  * every entry string occurs at most once in the whole FASTA (entries_unique)
Entries that also name generated identifiers (alt-translation flags) are checked POSITION-EXACTLY with
witness_ok_pos (Model/SpecAltPos.v, witness_ok_pos_iff): SECT-n must name an annotated Sec codon of the backbone
(n = 1-based gene coordinate of its first base) and the peptide must be a product cut in front of the U read from
exactly THAT codon; W2F-i (1-based residue index in the printed peptide) must name exactly the residues that were W
and are F.  A generated identifier that is wrong is a VIOLATION unless a listed finding about the named RECORDS
explains the entry (the repair search only removes / adds records, never touches the generated identifiers).
Known findings are classified by signature (see classify_entry): D12 / C03-stoploss-header (the header
omits an upstream frameshift / the stop-altering record the peptide depends on), D14 (exception ON:
witness under the relaxed exception semantics).  Anything else is a VIOLATION.
"""
import json, os, sys, glob, collections, itertools
from harness.lib import oracle as O, cvgen as CG, cvcheck as CK, cvsig as SG, cvgen_alt as CA, gen_reference as G
from harness.lib import cvgen2 as CG2, cvcheck2 as CK2, cvgen_fus as CF
import re, time

PROPERTY = 'C03'
ROOT = os.path.dirname(os.path.dirname(os.path.dirname(os.path.abspath(__file__))))
F_D12 = 'D12'
F_STOPHDR = 'C03-stoploss-header'
F_OVERLAP = 'C03-superfluous-id'
F_BUBBLE = 'C03-bubble-omitted-id'

def sizes(ctx):
    if ctx.quick:
        return dict(core=700, excon=240, flags=120, altpos=130, framepair=60, stoplost=80, altids_as=110, altids_circ=30, altids_fusion=50)
    return dict(core=18000, excon=5000, flags=4000, altpos=4000, framepair=2000, stoplost=2500, altids_as=3000, altids_circ=600, altids_fusion=1500)

def gen_cases(ctx):
    rng = ctx.rng
    rc = CK.rule_classes()
    n = sizes(ctx)
    la_other = [r for r in rc['la'] if r != 'trypsin']
    cases = []
    for i in range(n['core']):
        c = CG.gen_case(rng, coding_p=0.75)
        run = CG.gen_run(rng, rule='trypsin' if rng.random() < 0.65 else la_other[i % len(la_other)], exc_on=False)
        if rng.random() < 0.4:
            run.update(mvpn=rng.choice([2, 3, 7]), avpm=rng.choice([0, 1, 2]), mnc=rng.choice([2, 5, 30]), naa=rng.choice([1, 3, 5]))
        c['runs'] = [run]; c['stream'] = 'core'
        cases.append(c)
    for i in range(n['excon']):
        c = CG.gen_case(rng, coding_p=0.8)
        c['runs'] = [CG.gen_run(rng, rule='trypsin', exc_on=True)]; c['stream'] = 'excon'
        cases.append(c)
    for i in range(n.get('flags', 0)):
        c = CG.gen_case(rng, coding_p=0.85)
        sect, w2f = rng.choice([(True, False), (False, True), (True, True)])
        c['runs'] = [CG.gen_run(rng, rule='trypsin', exc_on=False, sect=sect, w2f=w2f)]; c['stream'] = 'flags'
        if w2f and CK.max_w_run(c, c['runs'][0], c['runs'][0]['max_len']) > 6:
            c['runs'][0].update(w2f=False, extra=[e for e in c['runs'][0]['extra'] if e != '--w2f-reassignment'])   # 2^w images: keep w <= 6
            if not c['runs'][0]['sect']:
                c['runs'][0].update(sect=True, extra=['--selenocysteine-termination'])
        cases.append(c)
    for i in range(n.get('altpos', 0)):
        # designed geometry for position-exact SECT-n / W2F-i: 2-3 W in one peptide, records next to W, records in
        # the codon directly before / after a Sec codon together with a second record upstream, two Sec codons
        c = CA.gen_designed_case(rng)
        run = CA.gen_designed_run(rng, c)
        if run['w2f'] and CK.max_w_run(c, run, run['max_len']) > 6:
            run.update(w2f=False, sect=True, extra=['--selenocysteine-termination'])
        c['runs'] = [run]; c['stream'] = 'altpos'
        cases.append(c)
    for st, gen in (('framepair', CA.gen_framepair_case), ('stoplost', CA.gen_stoplost_case)):
        # framepair: two indels restoring the frame + records downstream (seeded C03-8); stoplost: stop-lost records of
        # six shapes + records in the read-through (seeded C03-9)
        for i in range(n.get(st, 0)):
            c = gen(rng)
            run = CG.gen_run(rng, rule='trypsin', exc_on=False)
            run.update(min_len=rng.choice([4, 5, 7]), max_len=rng.choice([25, 40]))
            if run['mw4'] > 5000000:
                run['min_mw'], run['mw4'] = CG.off_grid_mw(rng, bases=(0, 300))
            c['runs'] = [run]; c['stream'] = st
            cases.append(c)
    return cases

def gen_alt_backbone_cases(ctx):
    """alternative-splicing / circRNA / fusion inputs (generators of C01 / C02: harness/lib/cvgen2.py, cvgen_fus.py) for
    the id check of their headers"""
    rng = ctx.rng
    n = sizes(ctx)
    cases = []
    for i in range(n.get('altids_as', 0)):
        x = rng.random()
        c = CG2.gen_as_case(rng, donor_records=(x < 0.7)) if x < 0.85 else CG2.gen_as_design_case(rng)
        c['stream'] = 'altids_as'; cases.append(c)
    for i in range(n.get('altids_circ', 0)):
        c = CG2.gen_circ_case(rng, nvar=rng.choice([0, 1, 2, 3]))
        c['stream'] = 'altids_circ'; cases.append(c)
    for i in range(n.get('altids_fusion', 0)):
        c = CF.gen_fusion_case2(rng)
        c['stream'] = 'altids_fusion'; cases.append(c)
    for c in cases:
        run = CG.gen_run(rng, rule='trypsin', exc_on=False)
        run.update(k=rng.choice([0, 1, 1, 2]), skip_oracle=True)
        c['runs'] = [run]
    return cases

def input_ids(case):
    """{backbone or '*': ids} of every record of every input GVF of the case"""
    by = collections.defaultdict(set)
    for r in case.get('gvf', []):
        by[r[5]].add(r[2]); by['*'].add(r[2])
    for r in case.get('as_records', []):
        by[r['tx']].add(r['row']['id']); by['*'].add(r['row']['id'])
    for r in case.get('circ_records', []):
        by['*'].add(r['row']['id']); by['backbones'].add(r['row']['id'])
    for f in case.get('fusions', []):
        by['*'].add(f['id']); by['backbones'].add(f['id'])
    return by

F_RESTART = 'C03-index-restart-per-graph'
RESTART_EVIDENCE = collections.Counter()

def index_restart_signature(ev, e, txs):
    """known finding C03-index-restart-per-graph: every graph of one transcript (main, one per fusion, one per circRNA)
    builds its own VariantPeptideDict, so the occurrence counters of '<tx>|<ids>' restart; a peptide of the donor part
    of a FUSION graph that carries only transcript-level records gets a '<tx>|<ids>|<n>' string the main graph already
    gave away.  Signature: the duplicated string has a PLAIN TRANSCRIPT backbone, the input has a fusion whose donor (or
    a circRNA whose transcript) is that backbone, and one of the peptides carrying the string shows that a second graph
    labelled it: it carries the same '<tx>|<ids>' twice - with two different indices (within one graph a peptide gets a
    label once) or, on non-coding donors, with two different ORF ids (ORFn is numbered per graph as well) -, or an
    entry on a FUSION- / CIRC- backbone of that transcript.  A duplicate without such a record on the
    backbone, a duplicated FUSION- / CIRC- entry, or a duplicate nobody but one graph can have produced: VIOLATION."""
    bb = e.split('|')[0]
    if bb not in txs:
        return None
    alt_ids = [f['id'] for f in ev.case.get('fusions', []) if f['donor_tx'] == bb] + \
              [r['row']['id'] for r in ev.case.get('circ_records', []) if r['tx'] == bb]
    if not alt_ids:
        return None
    for seq, es in ev.got.items():
        if e not in es:
            continue
        same = [x for x in es if _noorf(x) == _noorf(e)]
        if len(set(same)) >= 2 or any(x.split('|')[0] in alt_ids for x in es):
            RESTART_EVIDENCE['two-graphs-visible'] += 1
            return F_RESTART
    ok = restart_counterfactual(ev, e, bb)
    RESTART_EVIDENCE['counterfactual:%s' % ('finding' if ok else 'VIOLATION')] += 1
    return F_RESTART if ok else None

def restart_counterfactual(ev, e, bb, reps=4):
    """the by-product above is not always visible (identical strings of two graphs are merged on one peptide, and the
    output flickers between repeats of one input): decide the mechanism EXECUTABLY.  The identical case is re-run
    `reps` times WITHOUT the fusion / circRNA records of the backbone bb (the main graph does not depend on them).  It is
    the finding iff in every repeat (1) all entry strings of bb are unique - the main graph alone never duplicates - and
    (2) the main graph accounts for at most one of the peptides that carried the duplicated string: the others get
    it only when a fusion / circRNA graph of bb is present."""
    c = json.loads(json.dumps(CK.strip_case(ev.case)))
    c['fusions'] = [f for f in c.get('fusions', []) if f['donor_tx'] != bb]
    c['circ_records'] = [r for r in c.get('circ_records', []) if r['tx'] != bb]
    for k in ('fusions', 'circ_records'):
        if not c[k]:
            c.pop(k)
    c['runs'] = [dict(ev.run, skip_oracle=True)]
    carriers = set(s_ for s_, es in ev.got.items() if e in es)
    class _Ctx: pass
    ctx = _Ctx(); ctx.jobs = 2; ctx.quick = True
    evs = CK2.run_batch(ctx, [json.loads(json.dumps(c)) for _ in range(reps)], want_may=False, tag='c03cf')
    for e2 in evs:
        if e2.exc:
            return False
        mine = [x for es in e2.got.values() for x in es if x.split('|')[0] == bb]
        if len(set(mine)) != len(mine):
            return False
        if len([s_ for s_ in carriers if e in e2.got.get(s_, [])]) > 1:
            return False
    return True

def judge_ids(evs, violations, stats):
    """C03 on alternative-splicing / circRNA / fusion backbones, the part that needs no semantics: every entry parses
    (<backbone>|<id>|...|[ORFn|]<index>), the backbone is a transcript carrying records or the id of a supplied
    circRNA / fusion record, and every other token is the id of a record of the input GVFs (on a fusion backbone
    prefixed by the 1-based index of the partner transcript, '2-INDEL-113-G-GTGA'); generated SECT / W2F ids only with
    their flag.  An id that occurs in no input (seeded C03-7: 'G1-SNV-175-C-G') is a VIOLATION.  Whether the named
    records are a WITNESS on these backbones is not decided here."""
    for ev in evs:
        st = ev.case.get('stream', '?').split(':')[0]
        stats['runs:' + st] += 1
        if ev.exc:
            if CK.is_fusion_crash(ev):
                stats['known_crash:' + CK.F_FUSCRASH] += 1
                continue
            violations.append({'what': 'callVariant aborted with %s (%s)' % (ev.exc['__exc__'], ev.exc.get('msg', '')[:120]),
                               'replay_obj': CK.replay_obj(ev, 'header-ids'), 'no_input': False})
            continue
        ids = input_ids(ev.case)
        txs = set(t['id'] for g in ev.case['world']['genes'] for t in g['transcripts'])
        bad = collections.defaultdict(list)
        entries = []
        for seq, ents in ev.got.items():
            for e in ents:
                entries.append(e)
                stats['entries'] += 1; stats['id_checked'] += 1
                f = e.split('|')
                if len(f) < 2 or not f[-1].isdigit():
                    bad['grammar'].append((seq, e)); continue
                bb, toks = f[0], f[1:-1]
                fusion = bb.startswith('FUSION-')
                if bb not in txs and bb not in ids['backbones']:
                    bad['backbone-is-no-input-record'].append((seq, e)); continue
                if bb in txs and not ids.get(bb):
                    bad['backbone-without-records'].append((seq, e)); continue
                stats['backbone:%s' % ('fusion' if fusion else 'circ' if bb.startswith('CIRC-') else 'tx')] += 1
                for t in toks:
                    if re.fullmatch(r'ORF\d+', t):
                        continue
                    if re.fullmatch(r'(SECT|W2F)-\d+', t):
                        if not ev.run.get('sect' if t[0] == 'S' else 'w2f'):
                            bad['alt-id-without-flag'].append((seq, e))
                        continue
                    t0 = re.sub(r'^\d+-', '', t) if fusion else t
                    pool = ids[bb] if bb in txs else ids['*']
                    if t0 not in pool:
                        bad['id-not-in-any-input-gvf' if t0 not in ids['*'] else 'id-of-another-transcript'].append((seq, e)); break
                    stats['ids_named:%s' % t0.split('-')[0].split('_')[0]] += 1
        if entries:
            stats['nontrivial'] += 1
        if len(set(entries)) != len(entries):
            for e in [e for e, k in collections.Counter(entries).items() if k > 1]:
                tag = index_restart_signature(ev, e, txs)
                bad['duplicate-entry:%s' % (tag or '')].append((' / '.join(s_ for s_, es in ev.got.items() if e in es), e))
        for kind, lst in bad.items():
            tag = kind.split(':')[1] if ':' in kind else ''
            stats['bad:%s' % kind] += len(lst)
            v = {'what': 'header entry %r of peptide %s: %s (%d such in this run; %s)' % (lst[0][1], lst[0][0], kind.split(':')[0], len(lst), ev.case.get('stream')),
                 'replay_obj': CK.replay_obj(ev, 'header-ids', {'entries': [list(x) for x in lst[:10]], 'kind': kind}), 'no_input': False}
            if tag:
                v['finding'] = tag
            violations.append(v)

def sect_positions(case, tx_id):
    """{n: transcript position of the Sec codon} for the ids SECT-n the backbone can carry: n = 1-based GENE
    coordinate of the first base of an annotated Sec codon (ground truth of the generator, not the repo's code)"""
    g, t = CK._tx_of(case, tx_id)
    return {G.g2gene(g, G.tx2g(g, t, p)) + 1: p for p in (t.get('sec') or [])} if t['cds'] else {}

def alt_positions(case, tx_id, seq, alts):
    """generated identifiers of an entry -> (sect transcript positions, 0-based W2F residue indices ascending), or
    a string naming what is wrong with them before any semantics is consulted"""
    secmap = sect_positions(case, tx_id)
    sp, wp = [], []
    for a in alts:
        kind, n = a.split('-'); n = int(n)
        if kind == 'SECT':
            if n not in secmap:
                return 'sect-id-names-no-annotated-sec-codon'
            sp.append(secmap[n])
        else:
            if not (1 <= n <= len(seq)):
                return 'w2f-id-outside-peptide'
            wp.append(n - 1)
    return sp, sorted(wp)

def corpus_cases():
    out = []
    for f in sorted(glob.glob(os.path.join(ROOT, 'corpus', 'C03', '*.json'))):
        o = json.load(open(f))
        c = o['case']
        c['stream'] = 'corpus:' + os.path.basename(f)
        c['repeat'] = o.get('repeat', 1)
        if o.get('expect_entries'):
            c['expect_entries'] = o['expect_entries']
        if o.get('what') == 'header-ids':
            c['check'] = 'ids'          # fusion / circRNA / AS input: id + uniqueness check of judge_ids
        out.append(c)
    return out

def _noidx(entry):
    f = entry.split('|')
    return '|'.join(f[:-1]) if f and f[-1].isdigit() else entry

def _noorf(entry):
    return '|'.join(x for x in _noidx(entry).split('|') if not re.fullmatch(r'ORF\d+', x))

def gvf_ids(case):
    d = collections.defaultdict(set)
    for row in case['gvf']:
        d[row[5]].add(row[2])
    return d

def complete_header(x, recs, p, ids_idx, cds_end, relaxed=False):
    """smallest set of ADDED records that turns the named set into a witness; returns (added, kind)"""
    others = [i for i in range(len(recs)) if i not in ids_idx]
    api = 'cv_witness_relaxed' if relaxed else 'cv_witness'
    for n in (1, 2, 3):
        combos = list(itertools.combinations(others, n))
        if not combos:
            break
        oks = O.call(api, [x, [[p, sorted(ids_idx + list(cb))] for cb in combos]])
        for cb, ok in zip(combos, oks):
            if ok:
                return list(cb)
    return None

GAPS = collections.Counter()
# C03-superfluous-id is the over-reporting of a record of the peptide's own variant bubble that its haplotype does
# not carry.  Two measured shapes (unchanged tree; 10 000 core runs = 176 659 entries + the thorough tier):
#   (i)  ANOTHER ALLELE OF THE SAME CODON: the superfluous record overlaps, abuts or lies 1 nt from a named record
#        that stays in the witness (114 of 116 hits at 0 nt; 1 nt = two SNVs on the 1st and 3rd base of one codon);
#   (ii) A RECORD IN THE CLEAVAGE CONTEXT: it lies OUTSIDE the peptide, at most two codons in front of / behind it
#        (2 nt four times; 5 nt once: MNV on the former stop codon in front of a read-through peptide).
# SUPERFLUOUS_NAMED_BOUND = 1 nt (i), SUPERFLUOUS_MAX_GAP = 6 nt (ii).  A superfluous record anywhere else - inside the
# peptide's stretch but clear of the named records, or further away: a frameshift leaked from another branch, seeded
# C03-3 - is NOT this finding.  (Tried and rejected: 6 nt for (i) - quiet as well, but leaves 2 instead of 10
# violations of the quick tier under seeded C03-3.)
SUPERFLUOUS_MAX_GAP = int(os.environ.get('C03_SUPERFLUOUS_MAX_GAP', '6'))
SUPERFLUOUS_NAMED_BOUND = int(os.environ.get('C03_SUPERFLUOUS_NAMED_BOUND', '1'))

def removed_gap(recs, ids_idx, S, full, wits, log=None):
    """how far a REMOVED record of a repair (named, not in S) is from the places where the engine is known to
    over-report; worst case over the removed records of
       0      it overlaps, abuts or lies within SUPERFLUOUS_NAMED_BOUND nt of a named record that STAYS in the
              witness (alleles of one variant bubble)
       1..6   it lies OUTSIDE the peptide, at most two codons in front of / behind it (cleavage context)
       50     it lies inside the stretch the peptide is translated from, clear of every other named record
       d>6    its distance to the nearest other named record / to the peptide"""
    spans = [(w['start'] + 3 * w['a'], w['start'] + 3 * w['b'])
             for w in wits if sorted(recs.index(r) for r in w['H']) == full]
    H = [recs[i] for i in full]
    worst = 0
    for i in ids_idx:
        if i in S:
            continue
        r = recs[i]
        g = min([max(0, recs[k]['s'] - r['e'], r['s'] - recs[k]['e']) for k in S] or [10 ** 6])
        raw = g
        if g <= SUPERFLUOUS_NAMED_BOUND:
            g = 0          # same variant bubble as a named record that STAYS in the witness
        if g > 0:
            hs, he = SG.shift(H, r['s']), SG.shift(H, r['e'])
            ds = []
            for lo, hi in spans:
                d = max(0, lo - he, hs - hi)
                ds.append(d if d > 0 else 50)
            g = min([max(g, SUPERFLUOUS_MAX_GAP + 1)] + ds)     # named distance alone never explains beyond its bound
        if log is not None:
            log['named:%d' % min(raw, 99) if raw <= SUPERFLUOUS_NAMED_BOUND else ('peptide-adjacent:%d' % g if g <= SUPERFLUOUS_MAX_GAP else 'unexplained(named:%d)' % min(raw, 99))] += 1
        worst = max(worst, g)
    return worst

def _pairwise_ok(rs):
    rs = sorted(rs, key=lambda r: (r['s'], r['e']))
    return all(a['e'] <= b['s'] for k, a in enumerate(rs) for b in rs[k + 1:])

def classify_entry(ev, tx_id, x, recs, p, ids_idx):
    """finding id for a header entry that is not a witness.  The smallest repair (REMOVE some named records,
    ADD at most three others) that makes the entry a witness is looked for; the finding is decided by what
    had to be added / removed:
      D14 / D14b            the entry IS a witness under the relaxed reading of exception-suppressed /
                            look-behind-dependent sites (the peptide itself stems from those defects)
      D12                   an added record is a frameshifting indel
      C03-stoploss-header   an added record is one without which translation stops before the peptide
                            (it removes the annotated stop codon or a stop in a shifted frame)
      C03-bubble-omitted-id an added record lies within 6 nt of a named record (same variant bubble)
      C03-superfluous-id    nothing had to be added: a proper subset of the named records is the witness
                            (the entry names records that overlap each other, or an adjacent record the
                            peptide's haplotype does not carry)
    anything else (an added record of none of these kinds, or no repair) is a violation."""
    exc_on = ev.run['exc'] != 'None'
    if exc_on and O.call('cv_witness_relaxed', [x, [[p, ids_idx]]])[0]:
        return CK.F_D14
    if O.call('cv_witness_relaxed2', [x, [[p, ids_idx]]])[0]:
        return CK.F_PEPSIN
    others = [i for i in range(len(recs)) if i not in ids_idx]
    subsets = [list(cb) for n in range(len(ids_idx), 0, -1) for cb in itertools.combinations(ids_idx, n)]
    adds = [[]] + [list(cb) for n in (1, 2, 3) for cb in itertools.combinations(others, n)]
    cands = []
    for A in adds:
        for S in subsets:
            full = sorted(S + A)
            if _pairwise_ok([recs[i] for i in full]):
                cands.append((len(A), len(ids_idx) - len(S), S, A, full))
    cands.sort(key=lambda c: (c[0], c[1]))
    found = None
    wits = None
    for api in (['cv_witness'] + (['cv_witness_relaxed'] if exc_on else []) + ['cv_witness_relaxed2']):
        if not cands:
            break
        oks = O.call(api, [x, [[p, c[4]] for c in cands]])
        hit = [c for c, ok in zip(cands, oks) if ok]
        if any(c[1] for c in hit):
            # a repair may REMOVE a named record only when that record overlaps / abuts a kept named record (or
            # sits in the codon next to the peptide): that is the mechanism of C03-superfluous-id (removed_gap).
            # Any other superfluous record (a frameshift leaked from another branch, seeded C03-3) is not explained
            # by removing it.
            if wits is None:
                wits = SG.decode_wits(O.call('cv_may_witnesses', [x, p]), recs)
            gaps = [removed_gap(recs, ids_idx, c[2], c[4], wits) if c[1] else 0 for c in hit]
            if not hit[0][3] and hit[0][1]:
                GAPS[min(gaps[0], 99)] += 1
                removed_gap(recs, ids_idx, hit[0][2], hit[0][4], wits, log=GAPS)
                if gaps[0] > 0 and os.environ.get('C03_DEBUG_GAP'):
                    print('GAPDEBUG', gaps[0], p, [recs[i]['id'] for i in ids_idx], [recs[i]['id'] for i in hit[0][2]], file=sys.stderr)
            hit = [c for c, g in zip(hit, gaps) if g <= SUPERFLUOUS_MAX_GAP]
        if hit:
            found = (api, hit[0]); break
    if not found:
        return None
    api, (na, nr, S, A, full) = found
    if not A:
        return F_OVERLAP if api == 'cv_witness' else (CK.F_D14 if api == 'cv_witness_relaxed' else CK.F_PEPSIN)
    if api == 'cv_witness' and wits is None:
        wits = SG.decode_wits(O.call('cv_may_witnesses', [x, p]), recs)
    ws = [w for w in wits if sorted(recs.index(r) for r in w['H']) == full] if api == 'cv_witness' else []
    kinds = []
    for i in A:
        r = recs[i]
        if (len(r['alt']) - (r['e'] - r['s'])) % 3 != 0:
            kinds.append('fs'); continue
        g_, t_ = CK._tx_of(ev.case, tx_id)
        if ws or t_['cds']:
            rest = [k for k in full if k != i]
            if ws:
                start, whole_len, limit = ws[0]['start'], len(ws[0]['aas']), ws[0]['a']
            else:   # witness only under a relaxed reading: compare the translations from the annotated start
                start = SG.shift([recs[k] for k in full], t_['cds'][0])
                whole_len = len(O.call('cv_translate_at', [x, [1 if k in full else 0 for k in range(len(recs))], start]))
                limit = whole_len
                start = SG.shift([recs[k] for k in rest], t_['cds'][0])
            aas = O.U(O.call('cv_translate_at', [x, [1 if k in rest else 0 for k in range(len(recs))], start]))
            if len(aas) < whole_len and len(aas) <= limit:
                kinds.append('stop'); continue
        if any(r['s'] - 6 <= recs[k]['e'] and recs[k]['s'] <= r['e'] + 6 for k in ids_idx):
            kinds.append('near'); continue
        kinds.append(None)
    if None in kinds:
        return None
    if api == 'cv_witness_relaxed':
        return CK.F_D14
    if api == 'cv_witness_relaxed2':
        return CK.F_PEPSIN
    if 'near' in kinds:
        return F_BUBBLE
    return F_D12 if 'fs' in kinds else F_STOPHDR

def classify_alt_entry(ev, tx_id, x, recs, p, ids_idx, sect, w2f):
    """same mechanisms for an entry that also names generated SECT / W2F identifiers; sect / w2f = the POSITIONS
    they name (witness_ok_pos).  Entries without a SECT id are classified through their base entry; the rest of this
    function handles entries with a SECT id (coding backbones).  Only the named records are repaired: a generated identifier that names the
    wrong Sec codon / the wrong residues has no repair and stays a violation."""
    def wit(sets):
        return O.call('cv_witness_pos', [x, [[p, sorted(sb), sect, w2f] for sb in sets]])
    if not sect:
        # W2F ids only (always so on non-coding backbones, which carry no Sec): the label is the label of the base
        # peptide plus the W2F ids (VariantPeptideDict.translational_modification appends them), so the entry inherits
        # the finding of its BASE entry: b = p with W restored at exactly the named residues, same records, the full
        # classifier of plain entries (incl. the peptide-adjacent clause of C03-superfluous-id, D14 / D14b).  When the
        # base entry IS a witness the records are fine and the generated ids themselves are wrong: violation.
        if not w2f or any(p[i] != 'F' for i in w2f):
            return None
        b = ''.join('W' if i in w2f else ch for i, ch in enumerate(p))
        if O.call('cv_witness', [x, [[b, ids_idx]]])[0]:
            return None
        return classify_entry(ev, tx_id, x, recs, b, ids_idx)
    if len(ids_idx) > 1:
        subs = [list(cb) for n in range(1, len(ids_idx)) for cb in itertools.combinations(ids_idx, n)
                if _pairwise_ok([recs[i] for i in cb])]
        hits = [sb for sb, ok in zip(subs, wit(subs)) if ok] if subs else []
        if hits:
            # same narrowing as in classify_entry; the peptide's own span is not consulted for alt forms, the named
            # Sec codon counts as a named position
            def gap_of(sb):
                worst = 0
                for i in ids_idx:
                    if i in sb:
                        continue
                    r = recs[i]
                    ds = [max(0, recs[k]['s'] - r['e'], r['s'] - recs[k]['e']) for k in sb]
                    ds += [max(0, sp - r['e'], r['s'] - (sp + 3)) for sp in sect]
                    g = min(ds) if ds else 10 ** 6
                    GAPS['alt-named:%d' % min(g, 99)] += 1
                    worst = max(worst, 0 if g <= SUPERFLUOUS_NAMED_BOUND else g)
                return worst
            gap = min(gap_of(sb) for sb in hits)
            GAPS['alt:%d' % min(gap, 99)] += 1
            if gap > 0 and os.environ.get('C03_DEBUG_GAP'):
                print('GAPDEBUG-ALT', gap, p, [recs[i]['id'] for i in ids_idx], hits[0], file=sys.stderr)
            if gap == 0:
                return F_OVERLAP
            # a far-away superfluous record is not this finding: only repairs that ADD records remain
    if not _pairwise_ok([recs[i] for i in ids_idx]):
        return None
    g, t = CK._tx_of(ev.case, tx_id)
    if not t['cds']:
        return None
    others = [i for i in range(len(recs)) if i not in ids_idx]
    added = None
    for n in (1, 2, 3):
        combos = list(itertools.combinations(others, n))
        if not combos:
            break
        oks = wit([ids_idx + list(cb) for cb in combos])
        hit = [cb for cb, ok in zip(combos, oks) if ok]
        if hit:
            added = list(hit[0]); break
    if added is None:
        return None
    full = sorted(ids_idx + added)
    start = SG.shift([recs[i] for i in full], t['cds'][0])
    whole = O.U(O.call('cv_translate_at', [x, [1 if k in full else 0 for k in range(len(recs))], start]))
    kinds = []
    for i in added:
        r = recs[i]
        if (len(r['alt']) - (r['e'] - r['s'])) % 3 != 0:
            kinds.append('fs'); continue
        rest = [k for k in full if k != i]
        aas = O.U(O.call('cv_translate_at', [x, [1 if k in rest else 0 for k in range(len(recs))],
                                             SG.shift([recs[k] for k in rest], t['cds'][0])]))
        kinds.append('stop' if len(aas) < len(whole) else None)
    if None in kinds:
        return None
    return F_D12 if 'fs' in kinds else F_STOPHDR

def judge(evs, violations, stats):
    reqs = []
    for ev in evs:
        st = ev.case.get('stream', '?').split(':')[0]
        stats['runs:' + st] += 1
        if ev.exc:
            violations.append({'what': 'callVariant aborted with %s (%s)' % (ev.exc['__exc__'], ev.exc.get('msg', '')[:120]),
                               'replay_obj': CK.replay_obj(ev, 'crash'), 'no_input': False})
            continue
        ids_of = gvf_ids(ev.case)
        entries = []
        bad = collections.defaultdict(list)
        items = []
        alt_items = []
        for seq, ents in ev.got.items():
            for e in ents:
                entries.append(e)
                h = CG.parse_header(e)[0]
                stats['entries'] += 1
                if h['index'] is None or h['other'] or not h['tx']:
                    bad['grammar'].append((seq, e)); continue
                if h['tx'] not in ev.xs:
                    bad['backbone-without-records'].append((seq, e)); continue
                if not set(h['ids']) <= ids_of[h['tx']]:
                    bad['id-not-in-gvf'].append((seq, e)); continue
                recs = ev.recs[h['tx']]
                idx = []
                unmapped = False
                for vid in h['ids']:
                    k = [i for i, r in enumerate(recs) if r['id'] == vid]
                    if not k:
                        unmapped = True
                    idx += k
                if unmapped or not idx:
                    bad['names-unusable-record'].append((seq, e)); continue
                if h['orf']:
                    stats['entries_with_orf'] += 1
                stats['ids_per_entry:%d' % min(len(idx), 5)] += 1
                if h['alts']:
                    # generated SECT / W2F identifiers: only with the flag on, checked by witness_ok_fl
                    sect = any(a.startswith('SECT-') for a in h['alts'])
                    w2f = any(a.startswith('W2F-') for a in h['alts'])
                    if (sect and not ev.run.get('sect')) or (w2f and not ev.run.get('w2f')):
                        bad['alt-id-without-flag'].append((seq, e)); continue
                    stats['entries_with_alt_ids'] += 1
                    pos = alt_positions(ev.case, h['tx'], seq, h['alts'])
                    if isinstance(pos, str):
                        bad[pos].append((seq, e)); continue
                    stats['alt_ids:sect%d_w2f%d' % (min(len(pos[0]), 2), min(len(pos[1]), 4))] += 1
                    alt_items.append((seq, e, h['tx'], sorted(set(idx)), pos[0], pos[1]))
                    # measured geometry of the entries with a SECT id (what seeded C03-5 needs, two Sec in one peptide)
                    for sp in pos[0]:
                        named_recs = [recs[i] for i in set(idx)]
                        if len(named_recs) >= 2 and any(r['e'] == sp for r in named_recs):
                            stats['geom:sect_entry_with_record_ending_at_sec_and_another'] += 1
                        if any(sp + 3 <= r['s'] < sp + 6 for r in named_recs):
                            stats['geom:sect_entry_naming_record_in_codon_after_sec'] += 1
                        if 'U' in seq:
                            stats['geom:sect_entry_peptide_keeps_an_earlier_U'] += 1
                    continue
                items.append((seq, e, h['tx'], sorted(set(idx))))
        # POSITIVE regression cases (corpus): truthful entries the unchanged tool prints for this input must still be
        # there.  Used where a seeded change has the same per-entry symptom as an open finding (C03-8 vs the
        # pair-half-named shape of D12, C03-9 vs C03-stoploss-header): the signature cannot tell them apart, the
        # disappearance of a known-good label can.  Entries are compared without their running index.
        for seq, ent in ev.case.get('expect_entries', []):
            have = set(_noidx(e) for e in ev.got.get(seq, []))
            stats['expected_entries_checked'] += 1
            if _noidx(ent) not in have:
                bad['expected-truthful-entry-missing'].append((seq, '%s (now: %s)' % (ent, ' '.join(sorted(have)) or 'peptide absent')))
        if entries:
            stats['nontrivial'] += 1
        if len(set(entries)) != len(entries) or not O.call('cv_entries_unique', entries):
            dup = [e for e, n in collections.Counter(entries).items() if n > 1]
            bad['duplicate-entry'].append(('', dup[0] if dup else '?'))
        by_tx = collections.defaultdict(list)
        for it in items:
            by_tx[it[2]].append(it)
        for tx_id, its in by_tx.items():
            oks = O.call('cv_witness', [ev.xs[tx_id], [[s, idx] for s, e, t, idx in its]])
            for (s, e, t, idx), ok in zip(its, oks):
                stats['witness_checked'] += 1
                if ok:
                    continue
                tag = classify_entry(ev, tx_id, ev.xs[tx_id], ev.recs[tx_id], s, idx)
                bad['not-a-witness:%s' % (tag or '')].append((s, e))
        by_tx_alt = collections.defaultdict(list)
        for it in alt_items:
            by_tx_alt[it[2]].append(it)
        for tx_id, its in by_tx_alt.items():
            oks = O.call('cv_witness_pos', [ev.xs[tx_id], [[s, idx, sect, w2f] for s, e, t, idx, sect, w2f in its]])
            for (s, e, t, idx, sect, w2f), ok in zip(its, oks):
                stats['witness_checked'] += 1
                stats['witness_checked_pos'] += 1
                if not ok:
                    tag = classify_alt_entry(ev, tx_id, ev.xs[tx_id], ev.recs[tx_id], s, idx, sect, w2f)
                    kind_ok = O.call('cv_witness_fl', [ev.xs[tx_id], [[s, idx, bool(sect), bool(w2f)]]])[0]
                    if kind_ok:
                        stats['pos_fails_where_kind_only_passed'] += 1
                    why = 'not-a-witness'
                    if not tag:
                        why = 'generated-id-position-wrong' if kind_ok else 'not-a-witness'
                        if any(s[i] != 'F' for i in w2f):
                            why = 'w2f-id-names-residue-that-is-not-F'
                    bad['%s:%s' % (why, tag or '')].append((s, e))
        for kind, lst in bad.items():
            tag = kind.split(':')[1] if ':' in kind else ''
            stats['bad:%s' % kind] += len(lst)
            v = {'what': 'header entry %r of peptide %s: %s (%d such in this run; %s, rule %s, exception %s)' % (
                     lst[0][1], lst[0][0], kind.split(':')[0], len(lst), ev.case.get('stream'), ev.run['rule'], ev.run['exc']),
                 'replay_obj': CK.replay_obj(ev, 'header', {'entries': [list(x) for x in lst[:10]], 'kind': kind}), 'no_input': False}
            if tag:
                v['finding'] = tag
            violations.append(v)

def run(ctx):
    stats = collections.Counter()
    violations = []
    corp = corpus_cases()
    if corp:
        rep, rep_ids = [], []
        for c in corp:
            if c.get('check') == 'ids':
                for r in c['runs']:
                    r['skip_oracle'] = True
                rep_ids += [c] * c.get('repeat', 1)
            else:
                rep += [c] * c.get('repeat', 1)
        judge(CK.run_batch(ctx, rep, want_may=False, tag='c03c'), violations, stats)
        if rep_ids:
            judge_ids(CK2.run_batch(ctx, rep_ids, want_may=False, tag='c03ci'), violations, stats)
        seen = set(); uniq = []
        for v in violations:
            k = (v.get('finding'), v['what'])
            if k not in seen:
                seen.add(k); uniq.append(v)
        violations = uniq
    cases = gen_cases(ctx)
    stream_wall = CK.run_streams(ctx, cases, judge, violations, stats, want_may=False, tag='c03')
    alt_cases = gen_alt_backbone_cases(ctx)
    groups = collections.OrderedDict()
    for c in alt_cases:
        groups.setdefault(c['stream'], []).append(c)
    for st, cs in groups.items():
        t0 = time.time()
        judge_ids(CK2.run_batch(ctx, cs, want_may=False, tag='c03a'), violations, stats)
        stream_wall[st] = round(time.time() - t0, 1)
    keep, cnt = [], collections.Counter()
    for v in violations:
        if v.get('finding'):
            cnt[v['finding']] += 1
            if cnt[v['finding']] > 40:
                continue
        keep.append(v)
    CK.annotate_stability(ctx, [v for v in keep if v.get('replay_obj', {}).get('what') != 'header-ids'], judge, want_may=False)
    samples = [dict(CK.strip_case(c), world='<omitted>') for c in cases[:3]]
    return dict(evaluations=stats['witness_checked'], distinct_nontrivial=stats['nontrivial'],
                rule='one evaluation = one (peptide, header entry) pair checked with the proved decider witness_ok (entries with generated SECT / W2F identifiers: witness_ok_pos, position exact); '
                     'non-trivial = number of runs whose FASTA has at least one entry',
                samples=samples, distribution=CK.dist_of(cases), stats=dict(stats),
                known_finding_counts=dict(cnt), index_restart_evidence=dict(RESTART_EVIDENCE), superfluous_id_distance_histogram={str(k): v for k, v in sorted(GAPS.items(), key=lambda kv: str(kv[0])) if isinstance(k, str)}, engine_tied_by='correspondence', stream_wall_s=stream_wall, violations=keep,
                assumptions=['records are SNV / MNV / INDEL on linear transcripts; fusion / circRNA backbones are not generated here (property partial for them)',
                             'SECT-n is mapped to its Sec codon with the generator\'s ground truth (gene -> transcript), W2F-i is read as the 1-based residue index of the printed peptide (measured: 2 699 / 2 699 entries)',
                             'the peptide table\'s header column is not read (the FASTA is assembled from it by the tool itself)'],
                trusted_base=['glue coq/Extract/Api_Spec.v, Api_SpecAlt.v, Api_SpecAltPos.v', 'header parser harness/lib/cvgen.py:parse_header',
                              'case generator harness/lib/cvgen.py and signature predicates'])

def replay(ctx, obj):
    c = obj['case']
    c['stream'] = obj.get('what', 'replay')
    n = int(obj.get('repeat', 4))
    stats = collections.Counter(); violations = []
    if obj.get('what') == 'header-ids':
        for r in c['runs']:
            r['skip_oracle'] = True
        import copy as _copy
        ctx2 = _copy.copy(ctx); ctx2.jobs = 2     # the output flickers between repeats: many repeats in FEW worker processes
        judge_ids(CK2.run_batch(ctx2, [json.loads(json.dumps(c)) for _ in range(max(n, 24))], want_may=False, tag='c03r'), violations, stats)
        seen = set(); out = []
        for v in violations:
            if v['what'] not in seen:
                seen.add(v['what']); out.append(v)
        return dict(violations=out)
    if obj.get('expect_entries'):
        c['expect_entries'] = obj['expect_entries']
    judge(CK.run_batch(ctx, [json.loads(json.dumps(c)) for _ in range(n)], want_may=False, tag='c03r'), violations, stats)
    seen = set(); out = []
    for v in violations:
        k = (v.get('finding'), v['what'])
        if k not in seen:
            seen.add(k); out.append(v)
    return dict(violations=out)
