"""C10 correspondence: model (extracted oracle) vs the repo's digestion code.

Streams
  sites   : find_all_enzymatic_cleave_sites            vs  Digest.sites           (all 35 rules + exception)
  cleave  : enzymatic_cleave (list, order, duplicates) vs  Digest.cleave_checked
  pool    : create_unique_peptide_pool (set)           vs  Digest.pool
  short   : exhaustive strings over each rule's own letters (thorough: length <= 5; quick: <= 3)
A disagreement is classified with the property's own statement (the declarative digest computed
in Python from the ExPASy table) to decide whether it is a violation with a failing input.
"""
import itertools, json
from harness.lib import oracle as O, impl as I, rules as R

PROPERTY = 'C10'

import sys as _sys, os as _os
_sys.path.insert(0, _os.path.join(_os.path.dirname(_os.path.dirname(_os.path.abspath(__file__))), 'translate'))
import expasy as _ex

CUSTOM_EXC = [r'K(?=E)', r'(?<=A)R', r'[KR](?=[DE])', r'(?<=[ST])K', r'(K(?=G))|((?<=P)R)', r'\w(?=W)',
              r'(?<=GG)[KR]', r'R(?=[^A])', r'(?<=M)[KR](?=\w)']

def exc_arg(e):
    """oracle encoding of an exception: None, a table name, or a raw regex in the translated fragment"""
    if isinstance(e, dict):
        alts = []
        for a in _ex.alternatives(e['regex']):
            b, c, f = _ex.parse_site_alt(a)
            enc = lambda x: ([2] if x[0] == 'word' else [0 if x[0] == 'in' else 1, list(x[1])])
            alts.append([[enc(x) for x in b], enc(c), [enc(x) for x in f]])
        return [-1, alts]
    return e

def exc_impl(e):
    return e['regex'] if isinstance(e, dict) else e

def pick_exc(rng, rule):
    x = rng.random()
    if x < 0.12:
        return {'regex': rng.choice(CUSTOM_EXC)}
    if rule == 'trypsin' and x < 0.65:
        return 'trypsin_exception'
    return None

def lim_of(rng, half=True):
    k = rng.choice([0, 1, 2, 2, 3])
    minlen = rng.choice([1, 5, 7, 7, 9])
    maxlen = rng.choice([10, 25, 25, 40])
    base = rng.choice([0, 300, 500, 500, 800])
    # threshold strictly between two representable 1e-4 grid points: no float boundary possible
    min_mw = base + rng.randrange(0, 1000) / 1000.0 + 0.00005
    mw4 = int(round((min_mw - 0.00005) * 10000))
    return dict(k=k, min_len=minlen, max_len=maxlen, min_mw=min_mw, mw4=mw4)

def gen_cases(ctx):
    rng = ctx.rng
    names = R.rule_names()
    n_sites = 1500 if ctx.quick else 20000
    n_cleave = 1200 if ctx.quick else 15000
    n_pool = 150 if ctx.quick else 2000
    n_tile = 300 if ctx.quick else 4000
    cases = []
    for i in range(n_sites):
        rule = names[i % len(names)]
        exc = pick_exc(rng, rule)
        s = R.gen_protein(rng, rule, rng.randint(0, 60), extra='UX*')
        if isinstance(exc, dict):
            s = ''.join(rng.choice('KREADGSTPMW') if rng.random() < 0.5 else ch for ch in s)
        cases.append(dict(kind='sites', rule=rule, exc=exc, seq=s))
    for i in range(n_sites // 2):
        rule = names[i % len(names)]
        exc = 'trypsin_exception' if (rule == 'trypsin' and rng.random() < 0.6) else None
        s = R.gen_protein(rng, rule, rng.randint(0, 50), extra='UX*', bias=0.75)
        cases.append(dict(kind='sites_range', rule=rule, exc=exc, seq=s))
    for i in range(n_sites // 2):
        rule = names[i % len(names)] if rng.random() < 0.7 else 'trypsin'
        exc = 'trypsin_exception' if (rule == 'trypsin' and rng.random() < 0.7) else None
        s = R.gen_protein(rng, rule, rng.randint(1, 40), extra='UX***', bias=0.7)
        if rng.random() < 0.15:
            s = '*' + s
        if rng.random() < 0.1:
            s = rng.choice(['*', 'K', '*K', 'K*', 'R*P'])
        given = None
        if rng.random() < 0.25:
            given = sorted(rng.sample(range(0, len(s) + 2), min(len(s) + 2, rng.randint(0, 4))))
        cases.append(dict(kind='aux', rule=rule, exc=exc, seq=s, given=given, start=rng.randint(0, len(s))))
    for i in range(n_cleave):
        rule = names[i % len(names)] if rng.random() < 0.6 else 'trypsin'
        exc = pick_exc(rng, rule)
        s = R.gen_protein(rng, rule, rng.randint(1, 120), extra='UX')
        if isinstance(exc, dict):
            s = ''.join(rng.choice('KREADGSTPMW') if rng.random() < 0.4 else ch for ch in s)
        if rng.random() < 0.5:
            s = 'M' + s
        c = dict(kind='cleave', rule=rule, exc=exc, seq=s, nf=rng.random() < 0.3)
        c.update(lim_of(rng))
        cases.append(c)
    for i in range(n_pool):
        rule = names[i % len(names)] if rng.random() < 0.5 else 'trypsin'
        exc = pick_exc(rng, rule)
        prots = []
        for _ in range(rng.randint(1, 12)):
            s = R.gen_protein(rng, rule, rng.randint(5, 200), extra='UX')
            if rng.random() < 0.7:
                s = 'M' + s
            if rng.random() < 0.15:
                s = 'X' * rng.randint(1, 3) + s
            if rng.random() < 0.3:
                p = rng.randint(0, len(s))
                s = s[:p] + '*' + s[p:]
            nf = rng.random() < 0.3
            known = rng.random() < 0.9
            prots.append([s, nf, known])
            # identical / near-identical proteins under other transcripts with other flags: digestion
            # depends on (sequence, cds_start_NF, known), so nothing may be shared between them
            if rng.random() < 0.35:
                s2 = s if rng.random() < 0.7 else (s[1:] if rng.random() < 0.5 else 'M' + s)
                prots.append([s2, rng.random() < 0.5, rng.random() < 0.9])
        if rng.random() < 0.5:
            rng.shuffle(prots)
        c = dict(kind='pool', rule=rule, exc=exc, prots=prots)
        c.update(lim_of(rng))
        cases.append(c)
    # CLI level: generateIndex + updateIndex + on-the-fly load_references on generated worlds
    from harness.lib import gen_reference as G
    n_cli = 24 if ctx.quick else 300
    for i in range(n_cli):
        world = G.gen_world(rng, small=True, coding_p=0.9, bias='KRKRPMWDEFLCHYCKD')
        params = []
        for j in range(rng.choice([1, 2, 3])):
            rule = 'trypsin' if rng.random() < 0.6 else rng.choice(names)
            exc = rng.choice(['auto', 'auto', 'trypsin_exception']) if rule == 'trypsin' else 'auto'
            ps = dict(rule=rule, exc=exc, k=rng.choice([0, 1, 2]), min_len=rng.choice([5, 7]), max_len=rng.choice([25, 30]),
                      min_mw=rng.choice([300, 500]) + 0.00005 + rng.randrange(100) / 100.0)
            if all((q['rule'], q['exc'], q['k'], q['min_len'], q['max_len'], q['min_mw']) !=
                   (ps['rule'], ps['exc'], ps['k'], ps['min_len'], ps['max_len'], ps['min_mw']) for q in params):
                params.append(ps)
        # proteome entries whose transcript is NOT in the GTF (digested by every path with cds_start_NF unknown = False)
        extra = []
        for j in range(rng.choice([0, 1, 2])):
            sq = 'M' + R.gen_protein(rng, 'trypsin', rng.randint(15, 80))
            extra.append(['ENSP9%010d.1' % (i * 10 + j), 'ENST9%010d.1' % (i * 10 + j), 'ENSG9%010d.1' % (i * 10 + j), sq])
        case = dict(kind='pool_cli', world=world, params=params, extra_prots=extra)
        if rng.random() < 0.3:
            # seeded change C10-8: generateIndex --force on a directory that holds pools of another proteome
            case['prior_world'] = G.gen_world(rng, small=True, coding_p=0.9, bias='KRKRPMWDEFLCHYCKD')
        cases.append(case)
    # exhaustive short strings over the rule's own letters (+ one neutral letter)
    maxlen = 3 if ctx.quick else 5
    for rule in names:
        letters = R.rule_letters(rule)
        if len(letters) > 8:
            letters = ''.join(ctx.rng.sample(letters, 8))
        alpha = letters + ('G' if 'G' not in letters else 'S')
        L = maxlen if len(alpha) <= 7 else maxlen - 1
        for n in range(1, L + 1):
            for tup in itertools.product(alpha, repeat=n):
                cases.append(dict(kind='sites', rule=rule, exc='trypsin_exception' if rule == 'trypsin' else None,
                                  seq=''.join(tup), short=True))
                cases.append(dict(kind='sites_range', rule=rule, exc='trypsin_exception' if rule == 'trypsin' else None,
                                  seq=''.join(tup), short=True))
    # tiling stream (theorem digest_pieces_tile_the_protein): no filter can reject a piece (k=0, no length / mass
    # limit, no X, no start-M clipping), so the implementation's peptides in order must concatenate to the protein
    for i in range(n_tile):
        rule = names[i % len(names)]
        exc = pick_exc(rng, rule)
        s = R.gen_protein(rng, rule, rng.randint(1, 150), extra='U').replace('X', 'A')
        cases.append(dict(kind='cleave', rule=rule, exc=exc, seq=s, nf=True, tile=True,
                          k=0, min_len=0, max_len=100000, min_mw=-0.99995, mw4=-10000))
    return cases

def resolved_exc(ps):
    """CleavageParams semantics the CLI documents: auto -> trypsin_exception for trypsin, else none"""
    if ps['exc'] == 'auto':
        return 'trypsin_exception' if ps['rule'] == 'trypsin' else None
    return ps['exc']

def world_proteins(world):
    from harness.lib import gen_reference as G
    out = []
    for gene in world['genes']:
        for tx in gene['transcripts']:
            if tx['cds']:
                out.append([G.protein_of(world, gene, tx), 'cds_start_NF' in tx['tags']])
    return out

def oracle_req(c):
    if c['kind'] == 'pool_cli':
        prots = world_proteins(c['world']) + [[e[3], False] for e in c.get('extra_prots', [])]
        reqs = []
        for ps in c['params']:
            mw4 = int(round((ps['min_mw'] - 0.00005) * 10000))
            reqs.append([ps['rule'], resolved_exc(ps), [ps['k'], mw4, ps['min_len'], ps['max_len']], prots])
        return ('pool_multi', reqs)
    if c['kind'] == 'sites':
        return ('sites', [c['rule'], exc_arg(c['exc']), c['seq']])
    if c['kind'] == 'sites_range':
        return ('sites_range', [c['rule'], c['exc'], c['seq']])
    if c['kind'] == 'aux':
        given = [] if c['given'] is None else [c['given']]
        a = [c['rule'], c['exc'], given, c['seq']]
        return ('c10_aux', [a, [c['rule'], c['exc'], c['start'], c['seq']], [c['exc'], c['seq']]])
    lim = [c['k'], c['mw4'], c['min_len'], c['max_len']]
    if c['kind'] == 'cleave':
        return ('cleave', [c['rule'], exc_arg(c['exc']), lim, c['nf'], c['seq']])
    if c['kind'] == 'pool':
        return ('pool', [c['rule'], exc_arg(c['exc']), lim, [[s, (nf and known)] for s, nf, known in c['prots']]])

def canon_model(c, m):
    if c['kind'] == 'sites':
        return m
    if c['kind'] == 'sites_range':
        return 'ValueError' if m[0] else m[1]
    if c['kind'] == 'aux':
        al, alr, first, first_cleave, exs = m
        out = {'all': al, 'all_range': 'ValueError' if alr[0] else alr[1], 'first': first,
               'first_cleave': first_cleave, 'exc_sites': exs}
        # find_first_cleave_or_stop_site_with_range: min over (first cleavage site with its range, first stop) by site
        return out
    if c['kind'] == 'pool_cli':
        pools = [('ValueError' if r else sorted(set(O.U(p) for p in ps))) for r, ps in m]
        return {'index': pools, 'fly': pools}
    raised, ps = m
    if raised:
        return 'ValueError'
    ps = [O.U(p) for p in ps]
    return ps if c['kind'] == 'cleave' else sorted(set(ps))

def canon_impl(c, r):
    if isinstance(r, dict) and '__exc__' in r:
        return r['__exc__']
    if c['kind'] == 'aux':
        r = dict(r)
        fr = r.pop('first_range')
        # first_range's site component must agree with 'first' unless the range pairing raised
        if fr != 'ValueError' and fr[0] != r['first']:
            r['first_range_site_mismatch'] = fr
        return r
    return r

def compare(ctx, cases):
    impl = I.run_cases('c10', cases, jobs=ctx.jobs, tag='c10')
    model = O.call_parallel([oracle_req(c) for c in cases], jobs=8)
    bad = []
    for c, r, m in zip(cases, impl, model):
        a, b = canon_impl(c, r), canon_model(c, m)
        if a != b:
            bad.append((c, a, b))
        elif c.get('tile') and isinstance(a, list) and ''.join(a) != c['seq']:
            bad.append((c, 'pieces concatenate to ' + ''.join(a), 'tiling theorem: ' + c['seq']))
        elif c['kind'] == 'cleave' and isinstance(a, list) and any(q not in c['seq'] for q in a):
            bad.append((c, 'product not a substring: %s' % [q for q in a if q not in c['seq']][:3],
                        'theorem digest_products_are_substrings_within_limits'))
        elif c['kind'] == 'pool' and isinstance(a, list):
            texts = [pr[0] for pr in c['prots']] + [pr[0].replace('I', 'L') for pr in c['prots']]
            stray = [q for q in a if '*' in q or not any(q in t for t in texts)]
            if stray:
                bad.append((c, 'pool member from no protein: %s' % stray[:3], 'theorem pool_members_are_protein_substrings'))
    return impl, model, bad

def run(ctx):
    cases = gen_cases(ctx)
    impl, model, bad = compare(ctx, cases)
    nontriv = set()
    dist = {}
    for c, r in zip(cases, impl):
        key = c['kind'] + ('/short' if c.get('short') else '')
        dist[key] = dist.get(key, 0) + 1
        if (isinstance(r, list) and len(r) > 0) or (isinstance(r, dict) and (r.get('all') or r.get('index'))):
            nontriv.add(json.dumps(c, sort_keys=True))
    violations = []
    for c, a, b in bad[:10]:
        violations.append({'what': 'C10 %s: implementation %s vs proved model %s on %s' % (
                               c['kind'], str(a)[:120], str(b)[:120], json.dumps(c)[:200]),
                           'replay_obj': {'kind': 'case', 'case': c, 'impl': a, 'model': b},
                           'no_input': False})
    samples = [cases[0], cases[len(cases) // 3], cases[-1]]
    return dict(evaluations=len(cases), distinct_nontrivial=len(nontriv),
                rule='generated proteins biased to each rule\'s letters (+U, X, *), all %d rules, trypsin_exception on/off, '
                     'limits grid; plus exhaustive strings up to length %d over each rule\'s letters; non-trivial = '
                     'implementation output non-empty; distinct by full case' % (len(R.rule_names()), 3 if ctx.quick else 5),
                samples=samples, distribution=dist, disagreements=len(bad), violations=violations,
                assumptions=['masses compared exactly (x1e4 integers) with thresholds placed off the 1e-4 grid, so no float-boundary case arises',
                             'sequences are upper-case ASCII; unknown exception names are treated as never matching'])

def replay(ctx, obj):
    c = obj['case']
    if obj.get('kind') == 'case_ref':
        ref = O.call('sites_ref', [c['rule'], c['exc'], c['seq']])
        a = I.run_cases('c10', [c], jobs=1, tag='c10r')[0]
        return dict(violations=[] if a == ref else [{'what': 'replay: impl %s vs reference %s' % (a, ref), 'replay_obj': obj, 'no_input': False}])
    impl, model, bad = compare(ctx, [c])
    v = []
    for c, a, b in bad:
        v.append({'what': 'replay: impl %s vs model %s' % (str(a)[:200], str(b)[:200]), 'replay_obj': obj, 'no_input': False})
    return dict(violations=v)

def search_failing_input(ctx, broken):
    """A C10 obligation no longer checks (typically: the rule table regenerated from
    expasy_rules.py differs from the ExPASy reference).  Search for a string on which the
    implementation's cleavage sites differ from the reference rule's sites."""
    import random, sys
    from harness.lib import py2coq_search
    if py2coq_search.is_code_obligation(broken):
        # code_enzymatic_cleave_is_model: the loops translated from the source differ from Digest.cleave_loop
        r = py2coq_search.first_disagreement(sys.modules[__name__], ctx, broken, kinds=('cleave',), budget=600)
        if r:
            return r
    rng = random.Random(ctx.seed)
    names = R.rule_names()
    cases = []
    for rule in names:
        letters = R.rule_letters(rule)
        alpha = (letters if len(letters) <= 7 else ''.join(rng.sample(letters, 7))) + 'G'
        for n in range(1, 5):
            for tup in itertools.product(alpha, repeat=n):
                cases.append(dict(kind='sites', rule=rule, exc='trypsin_exception' if rule == 'trypsin' else None, seq=''.join(tup)))
        for _ in range(400):
            cases.append(dict(kind='sites', rule=rule, exc=('trypsin_exception' if rule == 'trypsin' and rng.random() < .5 else None),
                              seq=R.gen_protein(rng, rule, rng.randint(3, 30), extra='UX*', bias=0.8)))
    try:
        ref = O.call_parallel([('sites_ref', [c['rule'], c['exc'], c['seq']]) for c in cases], jobs=8)
    except Exception:
        return None
    impl = I.run_cases('c10', cases, jobs=ctx.jobs, tag='c10s')
    for c, a, b in zip(cases, impl, ref):
        if a != b:
            return {'kind': 'case_ref', 'case': c, 'impl': a, 'reference': b,
                    'what': 'sites of %r under rule %r: implementation %s, ExPASy reference %s' % (c['seq'], c['rule'], a, b)}
    return None
