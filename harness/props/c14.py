"""C14 correspondence: parseVEP / parseREDItools vs the proved model (coq/Model/Vep.v).

Streams (one case = one generated reference world + the rows rendered for it):
  vep   : every event kind (SNV, deletion, two-position insertion, substitution >= 3, single-position
          insertion in end-/start-inclusive form; plus out-of-scope/malformed forms) x positions in windows
          around the first/last base of the gene and of the transcript, exon borders and interior points
          x lengths 1-6, as VEP tab lines through VEPParser.parse + VEPRecord.convert_to_variant_record
          AND through moPepGen.cli.parse_vep (GVF file compared record for record).
  redi  : REDItools table rows (positions x transcript lists x base counts / gCoverage around the
          thresholds) through REDItoolsParser.parse + get_valid_subs + convert_to_variant_records AND
          moPepGen.cli.parse_reditools.
Every accepted in-scope record is additionally checked against the property's own statement computed
in Python without the model (apply the event to the chromosome, re-extract the gene; exonic placement;
thresholds with exact fractions).
Two defects of the code are recognised by mechanism (signatures below) and reported with their finding id.
"""
import json, os, glob, copy
from fractions import Fraction
from harness.lib import oracle as O, impl as I, gen_reference as G

PROPERTY = 'C14'
ROOT = os.path.dirname(os.path.dirname(os.path.dirname(os.path.abspath(__file__))))
F_VEP = 'vep_ins_gene_start'    # end-inclusive insertion at gene position 0 wraps to the last base
F_D10 = 'D10'                   # REDItools: site outside the transcript is still emitted
TYPES = {0: 'SNV', 1: 'INDEL', 2: 'MNV'}
ERR = {1: 'ValueError', 2: 'TranscriptionStartSiteMutationError', 3: 'TranscriptionStopSiteMutationError', 4: 'IndexError'}

# ------------------------------------------------------------------ helpers
def tx_span(tx):
    return tx['exons'][0][0], tx['exons'][-1][1]

def find_gene(world, gid):
    return next(g for g in world['genes'] if g['id'] == gid)

def find_tx(world, tid):
    for g in world['genes']:
        for t in g['transcripts']:
            if t['id'] == tid:
                return g, t
    return None, None

def loc_str(chrom, a, b, force_range=False):
    return '%s:%d' % (chrom, a) if (a == b and not force_range) else '%s:%d-%d' % (chrom, a, b)

def rand_seq(rng, n, avoid_first=None, avoid_last=None):
    while True:
        s = ''.join(rng.choice('ACGT') for _ in range(n))
        if n and avoid_first and s[0] == avoid_first:
            continue
        if n and avoid_last and s[-1] == avoid_last:
            continue
        return s

# ------------------------------------------------------------------ worlds with overlapping genes
def add_overlapping_genes(rng, world, p_gene=0.7):
    """adds 1-2 non-coding genes whose span overlaps an existing gene of the world (same chromosome, either
    strand, different gene start), so that one genomic position can belong to transcripts of 2-3 genes.
    The chromosome sequence is untouched (the added genes carry no CDS)."""
    gid = max(int(g['id'][4:15]) for g in world['genes']) + 100
    added = []
    for base in list(world['genes']):
        if rng.random() > p_gene:
            continue
        n = len(world['chroms'][base['chrom']])
        for _ in range(rng.choice([1, 1, 2])):
            gid += 1
            lo = max(1, rng.randint(base['start'] - 60, base['end'] - 25))
            hi = min(n - 1, lo + rng.randint(50, 260))
            if lo == base['start']:
                lo += 1
            if hi - lo < 30 or min(hi, base['end']) - max(lo, base['start']) < 10:
                continue
            nb = rng.choice([1, 2, 3, 3, 4])
            cuts = sorted(rng.sample(range(lo + 6, hi - 6), min(2 * nb - 2, max(0, hi - lo - 14))))
            cuts = [c for i, c in enumerate(cuts) if i == 0 or c - cuts[i - 1] >= 3]
            if len(cuts) % 2:
                cuts = cuts[:-1]
            pts = [lo] + cuts + [hi]
            blocks = [[pts[i], pts[i + 1]] for i in range(0, len(pts), 2)]
            gene = {'id': 'ENSG%011d.%d' % (gid, rng.randint(1, 9)), 'name': 'OVL%d' % gid, 'chrom': base['chrom'],
                    'strand': rng.choice([1, -1]), 'biotype': 'lncRNA', 'transcripts': []}
            seen = set()
            for ti in range(rng.choice([1, 2, 2])):
                exons = [list(b) for b in blocks] if ti == 0 else [list(b) for b in blocks if rng.random() < 0.7] or [list(blocks[0])]
                key = tuple(map(tuple, exons))
                if key in seen:
                    continue
                seen.add(key)
                gene['transcripts'].append({'id': 'ENST%011d.%d' % (gid * 10 + ti, rng.randint(1, 9)), 'protein_id': None,
                                            'exons': exons, 'cds': None, 'frame': 0, 'tags': [], 'sec': [], 'utr': False,
                                            'biotype': 'lncRNA'})
            gene['start'] = min(t['exons'][0][0] for t in gene['transcripts'])
            gene['end'] = max(t['exons'][-1][1] for t in gene['transcripts'])
            added.append(gene)
    world['genes'] += added
    return world

def overlapping_groups(world):
    """[(chrom, lo, hi, [genes])] for every pair/triple of genes whose spans intersect"""
    out = []
    gs = world['genes']
    for i, a in enumerate(gs):
        for b in gs[i + 1:]:
            if a['chrom'] == b['chrom']:
                lo, hi = max(a['start'], b['start']), min(a['end'], b['end'])
                if lo < hi:
                    out.append((a['chrom'], lo, hi, [a, b]))
    return out

# ------------------------------------------------------------------ VEP generation
def vep_events(rng, world, gene, tx, npos, only_pts=None):
    """rows for one transcript; each row carries its own ground-truth event (p, q, s) genomic"""
    chrom = world['chroms'][gene['chrom']]
    n = len(chrom)
    gs, ge = gene['start'], gene['end']
    ts, te = tx_span(tx)
    pts = set()
    for b in (gs, ge, ts, te):
        pts.update(range(b - 8, b + 3))
    for s, e in tx['exons']:
        pts.update((s - 1, s, e - 1, e))
    pts = [p for p in pts if 1 <= p < n - 1]
    inner = [rng.randrange(max(1, gs), min(n - 1, ge)) for _ in range(6)]
    pts = sorted(set(pts))
    if len(pts) > npos:
        # always keep the boundary points themselves
        keep = {p for p in pts if any(abs(p - b) <= 1 for b in (gs, ge, ts, te))}
        rest = [p for p in pts if p not in keep]
        pts = sorted(keep | set(rng.sample(rest, max(0, npos - len(keep)))))
    pts = sorted(set(pts + inner))
    if only_pts is not None:
        pts = sorted(p for p in set(only_pts) if 1 <= p < n - 1)
    rows = []
    def add(kind, p, q, s, a, b, allele, scope=True, force_range=False):
        rows.append({'gene': gene['id'], 'tx': tx['id'], 'loc': loc_str(gene['chrom'], a, b, force_range),
                     'allele': allele, 'kind': kind, 'ev': [p, q, s], 'ab': [a, b], 'scope': scope})
    for p in pts:
        ref = chrom[p]
        # SNV
        alt = rng.choice([c for c in 'ACGT' if c != ref])
        add('snv', p, p + 1, alt, p + 1, p + 1, alt, force_range=rng.random() < 0.1)
        for L in range(1, 7):
            if p + L <= n:
                add('del', p, p + L, '', p + 1, p + L, '-')                       # deletion of L bases
            s = rand_seq(rng, L)
            add('ins', p, p, s, p, p + 1, s)                                       # insertion between p-1 and p
        for L in range(3, 7):
            if p + L <= n:
                for k in sorted({1, L, rng.randint(1, 6)}):
                    s = rand_seq(rng, k)
                    add('sub', p, p + L, s, p + 1, p + L, s)
        for L in (1, 2, 3, 6):
            # single-position forms: C -> xxC (end inclusive) and C -> Cxx (start inclusive)
            s = rand_seq(rng, L)
            add('ins_ei', p, p + 1, s + ref, p + 1, p + 1, s + ref)
            add('ins_si', p, p + 1, ref + s, p + 1, p + 1, ref + s)
        # out of scope / malformed forms (compared with the model only)
        s = rand_seq(rng, rng.randint(2, 4), avoid_first=ref, avoid_last=ref)
        add('delins1', p, p + 1, s, p + 1, p + 1, s, scope=False)
        if p + 2 <= n:
            s = rand_seq(rng, 2)
            add('sub2', p, p + 2, s, p + 1, p + 2, s, scope=False)
        if rng.random() < 0.3:
            add('backward', p, p, 'A', p + 1, p, rng.choice(['A', '-', 'ACG']), scope=False)
            add('backward', p, p, 'A', p + 3, p, rng.choice(['A', '-', 'ACG']), scope=False)
    return rows

def vep_shared_events(rng, world, per_group=5):
    """one genomic location overlapping two genes: VEP writes one row per (gene, transcript) with the same
    Location / Allele; every row must be converted in its own gene's coordinates"""
    rows = []
    for chrom, lo, hi, genes in overlapping_groups(world):
        pts = {lo, lo + 1, hi - 2, hi - 1} | {rng.randrange(lo, hi) for _ in range(per_group)}
        base = vep_events(rng, world, genes[0], genes[0]['transcripts'][0], 0, only_pts=pts)
        base = [r for r in base if r['kind'] in ('snv', 'del', 'ins', 'sub', 'ins_ei', 'ins_si')]
        if len(base) > 60:
            base = rng.sample(base, 60)
        for r in base:
            for g in genes:
                for t in g['transcripts']:
                    rows.append(dict(r, gene=g['id'], tx=t['id'], shared=True))
    return rows

def vep_model_req(fix, world, gene, tx, rows):
    chrom = world['chroms'][gene['chrom']]
    ts, te = tx_span(tx)
    evs = [[r['ab'][0], r['ab'][1], r['allele'] != '-', '' if r['allele'] == '-' else r['allele']] for r in rows]
    return ('c14_vep', [fix, gene['strand'], gene['start'], gene['end'], ts, te, 'cds_start_NF' in tx['tags'], chrom, evs])

def vep_expected(world, row, m):
    """model reply -> what the implementation must return for this row"""
    if m[0] != 0:
        return ERR[m[0]]
    gene = find_gene(world, row['gene'])
    _, st, en, ref, alt, ty = m
    ref, alt = O.U(ref), O.U(alt)
    return {'gene': row['gene'], 'start': st, 'end': en, 'ref': ref, 'alt': alt, 'type': TYPES[ty],
            'id': '%s-%d-%s-%s' % (TYPES[ty], st + 1, ref, alt),
            'attrs': {'TRANSCRIPT_ID': row['tx'], 'GENOMIC_POSITION': row['loc'], 'GENE_SYMBOL': gene['name']}}

def canon_lib(r):
    if isinstance(r, dict) and '__exc__' in r:
        return r['__exc__']
    return {k: r[k] for k in ('gene', 'start', 'end', 'ref', 'alt', 'type', 'id', 'attrs')}

def gvf_of_expected(e):
    return {'gene': e['gene'], 'pos': e['start'] + 1, 'id': e['id'], 'ref': e['ref'], 'alt': e['alt'],
            'info': dict(e['attrs'])}

def gvf_key(x):
    return json.dumps(x, sort_keys=True)

# ------------------------------------------------------------------ declarative checks (no model)
def vep_declarative(world, row, rec):
    """the property's own statement on one accepted in-scope record; returns None or a reason"""
    gene = find_gene(world, row['gene'])
    _, tx = find_tx(world, row['tx'])
    chrom = world['chroms'][gene['chrom']]
    p, q, s = row['ev']
    gseq = G.gene_seq(world, gene)
    st, en, ref, alt = rec['start'], rec['end'], rec['ref'], rec['alt']
    tg, _ = find_tx(world, rec['attrs'].get('TRANSCRIPT_ID'))
    if rec['attrs'].get('TRANSCRIPT_ID') != row['tx'] or tg is None or rec['gene'] != tg['id'] or rec['gene'] != row['gene']:
        return 'CHROM %s / TRANSCRIPT_ID %s are not the gene and transcript of the VEP row (%s, %s)' % (
            rec['gene'], rec['attrs'].get('TRANSCRIPT_ID'), row['gene'], row['tx'])
    if st < 0 or en > len(gseq) or en - st != len(ref):
        return 'record location [%d,%d) is not a range of the gene of length |REF|' % (st, en)
    if gseq[st:st + len(ref)] != ref:
        return 'REF %s differs from the gene sequence %s at its position' % (ref, gseq[st:st + len(ref)])
    w2 = {'chroms': {gene['chrom']: chrom[:p] + s + chrom[q:]}}
    g2 = dict(gene, end=gene['end'] + len(s) - (q - p))
    want = G.gene_seq(w2, g2)
    got = gseq[:st] + alt + gseq[en:]
    if want != got:
        return 'applying the record to the gene does not give the gene re-extracted from the edited chromosome'
    return None

def vep_footprint(world, row):
    gene = find_gene(world, row['gene'])
    _, tx = find_tx(world, row['tx'])
    ts, te = tx_span(tx)
    p, q, s = row['ev']
    lo, hi = (p - 1, p + 1) if p == q else (p, q)
    first = ts if gene['strand'] == 1 else te - 1      # first transcribed base
    return gene, tx, ts, te, lo, hi, first

def vep_must_reject(world, row):
    """events whose footprint (for an insertion: its two flanking bases) is not inside the transcript, or
    contains the first transcribed base of a transcript without cds_start_NF"""
    gene, tx, ts, te, lo, hi, first = vep_footprint(world, row)
    return lo < ts or hi > te or (lo <= first < hi and 'cds_start_NF' not in tx['tags'])

def vep_must_accept(world, row):
    """the four kinds of the property, inside the transcript and not touching its first base: a record is due"""
    if row['kind'] not in ('snv', 'del', 'ins', 'sub'):
        return False
    gene, tx, ts, te, lo, hi, first = vep_footprint(world, row)
    return ts <= lo and hi <= te and not (lo <= first < hi)

def sig_vep_ins_gene_start(world, row, rec):
    """mechanism of finding vep_ins_gene_start: single-position allele ending in the reference base, placed on the
    first base of the gene (gene coordinate 0) -> the anchor index -1 wraps around"""
    if row['kind'] not in ('ins_ei', 'ins_si') or not isinstance(rec, dict) or '__exc__' in rec:
        return False
    gene = find_gene(world, row['gene'])
    return G.g2gene(gene, row['ev'][0]) == 0 and rec.get('start') == -1

# ------------------------------------------------------------------ REDItools generation
THR_FREQ = [(1, 10), (1, 4), (1, 2), (1, 8), (3, 10), (1, 20), (0, 1), (1, 1), (2, 3)]

def redi_case(rng, world, err_stream=False):
    fn, fd = rng.choice(THR_FREQ)
    thr = {'alt': rng.choice([0, 1, 2, 3, 3, 5]), 'fnum': fn, 'fden': fd, 'freq': fn / fd,
           'rna': rng.choice([1, 5, 10, 10, 12]), 'dna': rng.choice([-1, 0, 5, 10, 10])}
    rows = []
    all_tx = [(g, t) for g in world['genes'] for t in g['transcripts']]
    for gene in world['genes']:
        chrom = world['chroms'][gene['chrom']]
        pts = set(range(gene['start'] - (2 if err_stream else 0), gene['start'] + 3))
        pts.update(range(gene['end'] - 3, gene['end'] + (2 if err_stream else 0)))
        for t in gene['transcripts']:
            for s, e in t['exons']:
                pts.update((s - 1, s, e - 1, e))
        pts.update(rng.randrange(gene['start'], gene['end']) for _ in range(8))
        pts = [p for p in pts if 0 <= p < len(chrom)]
        for p in sorted(pts):
            # transcripts (of ANY gene on this chromosome) whose range contains the site: what AnnotateTable lists
            inside = [(g, t) for g, t in all_tx if g['chrom'] == gene['chrom'] and tx_span(t)[0] <= p < tx_span(t)[1]]
            outside = [(g, t) for g, t in all_tx if (g, t) not in inside]
            if not err_stream and not inside:
                continue
            ref = chrom[p]
            k = rng.randint(1, 3)
            alts = rng.sample([c for c in 'ACGT' if c != ref], k)
            total = rng.choice([thr['rna'] - 1, thr['rna'], thr['rna'] + 1, rng.randint(1, 40), 2 * thr['rna'] + 8, 40, 40])
            total = max(1, total)
            counts = dict.fromkeys('ACGT', 0)
            left = total
            for a in alts:
                # aim at the coverage / frequency boundaries
                target = rng.choice([thr['alt'] - 1, thr['alt'], thr['alt'] + 1,
                                     (fn * total) // fd, (fn * total) // fd + 1, -(-fn * total // fd) - 1, rng.randint(0, total)])
                c = max(0, min(left, target))
                counts[a] = c
                left -= c
            counts[ref] += left
            g = rng.choice(['-', '-1', str(thr['dna'] - 1), str(thr['dna']), str(thr['dna'] + 1), '30', '30', '30'])
            pool = list(inside)
            rng.shuffle(pool)                       # any order: genes interleaved
            pool = pool[:rng.randint(1, len(pool))] if pool else []
            if len(pool) > 1 and rng.random() < 0.5:
                pool.sort(key=lambda gt: rng.random() + (0 if gt[0] is gene else 1) * rng.choice([-1, 1]))
            entries = [t['id'] + '-' + rng.choice(['transcript', 'transcript', 'transcript', 'transcript', 'exon', 'CDS']) for _, t in pool]
            if err_stream and outside and (not entries or rng.random() < 0.4):
                entries.insert(rng.randint(0, len(entries)), rng.choice(outside)[1]['id'] + '-transcript')
            if not entries:
                continue
            seps = rng.choice([',', '&', '$'])
            txcol = seps.join(entries) + rng.choice(['', '', ',', '&', '$'])
            rows.append({'chrom': gene['chrom'], 'pos': p + 1, 'ref': ref, 'counts': [counts[c] for c in 'ACGT'],
                         'subs': ' '.join(ref + a for a in alts), 'gcov': g, 'txcol': txcol})
    rng.shuffle(rows)
    return {'thr': thr, 'rows': rows, 'col': 17}

def redi_entries(row):
    import re
    data = re.split(r',|&|\$', re.sub('[,&$]$', '', row['txcol']))
    return [tuple(x.split('-')) for x in data]

def redi_model_req(mode, world, rd):
    thr = rd['thr']
    rows = []
    for r in rd['rows']:
        txs = []
        for k, ent in enumerate(redi_entries(r)):
            if len(ent) == 2 and ent[1] == 'transcript':
                g, t = find_tx(world, ent[0])
                txs.append([k, [g['strand'], g['start'], g['end']], [list(e) for e in t['exons']]])
        gc = [] if r['gcov'] == '-' else [int(r['gcov'])]
        rows.append([[r['pos'], r['counts'], [[ord(s[0]), ord(s[1])] for s in r['subs'].split(' ')], gc], txs])
    return ('c14_redi', [mode, [thr['alt'], thr['fnum'], thr['fden'], thr['rna'], thr['dna']], rows])

def redi_expected(world, row, m):
    if m[0] != 0:
        return {1: 'ValueError', 4: 'LookupError'}[m[0]]
    ents = redi_entries(row)
    out = []
    for k, pos, rf, al in m[1]:
        tid = ents[k][0]
        g, t = find_tx(world, tid)
        rf, al = chr(rf), chr(al)
        out.append({'gene': g['id'], 'start': pos, 'end': pos + 1, 'ref': rf, 'alt': al, 'type': 'RNAEditingSite',
                    'id': 'RES-%d-%s-%s' % (pos + 1, rf, al),
                    'attrs': {'TRANSCRIPT_ID': tid, 'GENOMIC_POSITION': '%s:%d' % (row['chrom'], row['pos']), 'STRAND': str(g['strand'])}})
    return out

def canon_redi_lib(r):
    if isinstance(r, dict) and '__exc__' in r:
        return 'LookupError' if r['__exc__'] in ('KeyError', 'IndexError', 'ZeroDivisionError') else r['__exc__']
    return [canon_lib(x) for x in r]

def redi_declarative(world, rd, row, recs):
    """placement + thresholds, computed independently with exact fractions.  returns (reason, d10?)"""
    thr = rd['thr']
    total = sum(row['counts'])
    ok_site = total >= thr['rna'] and (row['gcov'] == '-1' or (row['gcov'] != '-' and int(row['gcov']) >= thr['dna']))
    valid = []
    for s in row['subs'].split(' '):
        rc = row['counts']['ACGT'.index(s[1])]
        if ok_site and rc >= thr['alt'] and Fraction(rc, total) >= Fraction(thr['fnum'], thr['fden']):
            valid.append(s)
    want = []
    for ent in redi_entries(row):
        if len(ent) == 2 and ent[1] == 'transcript':
            g, t = find_tx(world, ent[0])
            if G.g2tx(g, t, row['pos'] - 1) is not None:
                for s in valid:
                    want.append((ent[0], g['id'], G.g2gene(g, row['pos'] - 1), s[0], s[1]))
    got = [(r['attrs']['TRANSCRIPT_ID'], r['gene'], r['start'], r['ref'], r['alt']) for r in recs]
    # every record by itself: CHROM (gene id), POS and TRANSCRIPT_ID must be mutually consistent with the genomic site
    for r in recs:
        tg, tt = find_tx(world, r['attrs'].get('TRANSCRIPT_ID'))
        if tg is None or r['gene'] != tg['id']:
            return 'record %s: CHROM %s is not the gene of TRANSCRIPT_ID %s' % (r['id'], r['gene'], r['attrs'].get('TRANSCRIPT_ID')), False
        if not (tg['start'] <= row['pos'] - 1 < tg['end']) or r['start'] != G.g2gene(tg, row['pos'] - 1) or r['end'] != r['start'] + 1:
            return 'record %s: POS %d is not the position of %s:%d in gene %s' % (r['id'], r['start'] + 1, row['chrom'], row['pos'], r['gene']), False
        if r['attrs'].get('GENOMIC_POSITION') != '%s:%d' % (row['chrom'], row['pos']) or r['attrs'].get('STRAND') != str(tg['strand']):
            return 'record %s: GENOMIC_POSITION/STRAND attributes do not describe the site' % r['id'], False
    if sorted(got) == sorted(want):
        return None, False
    extra = [x for x in got if x not in want]
    missing = [x for x in want if x not in got]
    d10 = False
    if extra and not missing:
        d10 = True
        for tid, gid_, pos, rf, al in extra:
            g, t = find_tx(world, tid)
            ts, te = tx_span(t)
            # mechanism of D10: the site lies outside the transcript's range (not in an intron) but inside the gene
            if ts <= row['pos'] - 1 < te or (rf + al) not in valid or pos != G.g2gene(g, row['pos'] - 1):
                d10 = False
    return 'emitted %s, the statement demands %s' % (sorted(got), sorted(want)), d10

# ------------------------------------------------------------------ probes for the two defects
def probe_world():
    chrom = 'GATTACAGGCCTTAACCGGTTACGTACGATCGATCGGCTAGCTAACGTTAGCCGATTACAGCATCGGATCCA'
    g1 = {'id': 'ENSG00000000001.1', 'name': 'G1', 'chrom': 'chr1', 'strand': 1, 'biotype': 'protein_coding', 'start': 10, 'end': 60,
          'transcripts': [
              {'id': 'ENST00000000011.1', 'protein_id': 'ENSP00000000011.1', 'exons': [[10, 30], [40, 60]], 'cds': [0, 30], 'frame': 0,
               'tags': ['cds_start_NF'], 'sec': [], 'utr': False, 'biotype': 'protein_coding', 'cds_feature_start': 0},
              {'id': 'ENST00000000012.1', 'protein_id': None, 'exons': [[20, 30], [40, 50]], 'cds': None, 'frame': 0,
               'tags': [], 'sec': [], 'utr': False, 'biotype': 'processed_transcript'}]}
    return {'chroms': {'chr1': chrom}, 'genes': [g1]}

def probe_case():
    w = probe_world()
    g = w['genes'][0]
    c0 = w['chroms']['chr1'][10]
    vep = [{'gene': g['id'], 'tx': 'ENST00000000011.1', 'loc': 'chr1:11', 'allele': ('TT' if c0 != 'T' else 'AA') + c0,
            'kind': 'ins_ei', 'ev': [10, 11, ('TT' if c0 != 'T' else 'AA') + c0], 'ab': [11, 11], 'scope': True}]
    redi = {'thr': {'alt': 1, 'fnum': 1, 'fden': 10, 'freq': 0.1, 'rna': 1, 'dna': -1}, 'col': 17,
            'rows': [{'chrom': 'chr1', 'pos': 13, 'ref': w['chroms']['chr1'][12], 'counts': [5, 5, 5, 5],
                      'subs': w['chroms']['chr1'][12] + ('G' if w['chroms']['chr1'][12] != 'G' else 'A'), 'gcov': '-1',
                      'txcol': 'ENST00000000012.1-transcript'}]}
    return {'world': w, 'vep': vep, 'redi': redi, 'cli': True, 'probe': True}

def run_probe(ctx):
    c = probe_case()
    r = I.run_cases('c14', [c], jobs=1, tag='c14p')[0]
    fix = True
    v = r['vep_lib'][0]
    if isinstance(v, dict) and v.get('start') == -1:
        fix = False
    lib = r['redi_lib'][0]
    if isinstance(lib, dict) and '__exc__' in lib:
        mode = 1
    elif lib == []:
        mode = 2
    else:
        mode = 0
    return fix, mode, c, r

# ------------------------------------------------------------------ evaluate cases
def evaluate(ctx, cases, fix, mode):
    """returns (violations, stats)"""
    impl = I.run_cases('c14', cases, jobs=ctx.jobs, tag='c14')
    reqs, index = [], []
    for ci, c in enumerate(cases):
        w = c['world']
        if c.get('vep') is not None:
            groups = {}
            for ri, r in enumerate(c['vep']):
                groups.setdefault((r['gene'], r['tx']), []).append(ri)
            for (gid, tid), ris in groups.items():
                gene = find_gene(w, gid)
                _, tx = find_tx(w, tid)
                reqs.append(vep_model_req(fix, w, gene, tx, [c['vep'][i] for i in ris]))
                index.append(('vep', ci, ris))
        if c.get('redi') is not None:
            reqs.append(redi_model_req(mode, w, c['redi']))
            index.append(('redi', ci, None))
    model = O.call_parallel(reqs, jobs=8)
    st = {'evaluations': 0, 'nontrivial': set(), 'dist': {}, 'disagreements': 0, 'declarative_checked': 0}
    viol, seen_find, seen_corr = [], {}, {}
    def bump(k):
        st['dist'][k] = st['dist'].get(k, 0) + 1
    def report(what, case, focus, finding=None, no_input=False, corr=None):
        if no_input:
            corr = corr or 'corr:C14/' + ('convert_to_variant_records' if focus and focus[0] == 'redi' else 'convert_to_variant_record')
            if corr in seen_corr:
                seen_corr[corr] += 1
                return
            seen_corr[corr] = 1
            viol.append({'what': what, 'no_input': True,
                         'replay_obj': {'kind': 'correspondence', 'name': corr, 'example': shrink_case(case, focus), 'fix': fix, 'mode': mode}})
            return
        if finding:
            if finding in seen_find:
                seen_find[finding] += 1
                return
            seen_find[finding] = 1
        if sum(1 for v in viol if not v['no_input']) >= 10:
            return
        small = shrink_case(case, focus)
        v = {'what': what, 'replay_obj': {'kind': 'case', 'case': small, 'fix': fix, 'mode': mode}, 'no_input': no_input}
        if finding:
            v['finding'] = finding
        viol.append(v)
    vep_expect = {}
    for (kind, ci, ris), m in zip(index, model):
        c, r = cases[ci], impl[ci]
        w = c['world']
        if isinstance(r, dict) and '__exc__' in r:
            report('implementation worker failed on a generated world: %s %s' % (r['__exc__'], r.get('msg')), c, None, no_input=True)
            continue
        if kind == 'vep':
            for ri, mm in zip(ris, m):
                row = c['vep'][ri]
                st['evaluations'] += 1
                exp = vep_expected(w, row, mm)
                vep_expect.setdefault(ci, {})[ri] = exp
                got = canon_lib(r['vep_lib'][ri])
                gene = find_gene(w, row['gene'])
                if row.get('shared'):
                    bump('vep_shared_location/%s' % ('accepted' if isinstance(got, dict) else got))
                bump('vep/%s/%s/%s' % (row['kind'], '+' if gene['strand'] == 1 else '-', 'accepted' if isinstance(got, dict) else got))
                if isinstance(got, dict):
                    st['nontrivial'].add((ci, ri))
                agree = (got == exp)
                # the property's own statement on the implementation's output
                reason = None
                if row['scope']:
                    st['declarative_checked'] += 1
                    if isinstance(got, dict):
                        reason = vep_declarative(w, row, got)
                    if reason is None and vep_must_reject(w, row) and isinstance(got, dict):
                        reason = 'event touches/leaves the transcript boundary but a record was emitted'
                    if reason is None and vep_must_accept(w, row) and not isinstance(got, dict):
                        reason = 'a supported event inside the transcript is rejected (%s): the reported variant is lost' % got
                if reason:
                    fid = F_VEP if sig_vep_ins_gene_start(w, row, r['vep_lib'][ri]) else None
                    report('parseVEP %s %s allele %s on %s (%s strand): %s; emitted %s' % (
                        row['kind'], row['loc'], row['allele'], row['tx'], gene['strand'], reason, json.dumps(got)[:200]),
                        c, ('vep', ri), finding=fid)
                elif not agree:
                    st['disagreements'] += 1
                    report('parseVEP differs from the proved model on %s %s allele %s (%s): implementation %s, model %s; the '
                           'declarative statement holds on this output' % (row['kind'], row['loc'], row['allele'], row['tx'],
                           json.dumps(got)[:160], json.dumps(exp)[:160]), c, ('vep', ri), no_input=True)
        else:
            rd = c['redi']
            if 'redi_parse' in r:
                report('REDItoolsParser.parse failed on a generated table: %s' % r['redi_parse'], c, None, no_input=True)
                continue
            exp_all = []
            any_err = False
            for ri, mm in enumerate(m):
                row = rd['rows'][ri]
                st['evaluations'] += 1
                exp = redi_expected(w, row, mm)
                got = canon_redi_lib(r['redi_lib'][ri])
                bump('redi/%s' % ('error' if isinstance(got, str) else ('emitted' if got else 'none')))
                ng = len({find_tx(w, e[0])[0]['id'] for e in redi_entries(row) if len(e) == 2 and e[1] == 'transcript' and find_tx(w, e[0])[0]})
                bump('redi_genes_in_row/%d' % ng)
                if isinstance(got, list) and len({x['gene'] for x in got}) > 1:
                    bump('redi_rows_emitting_for_2plus_genes')
                if isinstance(got, list) and got:
                    st['nontrivial'].add((ci, 'r', ri))
                reason, d10 = (None, False)
                if isinstance(got, list):
                    st['declarative_checked'] += 1
                    reason, d10 = redi_declarative(w, rd, row, got)
                if isinstance(exp, str):
                    any_err = True
                else:
                    exp_all += exp
                if reason:
                    report('parseREDItools %s:%d [%s] thresholds %s: %s' % (row['chrom'], row['pos'], row['txcol'],
                           json.dumps(rd['thr']), reason[:300]), c, ('redi', ri), finding=F_D10 if d10 else None)
                elif got != exp:
                    st['disagreements'] += 1
                    report('parseREDItools differs from the proved model on %s:%d [%s]: implementation %s, model %s' % (
                        row['chrom'], row['pos'], row['txcol'], json.dumps(got)[:160], json.dumps(exp)[:160]),
                        c, ('redi', ri), no_input=not isinstance(got, str) and not isinstance(exp, str))
            if 'redi_cli' in r:
                cli = r['redi_cli']
                st['evaluations'] += 1
                if any_err:
                    ok = isinstance(cli, dict) and '__exc__' in cli
                elif not exp_all:
                    ok = cli is None
                else:
                    ok = isinstance(cli, list) and sorted(map(gvf_key, cli)) == sorted(gvf_key(gvf_of_expected(e)) for e in exp_all)
                bump('redi_cli/%s' % ('ok' if ok else 'diff'))
                if not ok:
                    st['disagreements'] += 1
                    report('moPepGen.cli.parse_reditools output differs from the records the model accepts: %s vs %d expected records' % (
                        json.dumps(cli)[:200], len(exp_all)), c, ('redi', None), no_input=False)
    # VEP CLI: the GVF must contain exactly the accepted records
    for ci, exps in vep_expect.items():
        c, r = cases[ci], impl[ci]
        if 'vep_cli' not in r:
            continue
        st['evaluations'] += 1
        want = sorted(gvf_key(gvf_of_expected(e)) for e in exps.values() if isinstance(e, dict))
        cli = r['vep_cli']
        ok = isinstance(cli, list) and sorted(map(gvf_key, cli)) == want
        hard = any(e in ('ValueError', 'IndexError') for e in exps.values())
        strict = r['vep_cli_strict']
        ok2 = (isinstance(strict, dict) and strict.get('__exc__') in ('ValueError', 'IndexError')) if hard else \
              (isinstance(strict, list) and sorted(map(gvf_key, strict)) == want)
        bump('vep_cli/%s' % ('ok' if ok and ok2 else 'diff'))
        if not (ok and ok2):
            # a CLI difference that is only the consequence of a library-level finding is already reported
            lib_ok = all(canon_lib(r['vep_lib'][ri]) == e for ri, e in exps.items())
            if lib_ok:
                st['disagreements'] += 1
                report('moPepGen.cli.parse_vep GVF differs from the records the model accepts (skip_failed: %s, strict: %s)' % (
                    'ok' if ok else json.dumps(cli)[:200], 'ok' if ok2 else json.dumps(strict)[:200]), c, ('vepcli', None))
    st['finding_hits'] = seen_find
    st['correspondence_breaks'] = seen_corr
    viol.sort(key=lambda v: v['no_input'])
    return viol, st

def shrink_case(case, focus):
    """keep only the focused row (the world stays: it is small)"""
    c = {'world': case['world'], 'cli': case.get('cli', True)}
    if focus is None:
        return case
    kind, i = focus
    if kind == 'vep':
        c['vep'] = [case['vep'][i]]
    elif kind == 'vepcli':
        c['vep'] = case['vep']
    elif kind == 'redi':
        rd = dict(case['redi'])
        if i is not None:
            rd['rows'] = [rd['rows'][i]]
        c['redi'] = rd
    return c

# ------------------------------------------------------------------ driver
def gen_cases(ctx):
    rng = ctx.rng
    n_world = 60 if ctx.quick else 400
    npos = 30 if ctx.quick else 80
    cases = []
    for wi in range(n_world):
        w = G.gen_world(rng, small=True, n_chrom=1, max_genes=3, nf_p=0.35)
        if wi % 2 == 1:
            add_overlapping_genes(rng, w)
        rows = vep_shared_events(rng, w)
        for gene in w['genes']:
            txs = gene['transcripts']
            for tx in (txs if not ctx.quick else rng.sample(txs, min(2, len(txs)))):
                rows += vep_events(rng, w, gene, tx, npos)
        cases.append({'world': w, 'vep': rows, 'cli': True})
        for _ in range(3):
            cases.append({'world': w, 'redi': redi_case(rng, w), 'cli': True})
        if wi % 3 == 0:
            cases.append({'world': w, 'redi': redi_case(rng, w, err_stream=True), 'cli': True, 'malformed': True})
    return cases

def corpus_cases():
    out = []
    for f in sorted(glob.glob(os.path.join(ROOT, 'corpus', 'C14', '*.json'))):
        try:
            obj = json.load(open(f))
            out.append((os.path.basename(f), obj))
        except Exception:   # noqa
            pass
    return out

def run(ctx):
    fix, mode, pc, pr = run_probe(ctx)
    violations = []
    if not fix:
        row = pc['vep'][0]
        violations.append({'what': 'parseVEP: an insertion written in the end-inclusive single-position form on the first base of a gene '
                                   '(cds_start_NF transcript) is emitted at gene position -1 with REF = the LAST base of the gene: %s' %
                                   json.dumps(canon_lib(pr['vep_lib'][0]))[:200],
                           'replay_obj': {'kind': 'case', 'case': shrink_case(pc, ('vep', 0))}, 'no_input': False, 'finding': F_VEP})
    if mode == 0:
        violations.append({'what': 'parseREDItools (D10): a site outside the transcript (inside the gene) is emitted for that transcript: %s' %
                                   json.dumps(canon_redi_lib(pr['redi_lib'][0]))[:200],
                           'replay_obj': {'kind': 'case', 'case': shrink_case(pc, ('redi', 0))}, 'no_input': False, 'finding': F_D10})
    cases = []
    for name, obj in corpus_cases():
        if obj.get('kind') == 'case':
            cases.append(obj['case'])
    n_corpus = len(cases)
    cases += gen_cases(ctx)
    viol, st = evaluate(ctx, cases, fix, mode)
    have = {v.get('finding') for v in violations}
    violations += [v for v in viol if not (v.get('finding') and v['finding'] in have)]
    n_vep = sum(len(c.get('vep') or []) for c in cases)
    n_redi = sum(len(c['redi']['rows']) for c in cases if c.get('redi'))
    sample = []
    for c in cases[n_corpus:n_corpus + 2]:
        if c.get('vep'):
            sample += [{k: r[k] for k in ('tx', 'loc', 'allele', 'kind')} for r in c['vep'][:3]]
        if c.get('redi'):
            sample += c['redi']['rows'][:2]
    return dict(
        evaluations=st['evaluations'], distinct_nontrivial=len(st['nontrivial']),
        rule='one evaluation = one VEP row / REDItools row through the parser classes (plus one per CLI run); non-trivial = the '
             'implementation emitted at least one record for the row; rows are distinct by construction (world, transcript, '
             'location, allele)',
        samples=sample, distribution=dict(sorted(st['dist'].items())), disagreements=st['disagreements'],
        declarative_checked=st['declarative_checked'], vep_rows=n_vep, redi_rows=n_redi, corpus_cases=n_corpus,
        model_variant={'vep_fix_present': fix, 'redi_mode': mode}, finding_hits=st['finding_hits'],
        correspondence_breaks=st['correspondence_breaks'],
        violations=violations,
        assumptions=['genome letters are A/C/G/T (complement of any other letter is modelled as itself)',
                     'min_frequency_alt is a decimal literal p/q with small q and base counts < 10^6, so the float comparison '
                     'read_count/total < threshold agrees with the exact rational comparison of the model',
                     'location strings are well-formed integers; gene and transcript ids exist in the annotation'],
        trusted_base=['harness/lib/gen_reference.py ground truth (gene_seq, g2gene, g2tx) used by the declarative checks',
                      'rendering of events as VEP lines / REDItools rows in harness/props/c14.py'])

def replay(ctx, obj):
    c = obj['case'] if 'case' in obj else obj['example']
    fix, mode, _, _ = run_probe(ctx)
    viol, st = evaluate(ctx, [c], fix, mode)
    return dict(violations=viol)

def search_failing_input(ctx, broken):
    """a broken C14 theorem: look for a concrete input on which the implementation violates the statement"""
    fix, mode, pc, pr = run_probe(ctx)
    from harness.lib import py2coq_search
    n = 400 if py2coq_search.is_code_obligation(broken) else 30   # code_<fn>_is_model: docs/py2coq.md
    viol, st = evaluate(ctx, [pc] + gen_cases(ctx)[:n], fix, mode)
    for v in viol:
        if not v.get('no_input'):
            return dict(v['replay_obj'], what=v['what'])
    return None
