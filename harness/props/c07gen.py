"""Generator for C07: a small reference world + GVF files that give one or more transcripts up to
5 processing units in total (main call, fusions, circRNAs).  Plain data only (no repo import)."""
from harness.lib import gen_reference as G
from harness.lib import impl as I

def world_texts(world):
    import tempfile, os, shutil
    os.makedirs(I.WORK, exist_ok=True)
    d = tempfile.mkdtemp(dir=I.WORK)
    try:
        g, a, p = G.write_world(world, d)
        return {'genome.fasta': open(g).read(), 'annotation.gtf': open(a).read(), 'proteome.fasta': open(p).read()}
    finally:
        shutil.rmtree(d, ignore_errors=True)

def mk_record(rng, world, gene, tx, ti, kind):
    """SNV / small INDEL at transcript position ti (exonic), given in gene coordinates"""
    gs = G.gene_seq(world, gene)
    gi = G.g2gene(gene, G.tx2g(gene, tx, ti))
    n = G.tx_len(tx)
    ref = gs[gi]
    if kind == 'del' and ti + 3 < n and abs(G.tx2g(gene, tx, ti + 3) - G.tx2g(gene, tx, ti)) == 3:
        ref, alt, typ = gs[gi:gi + 3], gs[gi], 'INDEL'
    elif kind == 'ins':
        alt, typ = ref + rng.choice(['A', 'CT', 'GGA', 'T']), 'INDEL'
    else:
        alt, typ = rng.choice([b for b in 'ACGT' if b != ref]), 'SNV'
    return dict(gene=gene['id'], pos=gi + 1, id='%s-%d-%s-%s' % (typ, gi + 1, ref, alt), ref=ref, alt=alt, tx=tx['id'],
                chrom=gene['chrom'], gpos=G.tx2g(gene, tx, ti) + 1, symbol=gene['name'])

HDR_SNV = ['##fileformat=VCFv4.2', '##mopepgen_version=1.4.6', '##parser=parseVEP', '##reference_index=',
           '##genome_fasta=', '##annotation_gtf=', '##source=gSNP', "##CHROM=<Description='Gene ID'>",
           '##INFO=<ID=TRANSCRIPT_ID,Number=1,Type=String,Description="Transcript ID">',
           '##INFO=<ID=GENE_SYMBOL,Number=1,Type=String,Description="Gene Symbol">',
           '##INFO=<ID=GENOMIC_POSITION,Number=1,Type=String,Description="Genomic Position">',
           '#CHROM\tPOS\tID\tREF\tALT\tQUAL\tFILTER\tINFO']
HDR_FUSION = ['##fileformat=VCFv4.2', '##mopepgen_version=1.4.6', '##parser=parseSTARFusion', '##reference_index=',
              '##genome_fasta=', '##annotation_gtf=', '##source=Fusion', '##CHROM=<Description="Gene ID">',
              '##INFO=<ID=TRANSCRIPT_ID,Number=1,Type=String,Description="Transcript ID">',
              '##INFO=<ID=GENE_SYMBOL,Number=1,Type=String,Description="Gene Symbol">',
              '##INFO=<ID=GENOMIC_POSITION,Number=1,Type=String,Description="Genomic Position">',
              '##INFO=<ID=ACCEPTER_GENE_ID,Number=1,Type=String,Description="3\' Accepter Transcript\'s Gene ID">',
              '##INFO=<ID=ACCEPTER_TRANSCRIPT_ID,Number=1,Type=String,Description="3\' Accepter Transcript\'s Transcript ID">',
              '##INFO=<ID=ACCEPTER_POSITION,Number=1,Type=Integer,Description="Position of the break point of the 3\' accepter transcript">',
              '#CHROM\tPOS\tID\tREF\tALT\tQUAL\tFILTER\tINFO']
HDR_CIRC = ['##fileformat=VCFv4.2', '##mopepgen_version=1.4.6', '##parser=parseCIRCexplorer', '##reference_index=',
            '##genome_fasta=', '##annotation_gtf=', '##source=circRNA', '##CHROM=<Description="Gene ID">',
            '##INFO=<ID=TRANSCRIPT_ID,Number=1,Type=String,Description="Transcript ID">',
            '##INFO=<ID=GENE_SYMBOL,Number=1,Type=String,Description="Gene Symbol">',
            '##INFO=<ID=GENOMIC_POSITION,Number=1,Type=String,Description="Genomic Position">',
            '##INFO=<ID=OFFSET,Number=+,Type=Integer,Description="Offsets of fragments (exons or introns)">',
            '##INFO=<ID=LENGTH,Number=+,Type=Integer,Description="Lengths of fragments (exons or introns)">',
            '##INFO=<ID=INTRON,Number=+,Type=Integer,Description="Indices of fragments that are introns">',
            '##POS=<Description="Gene coordinate of circRNA start">',
            '#CHROM\tPOS\tID\tREF\tALT\tQUAL\tFILTER\tINFO']

def snv_text(records):
    rows = ['%s\t%d\t%s\t%s\t%s\t.\t.\tTRANSCRIPT_ID=%s;GENOMIC_POSITION=%s:%d;GENE_SYMBOL=%s' % (
        r['gene'], r['pos'], r['id'], r['ref'], r['alt'], r['tx'], r['chrom'], r['gpos'], r['symbol']) for r in records]
    return '\n'.join(HDR_SNV + rows) + '\n'

def fusion_text(records):
    rows = ['%s\t%d\t%s\t%s\t<FUSION>\t.\t.\tTRANSCRIPT_ID=%s;GENE_SYMBOL=%s;GENOMIC_POSITION=%s;ACCEPTER_GENE_ID=%s;'
            'ACCEPTER_TRANSCRIPT_ID=%s;ACCEPTER_SYMBOL=%s;ACCEPTER_POSITION=%d;ACCEPTER_GENOMIC_POSITION=%s' % (
                r['gene'], r['pos'], r['id'], r['ref'], r['tx'], r['symbol'], r['gpos'], r['acc_gene'], r['acc_tx'],
                r['acc_symbol'], r['acc_pos'], r['acc_gpos']) for r in records]
    return '\n'.join(HDR_FUSION + rows) + '\n'

def circ_text(records):
    rows = ['%s\t%d\t%s\t.\t.\t.\t.\tOFFSET=%s;LENGTH=%s;INTRON=;TRANSCRIPT_ID=%s;GENE_SYMBOL=%s;GENOMIC_POSITION=%s' % (
        r['gene'], r['start'], r['id'], ','.join(map(str, r['offsets'])), ','.join(map(str, r['lengths'])),
        r['tx'], r['symbol'], r['gpos']) for r in records]
    return '\n'.join(HDR_CIRC + rows) + '\n'

def exons_gene_coords(gene, tx):
    """exons of tx as ascending [s, e) intervals in gene coordinates (transcript order)"""
    out = []
    exs = tx['exons'] if gene['strand'] == 1 else list(reversed(tx['exons']))
    for s, e in exs:
        if gene['strand'] == 1:
            out.append((s - gene['start'], e - gene['start']))
        else:
            out.append((gene['end'] - e, gene['end'] - s))
    return out

def mk_fusion(rng, world, gene, tx, agene, atx):
    """fusion: donor tx keeps transcript positions [0, b); the accepter contributes from transcript position a"""
    n, an = G.tx_len(tx), G.tx_len(atx)
    lo = (tx['cds'][0] + 6) if tx['cds'] else 6
    if lo >= n - 1 or an < 12:
        return None
    b = rng.randrange(lo, n)                    # first donor transcript position NOT kept (b-1 is the last donor base)
    a = rng.randrange(1, an - 6)
    gs = G.gene_seq(world, gene)
    d_gene = G.g2gene(gene, G.tx2g(gene, tx, b - 1)) + 1      # record.location.start (gene, 0-based) = last donor base + 1
    a_gene = G.g2gene(agene, G.tx2g(agene, atx, a))
    if d_gene >= len(gs):
        return None
    return dict(gene=gene['id'], pos=d_gene + 1, id='FUSION-%s:%d-%s:%d' % (tx['id'], d_gene, atx['id'], a_gene),
                ref=gs[d_gene], tx=tx['id'], symbol=gene['name'],
                gpos='%s:%d:%d' % (gene['chrom'], G.tx2g(gene, tx, b - 1) + 1, G.tx2g(gene, tx, b - 1) + 1),
                acc_gene=agene['id'], acc_tx=atx['id'], acc_symbol=agene['name'], acc_pos=a_gene + 1,
                acc_gpos='%s:%d:%d' % (agene['chrom'], G.tx2g(agene, atx, a) + 1, G.tx2g(agene, atx, a) + 1),
                donor_tx_pos=b, acc_tx_pos=a)

def mk_circ(gene, tx, i, j):
    """circRNA made of exons i..j (transcript order) of tx"""
    ex = exons_gene_coords(gene, tx)[i:j + 1]
    start = ex[0][0]
    return dict(gene=gene['id'], start=start, id='CIRC-%s-%d:%d' % (tx['id'], ex[0][0], ex[-1][1]),
                offsets=[s - start for s, _ in ex], lengths=[e - s for s, e in ex], tx=tx['id'], symbol=gene['name'],
                gpos='%s:%d:%d' % (gene['chrom'], ex[0][0], ex[-1][1]), exons=[i, j])

def main_records(rng, world, gene, tx, k, indel_p=0.25):
    n = G.tx_len(tx)
    lo, hi = (tx['cds'][0] + 3, max(tx['cds'][0] + 4, tx['cds'][1] - 3)) if tx['cds'] else (1, n - 1)
    used, out = set(), []
    for _ in range(k):
        ti = rng.randrange(lo, max(lo + 1, min(hi, n - 1)))
        if any(abs(ti - u) < 9 for u in used):
            continue
        used.add(ti)
        kind = rng.choice(['del', 'ins']) if rng.random() < indel_p else 'snv'
        out.append(mk_record(rng, world, gene, tx, ti, kind))
    return out

def gen_case(rng, max_units=None):
    """returns dict(world, gvfs, units=[{tx, kind, id, uid}] in the code's processing order per transcript
    except that the order of circRNA units inside a transcript is decided by the implementation (a set of
    identity-hashed objects), tx_order = transcripts in annotation order)"""
    for _ in range(200):
        world = G.gen_world(rng, n_chrom=1, max_genes=rng.choice([2, 3, 4]), small=False, sec_p=0.0, nf_p=0.0,
                            multi_iso_p=0.5, coding_p=0.85)
        txs = [(g, t) for g in world['genes'] for t in g['transcripts'] if G.tx_len(t) >= 60]
        coding = [(g, t) for g, t in txs if t['cds']]
        if len(world['genes']) >= 2 and coding:
            break
    gene, tx = rng.choice(coding if rng.random() < 0.85 else txs)
    snv, fus, circ, units = [], [], [], []
    budget = max_units or rng.choice([1, 2, 3, 4, 5, 5, 5])
    # ---- target transcript
    n_main = rng.choice([0, 1, 1, 2, 3])
    n_fus = rng.choice([0, 1, 1, 2])
    n_circ = rng.choice([0, 1, 2, 2, 3])
    if n_main + n_fus + n_circ == 0:
        n_main = 1
    recs = main_records(rng, world, gene, tx, n_main)
    if recs:
        snv += recs
        units.append(dict(tx=tx['id'], kind='main', id='', uid='%s:main' % tx['id']))
        budget -= 1
    others = [(g, t) for g in world['genes'] if g['id'] != gene['id'] for t in g['transcripts'] if G.tx_len(t) >= 30]
    seen = set()
    for _ in range(n_fus):
        if budget <= 0 or not others:
            break
        ag, at = rng.choice(others)
        f = mk_fusion(rng, world, gene, tx, ag, at)
        # (before /repo 8f9517a two fusion records with the same donor breakpoint were ONE record for the tool; they
        # are distinct records now and may be generated; evaluate() still derives the unit list from what the tool runs)
        if f and f['id'] not in seen:
            seen.add(f['id']); fus.append(f); budget -= 1
            units.append(dict(tx=tx['id'], kind='fusion', id=f['id'], acc=f['acc_tx'], uid='%s:fusion:%s' % (tx['id'], f['id'])))
    nex = len(tx['exons'])
    spans = [(i, j) for i in range(nex) for j in range(i, nex)]
    rng.shuffle(spans)
    for i, j in spans[:n_circ]:
        if budget <= 0:
            break
        c = mk_circ(gene, tx, i, j)
        if sum(c['lengths']) < 12:
            continue
        circ.append(c); budget -= 1
        units.append(dict(tx=tx['id'], kind='circ', id=c['id'], uid='%s:circ:%s' % (tx['id'], c['id'])))
    # ---- other transcripts (main unit only, sometimes a circRNA) while the budget lasts
    rest = [(g, t) for g, t in txs if t['id'] != tx['id']]
    rng.shuffle(rest)
    for g2, t2 in rest[:rng.choice([0, 1, 1, 2])]:
        if budget <= 0:
            break
        recs = main_records(rng, world, g2, t2, rng.choice([1, 2]))
        if recs:
            snv += recs; budget -= 1
            units.append(dict(tx=t2['id'], kind='main', id='', uid='%s:main' % t2['id']))
        if budget > 0 and rng.random() < 0.3:
            c = mk_circ(g2, t2, 0, rng.randrange(len(t2['exons'])))
            if sum(c['lengths']) >= 12:
                circ.append(c); budget -= 1
                units.append(dict(tx=t2['id'], kind='circ', id=c['id'], uid='%s:circ:%s' % (t2['id'], c['id'])))
    gvfs = []
    if snv:
        seen, uniq = set(), []
        for r in snv:
            if (r['tx'], r['id']) not in seen:
                seen.add((r['tx'], r['id'])); uniq.append(r)
        gvfs.append(snv_text(uniq))
    if fus:
        gvfs.append(fusion_text(fus))
    if circ:
        gvfs.append(circ_text(circ))
    tx_order = [t['id'] for g in world['genes'] for t in g['transcripts']]
    return dict(_world=world, world=world_texts(world), gvfs=gvfs, units=units, tx_order=tx_order,
                target=tx['id'], strand=gene['strand'], coding=bool(tx['cds']), acceptors=[f['acc_tx'] for f in fus],
                n_exons=len(tx['exons']))

def invalid_record(gene, tx):
    """a record whose gene position lies beyond the end of the gene (e.g. a GVF made against another
    annotation version): loading the transcript's series raises ValueError"""
    glen = gene['end'] - gene['start']
    pos = glen + 3
    return dict(gene=gene['id'], pos=pos + 1, id='SNV-%d-A-C' % (pos + 1), ref='A', alt='C', tx=tx['id'],
                chrom=gene['chrom'], gpos=gene['end'] + 4, symbol=gene['name'])

def intron_record(rng, world, gene, tx):
    introns = [(a[1], b[0]) for a, b in zip(tx['exons'], tx['exons'][1:]) if b[0] - a[1] >= 1]
    if not introns:
        return None
    s, e = rng.choice(introns)
    g = rng.randrange(s, e)
    gs = G.gene_seq(world, gene)
    gi = G.g2gene(gene, g)
    ref = gs[gi]
    alt = rng.choice([b for b in 'ACGT' if b != ref])
    return dict(gene=gene['id'], pos=gi + 1, id='SNV-%d-%s-%s' % (gi + 1, ref, alt), ref=ref, alt=alt, tx=tx['id'],
                chrom=gene['chrom'], gpos=g + 1, symbol=gene['name'])

def add_extras(rng, case, world, p_invalid=0.3, p_empty=0.25):
    """optionally one transcript with an invalid series and one whose only record is intronic; neither is a
    donor, an accepter or a transcript with units"""
    busy = {u['tx'] for u in case['units']} | set(case.get('acceptors', []))
    free = [(g, t) for g in world['genes'] for t in g['transcripts'] if t['id'] not in busy]
    rng.shuffle(free)
    case['invalid'], case['empty'] = [], []
    if free and rng.random() < p_invalid:
        g, t = free.pop()
        case['gvfs'].append(snv_text([invalid_record(g, t)]))
        case['invalid'].append(t['id'])
    if free and rng.random() < p_empty:
        for g, t in free:
            r = intron_record(rng, world, g, t)
            if r:
                case['gvfs'].append(snv_text([r]))
                case['empty'].append(t['id'])
                break
    return case

def add_acc_invalid(rng, case, world):
    """the accepter transcript of a fusion gets an invalid series of its own"""
    busy = {u['tx'] for u in case['units']}
    acc = [a for a in case.get('acceptors', []) if a not in busy]
    if not acc:
        return False
    for g in world['genes']:
        for t in g['transcripts']:
            if t['id'] == acc[0]:
                case['gvfs'].append(snv_text([invalid_record(g, t)]))
                case['invalid'], case['empty'], case['acc_invalid'] = [t['id']], [], True
                return True
    return False
