"""C09 correspondence: callAltTranslation (the real CLI function call_alt_translation(args)) against the proved
specification Model/AltTrans.v.

For every generated case (reference world with 0-2 annotated Sec codons per designed CDS, cds_start_NF / mRNA_end_NF
transcripts x cleavage settings x --selenocysteine-termination / --w2f-reassignment):
  * peptides : alt_must  ⊆  FASTA sequences  ⊆  alt_may     (exact equality is measured and reported)
  * headers  : every header entry  tx|[SECT-n]|[W2F-i]...|count  names a coding transcript, an annotated Sec of it
               (n = the gene coordinate the model of create_variant_sect computes) and W positions such that the named
               events SUFFICE to produce the peptide (header_ok, proved equivalent to the declarative witness statement)
  * flags    : no SECT event without --selenocysteine-termination, no W2F event without --w2f-reassignment;
               neither flag -> ValueError
  * F-level  : the SECT ids found in the output are exactly ids of annotated Sec sites (sect_id), and
               MiscleavedNodes.translational_modification on hand-built inputs equals node_tmod (unit stream)
"""
import json, os, copy, re
from harness.lib import oracle as O, impl as I, rules as R, gen_reference as G

PROPERTY = 'C09'
ROOT = os.path.dirname(os.path.dirname(os.path.dirname(os.path.abspath(__file__))))

def gen_opts(rng, names):
    rule = 'trypsin' if rng.random() < 0.5 else rng.choice(names)
    exc = 'trypsin_exception' if (rule == 'trypsin' and rng.random() < 0.4) else None
    mw4 = rng.choice([0, 3000000, 5000000, 5000000]) + rng.randrange(0, 10000)
    fl = rng.choice([(True, True), (True, True), (True, False), (False, True)])
    return dict(rule=rule, exc=exc, k=rng.choice([0, 1, 2, 2]), mw4=mw4, min_mw=mw4 / 10000.0 + 0.00005,
                min_len=rng.choice([3, 5, 7, 7]), max_len=rng.choice([12, 25, 25, 40]), sect=fl[0], w2f=fl[1])

def split_sec(w):
    """an annotated Sec codon that spans an exon junction (cannot be written as ONE Selenocysteine GTF feature)"""
    for g in w['genes']:
        for t in g['transcripts']:
            for p in t.get('sec', []):
                if abs(G.tx2g(g, t, p + 2) - G.tx2g(g, t, p)) != 2:
                    return True
    return False

def gen_case(rng, names):
    while True:
        w = G.gen_world(rng, small=True, coding_p=rng.choice([0.8, 1.0]), bias='KRKRPMWWDEFLC', sec_p=rng.choice([0.0, 0.9, 0.9]),
                        nf_p=rng.choice([0.0, 0.3]), max_genes=3)
        if not split_sec(w):
            break
    return dict(world=w, opts=gen_opts(rng, names))

# ------------------------------------------------------------------ canonical-collision stream
# An alt-translation product almost never equals a canonical peptide of ANOTHER protein in random worlds, so "minus the
# canonical pool" would go untested.  This stream adds a coding gene whose protein is assembled from W>F images of
# canonical peptides of the same world (some / all tryptophans replaced) and ends with the prefix-before-U of a
# Sec-containing canonical peptide: those images / truncations are then canonical and must be ABSENT, while the other
# W subsets must still be present.
def _w_image(rng, P):
    ws = [i for i, ch in enumerate(P) if ch == 'W']
    if not ws:
        return P
    pick = [i for i in ws if rng.random() < 0.6] or [rng.choice(ws)]
    return ''.join('F' if i in pick else ch for i, ch in enumerate(P))

def add_coding_gene(w, rng, prot, n):
    from harness.props import c08 as P8
    utr5 = G.rand_dna(rng, rng.randint(0, 12)).replace('ATG', 'ACG')
    dna = utr5 + G.backtranslate(rng, prot) + rng.choice(['TAA', 'TAG']) + G.rand_dna(rng, rng.randint(0, 9))
    P8.add_lnc_gene(w, rng, dna, n)
    g = w['genes'][-1]
    t = g['transcripts'][0]
    g['biotype'] = t['biotype'] = 'protein_coding'
    t['cds'] = [len(utr5), len(utr5) + 3 * len(prot)]
    t['cds_feature_start'] = len(utr5)
    t['protein_id'] = 'ENSP' + t['id'][4:]
    t['utr'] = rng.random() < 0.5
    assert G.protein_of(w, g, t) == prot, (G.protein_of(w, g, t), prot)

def gen_collision_cases(rng, names, n):
    base = []
    for _ in range(n):
        while True:
            w = G.gen_world(rng, small=True, coding_p=1.0, bias='KRKRPMWWDEFLC', sec_p=0.9, nf_p=rng.choice([0.0, 0.2]), max_genes=3)
            if not split_sec(w):
                break
        o = gen_opts(rng, names)
        o['rule'] = rng.choice(['trypsin'] * 6 + ['lysc', 'arg-c', 'glutamyl endopeptidase'])
        o['exc'] = 'trypsin_exception' if (o['rule'] == 'trypsin' and rng.random() < 0.3) else None
        o.update(min_len=rng.choice([3, 5]), max_len=rng.choice([25, 40]), mw4=rng.randrange(0, 10000))
        o['min_mw'] = o['mw4'] / 10000.0 + 0.00005
        base.append(dict(world=w, opts=o))
    pools = O.call_parallel([('pool', [c['opts']['rule'], c['opts']['exc'], lim_of(c['opts']), prot_rows(c['world'])]) for c in base], jobs=8)
    out = []
    for c, pl in zip(base, pools):
        if isinstance(pl, str) or pl[0] == 1:
            continue
        canon = sorted(set(O.U(p) for p in pl[1]))
        withw = [p for p in canon if 'W' in p and 'U' not in p]
        withu = [p for p in canon if 'U' in p and p.index('U') >= 2]
        starts = [p for p in canon if p.startswith('M') and 'U' not in p]
        if not withw or not starts:
            continue
        prot = rng.choice(starts)
        for _ in range(rng.randint(1, 3)):
            prot += _w_image(rng, rng.choice(withw))
        if withu and c['opts']['sect'] and rng.random() < 0.8:
            pu = rng.choice(withu)
            prot += pu[:pu.index('U')]
        add_coding_gene(c['world'], rng, prot, 1)
        c['seeded'] = True
        out.append(c)
    return out

def measure_collisions(cases):
    if not cases:
        return {}
    reqs = []
    for c in cases:
        reqs.append(model_req(c))
        r2 = list(model_req(c)[1]); r2[5] = []
        reqs.append(('c09_alt', r2))
    ms = O.call_parallel(reqs, jobs=8)
    st = dict(cases=len(cases), cases_with_pool_hit=0, candidates_removed_by_pool=0)
    for i in range(len(cases)):
        a, b = ms[2 * i], ms[2 * i + 1]
        if isinstance(a, str) or isinstance(b, str) or a[0] == 1 or b[0] == 1:
            continue
        removed = set(O.U(p) for p in b[2]) - set(O.U(p) for p in a[2])
        st['candidates_removed_by_pool'] += len(removed)
        st['cases_with_pool_hit'] += 1 if removed else 0
    return st

# ------------------------------------------------------------------ Sec-placement stream
# The shared generator puts 1-2 Sec codons at random interior positions of a designed CDS.  This stream designs coding
# genes of its own with Sec codons at every POSITION CLASS of the CDS: first codon after the start, last sense codon
# (directly before the stop / the 3'UTR feature, which in GENCODE style contains the stop codon), adjacent Sec-Sec,
# 3-5 Sec on one transcript, Sec next to cleavage residues, in the first / last exon, with and without UTR features,
# on cds_start_NF and mRNA_end_NF transcripts.
SEC_CLASSES = ['after_start', 'last_sense', 'adjacent', 'many', 'next_to_site', 'random']

def _bt(rng, prot):
    return ''.join('TGA' if a == 'U' else rng.choice(G.BACK[a]) for a in prot)

def design_sec_protein(rng, rule):
    n = rng.randint(10, 36)
    body = list(G.rand_protein(rng, n, bias='KRKRPMWWDEFLC'))
    site_res = [ch for ch in R.rule_letters(rule) if ch in 'ACDEFGHIKLMNPQRSTVWY'] or ['K']
    classes = set(rng.sample(SEC_CLASSES, rng.randint(1, 3)))
    pos = set()
    if 'after_start' in classes:
        pos.add(1)
    if 'last_sense' in classes:
        pos.add(n - 1)
    if 'adjacent' in classes:
        i = rng.randint(2, n - 3); pos.update([i, i + 1])
    if 'many' in classes:
        pos.update(rng.sample(range(1, n), min(n - 1, rng.randint(3, 5))))
    if 'next_to_site' in classes:
        i = rng.randint(2, n - 2)
        body[i - 1] = rng.choice(site_res); pos.add(i)
        if rng.random() < 0.5 and i + 1 < n:
            body[i + 1] = rng.choice(site_res)
    if 'random' in classes:
        pos.add(rng.randint(1, n - 1))
    body[0] = 'M'
    for i in pos:
        body[i] = 'U'
    return ''.join(body), sorted(classes)

def add_sec_gene(w, rng, prot, n, nf, end_nf):
    """coding gene with the given protein (U = annotated Sec, written as TGA); nf: cds_start_NF with 0-2 leading
    frame bases and no start codon requirement; end_nf: the transcript ends with the last sense codon (+0-2 nt)"""
    from harness.props import c08 as P8
    frame = rng.choice([0, 1, 2]) if nf else 0
    utr5 = G.rand_dna(rng, frame) if nf else G.rand_dna(rng, rng.randint(0, 14)).replace('ATG', 'ACG')
    tail = G.rand_dna(rng, rng.choice([0, 1, 2])) if end_nf else rng.choice(['TAA', 'TAG', 'TGA']) + G.rand_dna(rng, rng.randint(0, 12))
    dna = utr5 + _bt(rng, prot) + tail
    cs = len(utr5)
    secs = [cs + 3 * i for i, a in enumerate(prot) if a == 'U']
    for _try in range(20):
        w2 = copy.deepcopy(w)
        P8.add_lnc_gene(w2, rng, dna, n)
        g = w2['genes'][-1]; t = g['transcripts'][0]
        t['sec'] = secs
        if not split_sec({'genes': [g]}):
            break
    else:
        return None
    g['biotype'] = t['biotype'] = 'protein_coding'
    t['cds'] = [cs, cs + 3 * len(prot)]
    t['cds_feature_start'] = 0 if nf else cs
    t['frame'] = frame
    t['protein_id'] = 'ENSP' + t['id'][4:]
    t['utr'] = rng.random() < 0.6
    if nf:
        t['tags'].append('cds_start_NF')
    if end_nf:
        t['tags'].append('mRNA_end_NF')
    assert G.protein_of(w2, g, t) == prot, (G.protein_of(w2, g, t), prot)
    # further isoforms that make the GENE record start upstream / end downstream of the Sec-carrying transcript
    # (the SECT id is a gene coordinate, so gene origin != transcript origin must occur, on both strands)
    tot = len(w2['chroms'][g['chrom']])
    e0, eN = t['exons'][0][0], t['exons'][-1][1]
    ext = rng.choice(['none', 'left', 'right', 'both', 'both'])
    k = 0
    for side in ('left', 'right'):
        if ext not in (side, 'both'):
            continue
        if side == 'left' and e0 >= 4:
            a = rng.randint(0, e0 - 4); b = rng.randint(a + 1, e0 - 2)
            exons = [[a, b]] + [list(e) for e in t['exons']]
        elif side == 'right' and tot - eN >= 4:
            a = rng.randint(eN + 2, tot - 2); b = rng.randint(a + 1, tot)
            exons = [list(e) for e in t['exons']] + [[a, b]]
        else:
            continue
        k += 1
        g['transcripts'].append({'id': 'ENST%011d.1' % (9000000 + n * 10 + k), 'protein_id': None, 'exons': exons, 'cds': None,
                                 'frame': 0, 'tags': [], 'sec': [], 'utr': False, 'biotype': 'retained_intron'})
    g['start'] = min(x['exons'][0][0] for x in g['transcripts'])
    g['end'] = max(x['exons'][-1][1] for x in g['transcripts'])
    return w2

def gen_sec_placement_cases(rng, names, n):
    out = []
    while len(out) < n:
        w = G.gen_world(rng, small=True, coding_p=1.0, bias='KRKRPMWWDEFLC', sec_p=0.3, nf_p=0.1, max_genes=2)
        if split_sec(w):
            continue
        o = gen_opts(rng, names)
        if rng.random() < 0.5:
            o['sect'] = True
        classes = []
        for gi in range(rng.choice([1, 1, 2])):
            prot, cl = design_sec_protein(rng, o['rule'])
            nf, end_nf = rng.random() < 0.2, rng.random() < 0.2
            if nf and rng.random() < 0.5:
                prot = rng.choice('ACDEFGHIKLNPQRSTVWYU') + prot[1:]      # an NF protein need not start with M
            w2 = add_sec_gene(w, rng, prot, gi + 1, nf, end_nf)
            if w2 is None:
                continue
            w = w2
            classes += cl + (['cds_start_NF'] if nf else []) + (['mRNA_end_NF'] if end_nf else []) + \
                       (['utr_features'] if w['genes'][-1]['transcripts'][0]['utr'] else ['no_utr_features']) + \
                       (['n_sec=%d' % min(prot.count('U'), 6)]) + \
                       (['gene_origin_differs'] if (w['genes'][-1]['start'] != w['genes'][-1]['transcripts'][0]['exons'][0][0]
                                                    or w['genes'][-1]['end'] != w['genes'][-1]['transcripts'][0]['exons'][-1][1])
                        else ['gene_origin_equal'])
        out.append(dict(world=w, opts=o, sec_classes=classes))
    return out

def coding(w):
    return [(g, t) for g in w['genes'] for t in g['transcripts'] if t.get('cds')]

def prot_rows(w):
    return [[G.protein_of(w, g, t), 'cds_start_NF' in t['tags']] for g, t in coding(w)]

def cds_row(w, g, t):
    return [G.tx_seq(w, g, t), t['cds'][0], list(t.get('sec', [])), 'cds_start_NF' in t['tags'], 'mRNA_end_NF' in t['tags']]

def lim_of(o):
    return [o['k'], o['mw4'], o['min_len'], o['max_len']]

def model_req(c):
    w, o = c['world'], c['opts']
    return ('c09_alt', [o['rule'], o['exc'], lim_of(o), o['sect'], o['w2f'], prot_rows(w), [cds_row(w, g, t) for g, t in coding(w)]])

def sect_ids(w):
    """model of create_variant_sect for every annotated Sec: {tx_id: {n: u}} (u = index of the Sec in the protein)"""
    reqs, meta = [], []
    for g, t in coding(w):
        for p in t.get('sec', []):
            reqs.append(('c09_sect_id', [g['strand'], [list(e) for e in t['exons']], g['strand'], g['start'], g['end'], p]))
            meta.append((t['id'], (p - t['cds'][0]) // 3))
    out = {}
    truth = {}
    for g, t in coding(w):
        for p in t.get('sec', []):
            # generator's own ground truth in GENE coordinates (1-based position of the codon's first base),
            # independent of the code and of the Coq model
            truth[(t['id'], (p - t['cds'][0]) // 3)] = G.g2gene(g, G.tx2g(g, t, p)) + 1
    for (tid, u), r in zip(meta, O.call_many(reqs)):
        if r[0] == 1:
            if truth[(tid, u)] != r[1]:
                raise RuntimeError('SECT id: model %s vs generator ground truth %s for %s' % (r[1], truth[(tid, u)], tid))
            out.setdefault(tid, {})[r[1]] = u
    return out

LABEL = re.compile(r'^(?P<tx>[^|]+)(?P<ev>(\|(SECT|W2F)-\d+)*)\|(?P<n>\d+)$')

def check(c, impl_res, mod, sids):
    """problems with the implementation's output w.r.t. the statement; also returns header requests"""
    probs, hdr = [], []
    w, o = c['world'], c['opts']
    txs = {t['id']: (g, t) for g, t in coding(w)}
    peps = {}
    for h, s in impl_res['pep'] or []:
        if s in peps:
            probs.append('sequence written twice: %s' % s)
        peps.setdefault(s, []).extend(h.split(' '))
    got = set(peps)
    miss, extra = mod['must'] - got, got - mod['may']
    if miss:
        probs.append('obliged peptides missing: %s' % sorted(miss)[:4])
    if extra:
        probs.append('peptides that are no alt-translation product: %s' % sorted(extra)[:4])
    for q, labs in peps.items():
        for lab in labs:
            m = LABEL.match(lab)
            if not m or m.group('tx') not in txs:
                probs.append('header entry not understood / not a coding transcript: %s' % lab); continue
            ev = [e for e in m.group('ev').split('|') if e]
            se = [int(e[5:]) for e in ev if e.startswith('SECT-')]
            we = [int(e[4:]) for e in ev if e.startswith('W2F-')]
            if not ev:
                probs.append('header names no event: %s' % lab); continue
            if (se and not o['sect']) or (we and not o['w2f']) or len(se) > 1:
                probs.append('header names an event the flags do not allow: %s' % lab); continue
            tid = m.group('tx')
            if se and se[0] not in sids.get(tid, {}):
                probs.append('SECT id does not name an annotated Sec of %s: %s' % (tid, lab)); continue
            g, t = txs[tid]
            hdr.append((q, lab, ('c09_header', [o['rule'], o['exc'], lim_of(o), cds_row(w, g, t),
                                                [sids[tid][se[0]]] if se else [], we, q])))
    return probs, hdr, dict(n_pep=len(got), n_must=len(mod['must']), n_may=len(mod['may']),
                            slack_low=len(got - mod['must']), slack_high=len(mod['may'] - got),
                            exact=(got == mod['may']), n_labels=sum(len(v) for v in peps.values()))

def evaluate(ctx, cases, tag='c09'):
    impl = I.run_cases('c09', cases, jobs=ctx.jobs, tag=tag)
    model = O.call_parallel([model_req(c) for c in cases], jobs=8)
    out, allhdr = [], []
    for i, c in enumerate(cases):
        res = dict(case=c, probs=[], stats={})
        o = c['opts']
        m = model[i]
        if isinstance(m, str) or m[0] == 1:
            res['skip'] = 'model: pool raises'; out.append(res); continue
        mod = dict(must=set(O.U(p) for p in m[1]), may=set(O.U(p) for p in m[2]), prots=[O.U(p) for p in m[3]])
        r = impl[i]
        if not (o['sect'] or o['w2f']):
            if not (isinstance(r, dict) and r.get('__exc__') == 'ValueError'):
                res['probs'] = ['neither flag given but no ValueError: %s' % str(r)[:100]]
            out.append(res); continue
        if isinstance(r, dict) and '__exc__' in r:
            res['probs'] = ['callAltTranslation raised %s: %s' % (r['__exc__'], r.get('msg', '')[:200])]
            out.append(res); continue
        # the model's translation of the annotated ORF must be the generator's ground truth (independent codon table)
        truth = [p for p, _ in prot_rows(c['world'])]
        if truth != mod['prots']:
            res['probs'] = ['model/ground-truth protein mismatch (harness problem): %s vs %s' % (truth[:1], mod['prots'][:1])]
            out.append(res); continue
        sids = sect_ids(c['world'])
        probs, hdr, st = check(c, r, mod, sids)
        res['probs'], res['stats'] = probs, st
        res['stats']['n_sec'] = sum(len(t.get('sec', [])) for g, t in coding(c['world']))
        res['stats']['n_nf'] = sum(1 for g, t in coding(c['world']) if t['tags'])
        allhdr.append((res, hdr))
        out.append(res)
    reqs = [h[2] for _, hdr in allhdr for h in hdr]
    ans = O.call_parallel(reqs, jobs=8) if reqs else []
    k = 0
    for res, hdr in allhdr:
        for q, lab, _ in hdr:
            if ans[k] != 1:
                res['probs'].append('the events named in the header do not produce the peptide: %s  %s' % (lab, q))
            k += 1
    return out

def shrink(ctx, case):
    cur = case
    for _round in range(3):
        cands = []
        w = cur['world']
        for gi, g in enumerate(w['genes']):
            if len(w['genes']) > 1:
                w2 = copy.deepcopy(w); del w2['genes'][gi]
                cands.append(dict(cur, world=w2))
            for ti in range(len(g['transcripts'])):
                if len(g['transcripts']) > 1:
                    w2 = copy.deepcopy(w); del w2['genes'][gi]['transcripts'][ti]
                    cands.append(dict(cur, world=w2))
        for key, val in (('w2f', False), ('sect', False), ('k', 0)):
            if cur['opts'].get(key) != val:
                o2 = dict(cur['opts']); o2[key] = val
                if o2['sect'] or o2['w2f']:
                    cands.append(dict(cur, opts=o2))
        if not cands:
            break
        rs = evaluate(ctx, cands, tag='c09s')
        nxt = None
        for r in rs:
            if r['probs'] and (nxt is None or len(json.dumps(r['case'])) < len(json.dumps(nxt))):
                nxt = r['case']
        if nxt is None:
            break
        cur = nxt
    return cur

# ------------------------------------------------------------------ F-level unit stream: node-level translational_modification
def tmod_cases(rng, n):
    cases = []
    for _ in range(n):
        L = rng.randint(2, 14)
        s = ''.join(rng.choice('MKRWACDUU' if rng.random() < 0.3 else 'ACDEFGKRW') for _ in range(L))
        if rng.random() < 0.6:
            s = 'M' + s
        secs = [i for i, ch in enumerate(s) if ch == 'U']
        cases.append(dict(kind='tmod', seq=s, start=rng.random() < 0.6, secs=secs,
                          min_len=rng.choice([1, 2, 4]), max_len=rng.choice([8, 12, 30])))
    return cases

def run_tmod(ctx, cases):
    impl = I.run_cases('c09', cases, jobs=ctx.jobs, tag='c09t')
    reqs = []
    for c in cases:
        s = c['seq']
        cand = set([s, s[1:]] + [s[:u] for u in c['secs']] + [s[:u][1:] for u in c['secs']])
        valid = sorted(q for q in cand if c['min_len'] <= len(q) <= c['max_len'] and 'X' not in q)
        reqs.append(('c09_node_tmod', [valid, c['start'], c['secs'], s]))
    model = O.call_many(reqs)
    bad = []
    for c, r, m in zip(cases, impl, model):
        mm = [[u, O.U(q)] for u, q in m]
        if r != mm:
            bad.append((c, r, mm))
    return bad

def _hist(xs):
    h = {}
    for x in xs:
        h[x] = h.get(x, 0) + 1
    return h

def corpus_cases():
    d = os.path.join(ROOT, 'corpus', PROPERTY)
    out = []
    if os.path.isdir(d):
        for f in sorted(os.listdir(d)):
            if f.endswith('.json'):
                obj = json.load(open(os.path.join(d, f)))
                if 'case' in obj:
                    out.append((f, obj['case']))
    return out

def run(ctx):
    rng = ctx.rng
    names = R.rule_names()
    n = 500 if ctx.quick else 25000
    corp = corpus_cases()
    cases = [c for _, c in corp] + [gen_case(rng, names) for _ in range(n)]
    for _ in range(4):           # neither flag -> ValueError
        c = gen_case(rng, names); c['opts']['sect'] = c['opts']['w2f'] = False
        cases.append(c)
    seeded = gen_collision_cases(rng, names, 150 if ctx.quick else 5000)
    cases += seeded
    placed = gen_sec_placement_cases(rng, names, 300 if ctx.quick else 8000)
    cases += placed
    from harness.props import c08 as P8
    for c in cases[len(corp):]:
        if 'genome_case' not in c:
            c['genome_case'] = P8.gen_genome_case(rng, c['world'])
    results = evaluate(ctx, cases)
    collide = dict(collision_stream=measure_collisions(seeded[:150 if ctx.quick else 1000]),
                   random_stream=measure_collisions(cases[len(corp):len(corp) + (150 if ctx.quick else 1000)]))
    first = True
    for r in results:
        if r['probs'] and first:
            first = False
            try:
                small = shrink(ctx, r['case'])
                rr = evaluate(ctx, [small], tag='c09s')[0]
                if rr['probs']:
                    r['case'], r['probs'] = rr['case'], rr['probs']
            except Exception:
                pass
    tm = tmod_cases(rng, 400 if ctx.quick else 8000)
    tbad = run_tmod(ctx, tm)
    dist, nontriv = {}, set()
    tot = dict(output=0, must=0, may=0, output_minus_MUST=0, MAY_minus_output=0, exact_cases=0, labels=0)
    for r in results:
        o = r['case']['opts']
        st = r.get('stats') or {}
        for key in ('rule:' + o['rule'], 'exc:%s' % o['exc'], 'k:%d' % o['k'], 'flags:%s%s' % ('S' if o['sect'] else '-', 'W' if o['w2f'] else '-')):
            dist[key] = dist.get(key, 0) + 1
        if st:
            dist['sec_sites=%d' % min(st['n_sec'], 4)] = dist.get('sec_sites=%d' % min(st['n_sec'], 4), 0) + 1
            dist['nf_transcripts=%d' % min(st['n_nf'], 3)] = dist.get('nf_transcripts=%d' % min(st['n_nf'], 3), 0) + 1
            tot['output'] += st['n_pep']; tot['must'] += st['n_must']; tot['may'] += st['n_may']
            tot['output_minus_MUST'] += st['slack_low']; tot['MAY_minus_output'] += st['slack_high']
            tot['exact_cases'] += 1 if st['exact'] else 0; tot['labels'] += st['n_labels']
            if st['n_must'] > 0:
                nontriv.add(json.dumps(r['case'], sort_keys=True))
    v = []
    for r in results:
        if r['probs']:
            v.append({'what': 'C09: ' + '; '.join(r['probs'])[:380] + ' | opts=' + json.dumps(r['case']['opts'])[:160],
                      'replay_obj': {'kind': 'case', 'case': r['case'], 'problems': r['probs']}, 'no_input': False})
    for c, a, b in tbad[:5]:
        v.append({'what': 'C09 node-level translational_modification: impl %s vs model %s on %s' % (str(a)[:120], str(b)[:120], json.dumps(c)),
                  'replay_obj': {'kind': 'tmod', 'case': c, 'impl': a, 'model': b}, 'no_input': False})
    return dict(evaluations=len(cases) + len(tm), distinct_nontrivial=len(nontriv),
                rule='generated all-coding worlds (designed CDS with 0-2 in-frame TGA annotated as Selenocysteine, cds_start_NF / '
                     'mRNA_end_NF isoforms, W-enriched) x 35 rules (trypsin 50%, explicit exception or none) x k 0-2 x limits x the two '
                     'flags through call_alt_translation(args); non-trivial = non-empty obliged set; plus a unit stream for '
                     'MiscleavedNodes.translational_modification vs node_tmod',
                samples=[dict(opts=c['opts'], n_genes=len(c['world']['genes'])) for c in cases[:3]],
                distribution=dist, failures=sum(1 for r in results if r['probs']), bracket=tot,
                streams={'random_worlds': len(cases) - len(seeded) - len(placed), 'canonical_collision': len(seeded),
                         'sec_placement': len(placed)},
                genome_case=_hist(['upper' if not c.get('genome_case') else ('all_lower' if c['genome_case'].get('all') else 'soft_masked_stretches') for c in cases]),
                sec_placement_classes=_hist([k for c in placed for k in c.get('sec_classes', [])]), pool_clause_measured=collide, headers_checked=tot['labels'],
                tmod_cases=len(tm), tmod_disagreements=len(tbad), corpus=[f for f, _ in corp], violations=v[:14],
                engine_tied_by='correspondence',
                assumptions=['DNA over A/C/G/T', 'mass thresholds off the 1e-4 grid',
                             'every annotated Sec codon lies within one exon (worlds with a split Sec codon are regenerated: the shared generator writes only one segment of it as Selenocysteine feature)',
                             'MAY-only conventions: products touching the C-terminal end of mRNA_end_NF transcripts (the tool clips them), '
                             'Sec truncations cut where the full protein is cut when that differs from digesting the truncated protein alone'],
                trusted_base=['harness/lib/gen_reference.py (world generator, ground-truth translation with Sec)', 'glue coq/Extract/Api_C09.v',
                              'Model/Anno.v tx2g / g2gene (C11) reused for the SECT id'])

def replay(ctx, obj):
    if obj.get('kind') == 'tmod':
        bad = run_tmod(ctx, [obj['case']])
        return dict(violations=[{'what': 'replay: node tmod impl %s vs model %s' % (a, b), 'replay_obj': obj, 'no_input': False} for _, a, b in bad])
    rs = evaluate(ctx, [obj['case']], tag='c09r')
    out = []
    for r in rs:
        if r['probs']:
            out.append({'what': 'C09 replay: ' + '; '.join(r['probs'])[:400], 'replay_obj': obj, 'no_input': False})
    return dict(violations=out)
