"""C07 correspondence: --skip-failed isolates failures; without it failures abort.

For generated worlds (harness/props/c07gen.py: SNV/INDEL + fusion + circRNA records giving the
transcripts of a world up to 5 processing units in total, optionally one transcript whose series is
invalid and one whose records are all intronic) the real callVariant entry point is run in-process
(harness/impl/c07.py) with the guarded fault-injection hook for EVERY subset F of the units
(<= 32) x --skip-failed on/off x --threads 1/2.

  raw_k   = sequences of the FASTA of the run (--skip-failed, threads 1) that fails every unit but k.
  SPEC    (the property's own statement, evaluated on the implementation's observable output;
           hand-written here, independent of the Coq model):
            skip, any F            : no exception, FASTA written, set(FASTA) = U_{k not in F} raw_k, no
                                     duplicate record, summary logged once with
                                     variant/fusion/circRNA = number of transcripts with a failing
                                     main / some failing fusion / some failing circRNA unit,
                                     invalid = number of invalid series, processed = transcripts called,
                                     saved = |FASTA|
            no skip, F or an invalid series non-empty : an exception ends the command, no FASTA, no summary
            no skip, nothing fails : as with skip
  MODEL   Model/Wrapper.v (extracted) run with the shape the translator read from the source
          (Gen/WrapperShape.v), the measured raw_k and the failure set; compared: exception kind
          (threads 1: ValueError <-> EUnit/EInvalid, UnboundLocalError <-> EUnbound; threads 2: any
          exception <-> any), FASTA set, tally.  The order in which the implementation visits the
          circRNAs of a transcript is a set order of identity-hashed objects; it is observed for threads 1
          (the worker records the calls) and otherwise every order consistent with the observation is
          tried: the implementation must equal the model for one of them.

Both defects found while building (D4, C07-acc-invalid) are fixed in /repo (d303d30, 976ddf9); their minimal
instances run first from corpus/C07.  A violation is never suppressed; when its mechanism is recognised
(D4: source shape = pre-fix shape, --skip-failed, UnboundLocalError raised in call_variant_peptides_wrapper
(threads 1) / TypeError of the result loop (threads 2), the pre-fix model predicts EUnbound for an order
consistent with the observation and the repaired model completes;  C07-acc-invalid: ValueError while
gathering a DONOR transcript whose fusion accepter has an invalid series) the instances are folded into one
VIOLATION line showing the smallest one.
"""
import itertools, json, os, glob, collections
from harness.lib import oracle as O, impl as I, gen_reference as G
from harness.props import c07gen as GN
from harness.props import c07parsers as PP

PROPERTY = 'C07'
ROOT = os.path.dirname(os.path.dirname(os.path.dirname(os.path.abspath(__file__))))
EXC_UNIT, EXC_UNBOUND, EXC_INVALID = 1, 2, 3

# ------------------------------------------------------------------------------------ cases
def subsets(xs):
    for r in range(len(xs) + 1):
        for c in itertools.combinations(xs, r):
            yield list(c)

def all_runs(case, threads=(1, 2)):
    uids = [u['uid'] for u in case['units']]
    runs = []
    for th in threads:
        for F in subsets(uids):
            for skip in (True, False):
                runs.append({'fail': F, 'skip': skip, 'threads': th})
    return runs

def impl_cases(case, runs):
    """split the runs of one case into worker cases (by thread count) to balance the load"""
    out = []
    by = collections.OrderedDict()
    for i, r in enumerate(runs):
        by.setdefault(r['threads'], []).append(i)
    for th, idx in by.items():
        out.append((idx, {'world': case['world'], 'gvfs': case['gvfs'], 'runs': [runs[i] for i in idx],
                          'observe': True, 'opts': case.get('opts', {})}))
    return out

def execute(ctx, cases_runs, tag='c07'):
    """cases_runs: list of (case, runs) -> list of list of run results (None if the worker failed)"""
    jobs, index = [], []
    for ci, (case, runs) in enumerate(cases_runs):
        for idx, ic in impl_cases(case, runs):
            jobs.append(ic); index.append((ci, idx))
    res = I.run_cases('c07', jobs, jobs=ctx.jobs, tag=tag)
    out = [[None] * len(runs) for _, runs in cases_runs]
    for (ci, idx), r in zip(index, res):
        if isinstance(r, dict) and 'runs' in r:
            for i, o in zip(idx, r['runs']):
                out[ci][i] = o
        else:
            for i in idx:
                out[ci][i] = {'worker_error': r}
    return out

# ------------------------------------------------------------------------------------ model side
def tx_units(case):
    by = collections.OrderedDict()
    for t in case['tx_order']:
        by[t] = {'main': None, 'fusion': [], 'circ': []}
    for k, u in enumerate(case['units']):
        if u['kind'] == 'main':
            by[u['tx']]['main'] = k
        else:
            by[u['tx']][u['kind']].append(k)
    return by

def model_value(case, raw, F, skip, shape_k, circ_orders):
    """value for api c07_run; circ_orders: {tx: [unit index...]}"""
    by = tx_units(case)
    txs = []
    def unit(k):
        u = case['units'][k]
        return [k, 1 if u['uid'] in F else 0, [[s, [k]] for s in raw.get(k, [])]]
    for ti, t in enumerate(case['tx_order']):
        b = by[t]
        inv = 1 if t in case.get('invalid', []) else 0
        emp = 1 if t in case.get('empty', []) else 0
        has = b['main'] is not None or b['fusion'] or b['circ']
        if not (has or inv or emp):
            continue            # the transcript has no record at all: not in pool.pointers
        acc = 1 if any(case['units'][k].get('acc') in case.get('invalid', []) for k in b['fusion']) else 0
        txs.append([ti, inv, emp, [unit(b['main'])] if b['main'] is not None else [],
                    [unit(k) for k in b['fusion']], [unit(k) for k in circ_orders.get(t, b['circ'])], acc])
    return [shape_k, 1 if skip else 0, txs]

def decode_model(r):
    exc, fa, tl = r
    return {'exc': exc, 'fasta': None if not fa else sorted(O.U(p[0]) for p in fa[0]),
            'tally': None if not tl else dict(zip(['total', 'processed', 'invalid', 'variant', 'fusion', 'circRNA',
                                                    'n_total', 'n_valid'], tl[0]))}

def circ_order_candidates(case, calls, cap=24):
    """orders of the circRNA units of every transcript consistent with the observed calls (a prefix)"""
    by = tx_units(case)
    uid2k = {u['uid']: k for k, u in enumerate(case['units'])}
    per_tx = []
    for t, b in by.items():
        cs = b['circ']
        if len(cs) <= 1:
            per_tx.append([(t, cs)])
            continue
        seen = [uid2k[c] for c in (calls or []) if c in uid2k and uid2k[c] in cs]
        rest = [k for k in cs if k not in seen]
        per_tx.append([(t, seen + list(p)) for p in itertools.permutations(rest)])
    out = []
    for combo in itertools.product(*per_tx):
        out.append(dict(combo))
        if len(out) >= cap:
            break
    return out

# ------------------------------------------------------------------------------------ spec side
def spec_eval(case, raw, run, o):
    """the property's statement on the implementation's output; returns list of reasons it fails"""
    F = set(run['fail'])
    bad = []
    by = tx_units(case)
    n_inv = len(case.get('invalid', []))
    live = [t for t, b in by.items() if (b['main'] is not None or b['fusion'] or b['circ'])
            and t not in case.get('invalid', []) and t not in case.get('empty', [])]
    uid = lambda k: case['units'][k]['uid']
    must_abort = (not run['skip']) and (bool(F) or n_inv > 0)
    if must_abort:
        if o['exc'] is None:
            bad.append('no exception although a unit fails without --skip-failed')
        if o['fasta'] is not None:
            bad.append('FASTA written although the command must abort')
        if o['tally'] is not None:
            bad.append('success summary logged although the command must abort')
        return bad
    if o['exc'] is not None:
        bad.append('command aborted with %s although %s' % (o['exc'], '--skip-failed is given' if run['skip'] else 'nothing fails'))
        return bad
    if o['fasta'] is None:
        bad.append('no FASTA written')
        return bad
    if len(set(o['fasta'])) != len(o['fasta']):
        bad.append('duplicate FASTA records')
    need = [k for k in range(len(case['units'])) if uid(k) not in F]
    if all(k in raw for k in need):
        exp = set()
        for k in need:
            exp |= set(raw[k])
        got = set(o['fasta'])
        if got != exp:
            bad.append('FASTA set differs from the union of the non-failing units: missing %d extra %d (e.g. %s)' % (
                len(exp - got), len(got - exp), sorted((exp - got) | (got - exp))[:3]))
    tl = o['tally']
    if tl is None or 'malformed' in tl:
        bad.append('summary missing or malformed: %r' % (tl,))
        return bad
    exp_t = {'total': len(live) + n_inv + len(case.get('empty', [])), 'processed': len(live), 'invalid': n_inv if run['skip'] else 0,
             'variant': sum(1 for t in live if by[t]['main'] is not None and uid(by[t]['main']) in F),
             'fusion': sum(1 for t in live if any(uid(k) in F for k in by[t]['fusion'])),
             'circRNA': sum(1 for t in live if any(uid(k) in F for k in by[t]['circ'])),
             'n_valid': len(o['fasta'])}
    for k, v in exp_t.items():
        if tl.get(k) != v:
            bad.append('tally %s = %r, expected %r' % (k, tl.get(k), v))
    if tl.get('n_summaries') != 1:
        bad.append('summary logged %r times' % tl.get('n_summaries'))
    return bad

# ------------------------------------------------------------------------------------ comparison
def exc_matches(model_exc, o, threads):
    if model_exc == 0:
        return o['exc'] is None
    if o['exc'] is None:
        return False
    if threads != 1:
        return True
    if model_exc == EXC_UNBOUND:
        return o['exc'] == 'UnboundLocalError'
    return o['exc'] == 'ValueError'

def same_as_model(m, o, threads, compare_fasta):
    if not exc_matches(m['exc'], o, threads):
        return False
    if m['exc'] != 0:
        return o['fasta'] is None and o['tally'] is None
    if o['fasta'] is None or o['tally'] is None or 'malformed' in o['tally']:
        return False
    if compare_fasta and m['fasta'] != sorted(o['fasta']):
        return False
    keys = ['total', 'processed', 'invalid', 'variant', 'fusion', 'circRNA'] + (['n_valid'] if compare_fasta else [])
    return all(m['tally'][k] == o['tally'].get(k) for k in keys)

def shape_info():
    r = O.call('c07_shape', [])
    return {'known': bool(r[0]), 'fixed': bool(r[1]), 'orig': bool(r[2]), 'd4': not r[4][3], 'acc_unguarded': not r[4][6], 'raw': r}

def units_run_by_tool(case, runs, outs):
    """unit ids the implementation actually enters on this input: the recorded calls of a completed
    threads-1 run in which nothing is made to fail (None when there is no such observation)"""
    for r, o in zip(runs, outs):
        if r['threads'] == 1 and not r['fail'] and o is not None and 'worker_error' not in o \
                and o.get('exc') is None and o.get('calls') is not None:
            return set(o['calls'])
    return None

def evaluate(ctx, case, runs, outs, shape):
    """returns (violations, stats, raw).  The unit list is the generator's, checked against what the tool
    runs: a generated unit the tool never enters although nothing fails (e.g. a record the tool merges with
    another one or drops while loading) is not a processing unit of this input; it is removed together with
    the runs that try to fail it, and counted (units_not_run_by_tool)."""
    called = units_run_by_tool(case, runs, outs)
    if called is not None:
        ghosts = [u['uid'] for u in case['units'] if u['uid'] not in called]
        if ghosts:
            case2 = dict(case); case2['units'] = [u for u in case['units'] if u['uid'] not in ghosts]
            keep = [i for i, r in enumerate(runs) if not (set(r['fail']) & set(ghosts))]
            v, st, raw = evaluate(ctx, case2, [runs[i] for i in keep], [outs[i] for i in keep], shape)
            st['units_not_run_by_tool'] += len(ghosts)
            st['runs_dropped_with_ghost_units'] += len(runs) - len(keep)
            return v, st, raw
    stats = collections.Counter()
    viol = []
    uids = [u['uid'] for u in case['units']]
    n = len(uids)
    # ---- raw_k from the measuring runs
    raw, unmeasured = {}, []
    for k in range(n):
        F = sorted(u for u in uids if u != uids[k])
        o = next((o for r, o in zip(runs, outs) if r['skip'] and r['threads'] == 1 and sorted(r['fail']) == F), None)
        if o is not None and 'worker_error' not in o and o['exc'] is None and o['fasta'] is not None:
            raw[k] = sorted(set(o['fasta']))
        else:
            unmeasured.append(k)
    stats['units'] += n
    stats['units_unmeasured'] += len(unmeasured)
    # ---- model queries
    queries, qmap = [], []
    for ri, (r, o) in enumerate(zip(runs, outs)):
        if o is None or 'worker_error' in o:
            continue
        cands = circ_order_candidates(case, o.get('calls'))
        for ci, co in enumerate(cands):
            for sk in ((0, 1, 2) if not shape['fixed'] else (0,)):
                queries.append(('c07_run', model_value(case, raw, set(r['fail']), r['skip'], sk, co)))
                qmap.append((ri, ci, sk))
    replies = O.call_parallel(queries, jobs=min(8, ctx.jobs)) if queries else []
    model = collections.defaultdict(dict)
    for (ri, ci, sk), rep in zip(qmap, replies):
        model[ri][(ci, sk)] = decode_model(rep)
    for ri, (r, o) in enumerate(zip(runs, outs)):
        stats['runs'] += 1
        if o is None or 'worker_error' in o:
            viol.append({'what': 'implementation worker failed: %r' % (o,), 'no_input': True,
                         'replay_obj': {'kind': 'correspondence', 'name': 'corr:C07/worker', 'example': str(o)[:500]}})
            continue
        F = set(r['fail'])
        need = [k for k in range(n) if uids[k] not in F]
        measured = all(k in raw for k in need)
        if not measured:
            stats['runs_with_unmeasured_raw'] += 1
        if F and any(raw.get(k) for k in need) and any(raw.get(k) for k in range(n) if uids[k] in F):
            stats['nontrivial'] += 1
        bad = spec_eval(case, raw, r, o)
        ms = model[ri]
        agree = any(same_as_model(m, o, r['threads'], measured) for (ci, sk), m in ms.items() if sk == 0)
        stats['agree' if agree else 'disagree'] += 1
        stats['spec_ok' if not bad else 'spec_fail'] += 1
        if o['exc']:
            stats['exc_' + o['exc']] += 1
        if not bad and agree:
            continue
        robj = {'kind': 'c07case', 'case': {k: v for k, v in case.items() if not k.startswith('_')},
                'focus': {'fail': sorted(F), 'skip': r['skip'], 'threads': r['threads']},
                'observed': {k: o.get(k) for k in ('exc', 'where', 'tally', 'calls')},
                'observed_fasta': o.get('fasta')}
        if bad:
            v = {'what': 'units=%s fail=%s skip=%s threads=%d: %s' % (
                    [u['kind'] for u in case['units']], [case['units'][uids.index(f)]['kind'] + '#%d' % uids.index(f) for f in sorted(F)],
                    r['skip'], r['threads'], '; '.join(bad)[:300]),
                 'replay_obj': robj, 'no_input': False, '_size': (n, len(F), r['threads'])}
            if is_d4(shape, r, o, ms):
                v['_sig'] = 'D4'
            viol.append(v)
        else:
            # the property holds on this output but the implementation is not the modelled one
            v = {'what': 'implementation differs from Model/Wrapper.v (shape read from the source) although the statement holds on '
                         'this output: units=%s fail=%s skip=%s threads=%d impl exc=%s tally=%s model=%s' % (
                             [u['kind'] for u in case['units']], sorted(F), r['skip'], r['threads'], o['exc'], o['tally'],
                             [(k, m['exc'], m['tally']) for k, m in list(ms.items())[:2]]),
                 'replay_obj': {'kind': 'correspondence', 'name': 'corr:C07/call_variant_peptides_wrapper', 'example': robj},
                 'no_input': True, '_harmless': True}
            viol.append(v)
    return viol, stats, raw

def is_d4(shape, run, o, ms):
    if not shape['d4'] or not run['skip'] or o['exc'] is None:
        return False
    if run['threads'] == 1:
        if o['exc'] != 'UnboundLocalError' or 'call_variant_peptides_wrapper' not in (o.get('where') or []):
            return False
    elif o['exc'] != 'TypeError' or (o.get('where') or [''])[-1] != 'call_variant_peptide':
        return False
    cis = {ci for (ci, sk) in ms}
    return any(ms[(ci, 2)]['exc'] == EXC_UNBOUND and ms[(ci, 1)]['exc'] == 0 for ci in cis
               if (ci, 2) in ms and (ci, 1) in ms)

def condense(viol):
    """one violation per finding id (the smallest instance), at most 5 others, one correspondence note"""
    out, by_f, others, harmless = [], {}, [], []
    for v in viol:
        if v.get('_sig'):
            cur = by_f.get(v['_sig'])
            if cur is None or v.get('_size', (9, 9, 9)) < cur[0].get('_size', (9, 9, 9)):
                by_f[v['_sig']] = (v, (cur[1] if cur else 0) + 1)
            else:
                by_f[v['_sig']] = (cur[0], cur[1] + 1)
        elif v.get('_harmless'):
            harmless.append(v)
        else:
            others.append(v)
    for f, (v, cnt) in by_f.items():
        v = dict(v); v['what'] = '[mechanism of the fixed defect %s is back; %d instances this run; smallest shown] %s' % (f, cnt, v['what'])
        out.append(v)
    others.sort(key=lambda v: tuple(v.get('_size', (9, 9, 9))))
    out += others[:5]
    if len(others) > 5:
        out[-1] = dict(out[-1]); out[-1]['what'] += ' (+%d more violations not listed)' % (len(others) - 5)
    if harmless and not others and not by_f:
        v = dict(harmless[0]); v['what'] += ' (%d such runs)' % len(harmless)
        out.append(v)
    for v in out:
        v.pop('_size', None); v.pop('_harmless', None); v.pop('_sig', None)
    return out

# ------------------------------------------------------------------------------------ streams
def gen_cases(rng, n, extras=True):
    cases = []
    while len(cases) < n:
        c = GN.gen_case(rng)
        w = c.pop('_world')
        if extras:
            GN.add_extras(rng, c, w)
        if c['units']:
            cases.append(c)
    return cases

def corpus_cases():
    out = []
    for p in sorted(glob.glob(os.path.join(ROOT, 'corpus', 'C07', '*.json'))):
        try:
            obj = json.load(open(p))
        except Exception:  # noqa
            continue
        if obj.get('kind') in ('c07case', 'c07parser'):
            out.append((os.path.basename(p), obj))
    return out

def run(ctx):
    shape = shape_info()
    n = int(os.environ.get('VERIF_C07_WORLDS', 20 if ctx.quick else 400))
    stats = collections.Counter()
    viol, samples = [], []
    dist = collections.Counter()
    # ---- corpus first
    for name, obj in corpus_cases():
        r = replay(ctx, obj)
        for v in r['violations']:
            v['what'] = 'corpus %s: %s' % (name, v['what'])
            viol.append(v)
        stats['corpus_cases'] += 1
    cases = gen_cases(ctx.rng, n)
    chunk = 16 if ctx.quick else 48
    for i in range(0, len(cases), chunk):
        part = cases[i:i + chunk]
        crs = [(c, all_runs(c)) for c in part]
        outs = execute(ctx, crs)
        for (c, runs), o in zip(crs, outs):
            v, st, raw = evaluate(ctx, c, runs, o, shape)
            viol += v
            stats.update(st)
            dist['units=%d' % len(c['units'])] += 1
            dist['kinds=' + ''.join(sorted(u['kind'][0] for u in c['units']))] += 1
            dist['tx_with_units=%d' % len({u['tx'] for u in c['units']})] += 1
            dist['invalid=%d' % len(c.get('invalid', []))] += 1
            dist['empty=%d' % len(c.get('empty', []))] += 1
            dist['strand=%d' % c['strand']] += 1
            dist['raw_nonempty_units=%d/%d' % (sum(1 for k in raw if raw[k]), len(c['units']))] += 1
            if len(samples) < 6:
                samples.append({'units': [u['uid'] for u in c['units']], 'invalid': c.get('invalid', []),
                                'raw_sizes': {str(k): len(v) for k, v in raw.items()}, 'runs': len(runs)})
    # ---- accepter-invalid stream (separate, small)
    av, ast_ = acc_invalid_stream(ctx, shape, 3 if ctx.quick else 24)
    viol += av
    stats.update(ast_)
    # ---- the parsers' --skip-failed
    pv, pst, pdist = PP.run_stream(ctx, int(os.environ.get('VERIF_C07_PARSER_CASES', 120 if ctx.quick else 1600)))
    viol += pv
    stats.update(pst)
    stats['runs'] += pst['parser_runs']; stats['nontrivial'] += pst['parser_nontrivial']
    pshapes = PP.shapes_info()
    for t, x in pshapes.items():
        if not x['modelled']:
            viol.append({'what': 'the record loop of the %s CLI read from the source is not a modelled shape' % PP.CMD_NAME[t],
                         'replay_obj': {'kind': 'correspondence', 'name': 'corr:C07/parser_shape/' + t}, 'no_input': True})
    if not shape['known']:
        viol.append({'what': 'the failure-handling skeleton read from the source is none of the modelled shapes: %r' % (shape['raw'],),
                     'replay_obj': {'kind': 'correspondence', 'name': 'corr:C07/wrapper_shape', 'example': shape['raw']},
                     'no_input': True})
    return {
        'evaluations': stats['runs'], 'distinct_nontrivial': stats['nontrivial'],
        'rule': 'a run (case, failure set F, --skip-failed, threads) is non-trivial when F is non-empty and both a failing and a '
                'non-failing unit have a non-empty measured raw peptide set (isolation is observable); a parser run (table, subset of '
                'failing rows kept, flag) is non-trivial when it holds a failing row and a row that converts to records',
        'samples': samples, 'violations': condense(viol), 'distribution': dict(dist), 'stats': dict(stats),
        'source_shape': {k: shape[k] for k in ('known', 'fixed', 'orig', 'd4', 'acc_unguarded')},
        'parser_shapes': pshapes, 'parser_distribution': dict(pdist),
        'assumptions': ['raw_k is measured by the run that fails every unit but k (threads 1, --skip-failed); a unit whose '
                        'measuring run does not complete is itself a violation of the statement',
                        'cleavage exception off (--cleavage-exception none): with trypsin_exception callVariant is known to be '
                        'non-deterministic on dense inputs (D14)',
                        'batching (threads) is the subject of C06: the model has no batches; the abort/complete outcome, FASTA '
                        'set and tally are compared for threads 1 and 2'],
        'trusted_base': ['guarded fault-injection hook proposed_hooks/C07_fault.patch (raises ValueError at the entry of the '
                         'three per-unit callers)', 'generator harness/props/c07gen.py (GVF writers for SNV/INDEL, fusion, circRNA)',
                         'log capture of the tally lines in harness/impl/c07.py',
                         'translator harness/translate/wrapper_shape.py (ast patterns of the failure-handling skeleton)',
                         'parser stream: row renderers of harness/impl/c07p.py (tool table formats), library-level conversion '
                         'as the ground truth of which row fails, translator harness/translate/parser_shape.py'],
    }

def acc_invalid_stream(ctx, shape, n):
    """a fusion whose ACCEPTER transcript has an invalid series of its own"""
    stats = collections.Counter()
    viol = []
    cases = []
    tries = 0
    while len(cases) < n and tries < n * 30:
        tries += 1
        c = GN.gen_case(ctx.rng)
        w = c.pop('_world')
        if GN.add_acc_invalid(ctx.rng, c, w):
            cases.append(c)
    crs = [(c, all_runs(c, threads=(1,))) for c in cases]
    outs = execute(ctx, crs, tag='c07acc') if crs else []
    for (c, runs), o in zip(crs, outs):
        v, st, raw = evaluate(ctx, c, runs, o, shape)
        for x in v:
            if not x.get('_sig') and not x.get('no_input') and is_acc_invalid(c, x):
                x['_sig'] = 'C07-acc-invalid'
        viol += v
        stats['acc_invalid_runs'] += len(runs)
        stats['runs'] += st['runs']; stats['nontrivial'] += st['nontrivial']
    return viol, stats

def is_acc_invalid(case, v):
    o = v['replay_obj'].get('observed', {})
    f = v['replay_obj'].get('focus', {})
    return bool(case.get('acc_invalid')) and f.get('skip') and o.get('exc') == 'ValueError' \
        and 'gather_data_for_call_variant' not in (o.get('where') or [])[-1:] and 'call_variant_peptides_wrapper' not in (o.get('where') or [])

def replay(ctx, obj):
    if obj.get('kind') == 'correspondence' and isinstance(obj.get('example'), dict):
        obj = obj['example']
    if obj.get('kind') == 'c07parser':
        return {'violations': condense(PP.replay(ctx, obj))}
    if obj.get('kind') != 'c07case':
        return {'violations': []}
    shape = shape_info()
    case = obj['case']
    f = obj.get('focus')
    uids = [u['uid'] for u in case['units']]
    runs = [{'fail': [], 'skip': True, 'threads': 1}] + \
           [{'fail': sorted(u for u in uids if u != k), 'skip': True, 'threads': 1} for k in uids]
    if f:
        runs.append({'fail': f['fail'], 'skip': f['skip'], 'threads': f['threads']})
    else:
        runs = all_runs(case)
    outs = execute(ctx, [(case, runs)], tag='c07rep')[0]
    v, st, raw = evaluate(ctx, case, runs, outs, shape)
    if f:
        v = [x for x in v if x['replay_obj'].get('focus') == {'fail': sorted(f['fail']), 'skip': f['skip'], 'threads': f['threads']}
             or x.get('no_input')]
    for x in v:
        if not x.get('_sig') and not x.get('no_input') and is_acc_invalid(case, x):
            x['_sig'] = 'C07-acc-invalid'
    return {'violations': condense(v)}

def search_failing_input(ctx, broken):
    """an obligation of Props/C07.v no longer checks (the regenerated shape is not a modelled one, or a proof
    broke): look for a concrete input on which the statement fails on the implementation"""
    best = None
    if 'parser' in str(broken.get('theorem') or '') or 'ParserShape' in str(broken.get('why') or '') \
            or 'ParserLoop' in str(broken.get('why') or ''):
        pv, _, _ = PP.run_stream(ctx, 64)
        for v in pv:
            if not v.get('no_input') and (best is None or v.get('_size', (9, 9, 9)) < best.get('_size', (9, 9, 9))):
                best = v
        if best is not None:
            r = dict(best['replay_obj']); r['what'] = best['what']
            return r
    shape = shape_info()
    cases = gen_cases(ctx.rng, 8)
    crs = [(c, all_runs(c, threads=(1,))) for c in cases]
    outs = execute(ctx, crs, tag='c07srch')
    for (c, runs), o in zip(crs, outs):
        raw_v, st, raw = evaluate(ctx, c, runs, o, shape)
        for v in raw_v:
            if not v.get('no_input'):
                if best is None or v.get('_size', (9, 9, 9)) < best.get('_size', (9, 9, 9)):
                    best = v
    if best is None:
        return None
    r = dict(best['replay_obj']); r['what'] = best['what']
    return r
