"""C20 correspondence: extracted model Model/Decoy.v vs the repo's decoyFasta.

Streams
  run      : the real CLI entry (DecoyFasta.from_args(args).main()) on a generated FASTA, with random.sample
             wrapped to record its stream.  Each case is run on the targets in two input orders with the same
             --seed (order independence) and the first order is run twice (reproducibility, implementation only:
             the Mersenne Twister is not modelled).  The recorded stream is fed to
               A  the REPAIRED model (shift 1, trypsin_exception spelt right)  -- the one the theorems
                  decoy_fixed_kept / decoy_perm / ... are about   (stream as ranks)
               B  the FAITHFUL model of the unchanged code (shift 0, no exception)      (stream literally)
  fixed    : find_fixed_indices vs model B / A
  reverse, shuffle : the two static methods with arbitrary fixed-index lists vs the model's walk
Deciding a disagreement with A: the property's own statement (check_property, written against the
ExPASy table with Python's re, independent of the model) is evaluated on the implementation's output.
Signature of finding D7: the statement fails on a cleavage residue AND the output equals model B.
Signature of finding C20-dup-order: the two input orders give different record sets, the method is
shuffle, and every differing record belongs to a target whose sequence occurs under several headers.
"""
import json, re, collections
from harness.lib import oracle as O, impl as I, rules as R

PROPERTY = 'C20'
METHODS = {'reverse': 0, 'shuffle': 1}
ORDERS = {'juxtaposed': 0, 'target_first': 1, 'decoy_first': 2}

# ----------------------------------------------------------------------------- generators
def gen_seq(rng, enzyme):
    x = rng.random()
    n = rng.choice([0, 1, 2, 3, 4, 5, 6]) if rng.random() < 0.15 else rng.randint(5, 45)
    if x < 0.25:      # low complexity: 1-3 letters
        letters = rng.sample('AKRPGDEWMCY', rng.randint(1, 3))
        return ''.join(rng.choice(letters) for _ in range(n))
    rule = enzyme or rng.choice(['trypsin', 'lysc', 'asp-n'])
    if rule == 'trypsin' and rng.random() < 0.5:   # exception motifs CKY CKH CKD DKD CRK RRH RRR + KP/RP
        parts = []
        while sum(map(len, parts)) < n:
            parts.append(rng.choice(['CKY', 'CKH', 'CKD', 'DKD', 'CRK', 'RRH', 'RRR', 'KP', 'RP', 'WKP', 'MRP', 'K', 'R',
                                     'A', 'G', 'L', 'C', 'D', 'Y', 'H', 'AL', 'GS']))
        return ''.join(parts)[:n]
    return R.gen_protein(rng, rule, n, extra='UX*', bias=0.45)

def gen_header(rng, j):
    """FASTA headers: moPepGen style, UniProt style with a free-text tail, spaces and tabs inside"""
    x = rng.random()
    if x < 0.35:
        return 'T%d|%s' % (j, rng.choice(['SNV-1-A-T', 'INDEL', '']))
    acc = rng.choice(['P%05d' % rng.randrange(3), 'sp|Q%d|X_HUMAN' % rng.randrange(3), 'T%d' % j])
    tail = rng.choice(['sample=tumour', 'sample=normal', 'x y', 'OS=Homo sapiens  GN=A', 'a\tb', 'v=%d' % j, 'z'])
    sep = rng.choice([' ', ' ', '  ', '\t'])
    return acc + sep + tail

def dup_header(rng, h, k):
    """a header for a further record carrying the same sequence as the record with header h:
    (a) different first token, (b) same first token but a different tail, (c) identical header"""
    first = h.split()[0] if h.split() else h
    x = rng.random()
    if x < 0.3:
        return 'D%d|dup %s' % (k, rng.choice(['', 'tail', 'x y'])), 'a'
    if x < 0.8:
        return first + rng.choice([' ', '\t', '  ']) + rng.choice(['sample=normal', 'copy %d' % k, 'B', 'sample=tumour 2']), 'b'
    return h, 'c'

def gen_seed(rng):
    """--seed values (type=int): 0 and other falsy-looking / boundary values, small, large, negative; None = no --seed"""
    x = rng.random()
    if x < 0.25:
        return 0
    if x < 0.35:
        return rng.choice([1, -1, 2])
    if x < 0.45:
        return -rng.randrange(1, 2 ** 31)
    if x < 0.52:
        return rng.choice([2 ** 32, 2 ** 63 + 5, 10 ** 30])
    if x < 0.57:
        return None
    return rng.randrange(0, 2 ** 31)

def gen_case(rng, names, i):
    enzyme = rng.choice([None, 'trypsin', 'trypsin', 'trypsin', rng.choice(names), rng.choice(names)])
    method = 'shuffle' if rng.random() < 0.55 else 'reverse'
    order = rng.choice(list(ORDERS))
    if rng.random() < 0.01:
        method = 'foo'
    if rng.random() < 0.01:
        order = 'bar'
    n = rng.choice([0, 1, 1, 2, 2, 3, 4, 5, 6, 8])
    targets = []
    for j in range(n):
        targets.append([gen_header(rng, j).rstrip(), gen_seq(rng, enzyme)])
    # duplicates: the same sequence under (a) another first token, (b) the same first token and another tail,
    # (c) a fully identical header
    dupkinds = []
    if targets and rng.random() < 0.4:
        for _ in range(rng.randint(1, 3)):
            t = rng.choice(targets)
            h, kind = dup_header(rng, t[0], len(targets))
            targets.append([h.rstrip(), t[1]])
            dupkinds.append(kind)
    # near-collisions for shuffle: permutations of an existing target as further targets
    if targets and rng.random() < 0.3:
        t = rng.choice(targets)
        if len(t[1]) >= 2:
            l = list(t[1]); rng.shuffle(l)
            targets.append(['P%d|perm' % len(targets), ''.join(l)])
    rng.shuffle(targets)
    perm = list(targets)
    rng.shuffle(perm)
    if rng.random() < 0.3:
        perm = list(reversed(targets))
    return dict(kind='run', method=method, enzyme=enzyme, nterm=rng.random() < 0.6, cterm=rng.random() < 0.6,
                pattern=rng.choice(['', '', 'K,R', 'K', 'KR', 'P,,A', 'K,R,P', 'C,D']),
                max_attempts=rng.choice([0, 1, 2, 3, 5, 30, 30]),
                decoy_string=rng.choice(['DECOY_', 'rev_', '_REV', 'XXX|']), position=rng.choice(['prefix', 'prefix', 'suffix']),
                order=order, seed=gen_seed(rng), perturb=rng.sample(range(1, 10 ** 6), 3), width=rng.choice([0, 0, 60, 7]),
                orders=[targets, perm], rerun=True, dupkinds=dupkinds)

def gen_unit(rng, names, i):
    enzyme = rng.choice([None, 'trypsin', 'trypsin', rng.choice(names)])
    s = gen_seq(rng, enzyme)
    k = rng.choice(['fixed', 'reverse', 'shuffle'])
    if k == 'fixed':
        return dict(kind='fixed', seq=s, enzyme=enzyme, nterm=rng.random() < 0.5, cterm=rng.random() < 0.5,
                    pattern=rng.choice(['', 'K,R', 'K', 'P,,A', 'C,D']))
    fixed = [j for j in range(len(s) + 2) if rng.random() < 0.3]   # may hold len(s), len(s)+1 (harmless in the code)
    if rng.random() < 0.3:
        fixed = fixed + fixed[:2]
    rng.shuffle(fixed)
    return dict(kind=k, seq=s, fixed=fixed)

# ----------------------------------------------------------------------------- model requests
def cfg_val(c, shift, exc_mode, keyhdr):
    return [METHODS.get(c['method'], 7), c['enzyme'], [shift, exc_mode, 1 if keyhdr else 0], c['nterm'], c['cterm'],
            [p for p in c['pattern'].split(',')], c['max_attempts'], c['decoy_string'], c['position'] == 'prefix',
            ORDERS.get(c['order'], 7)]

def ranks_of(queries, stream):
    out = []
    for q, r in zip(queries, stream):
        pos = {}
        for i, x in enumerate(q):
            pos.setdefault(x, []).append(i)
        out.append([pos[x].pop(0) for x in r])
    return out

def model_out(m):
    if isinstance(m, str):
        return {'status': m}
    if m[0] == 1:
        return {'status': 'ValueError'}
    if m[0] == 2:
        return {'status': 'fuel'}
    return {'status': 'ok', 'records': [[O.U(h), O.U(s)] for h, s in m[1]], 'calls': m[2], 'overlap': m[3],
            'queries': m[4]}

# ----------------------------------------------------------------------------- the property's own statement
def spec_fixed(c, s):
    """positions the statement requires to stay in place (P1 of every cleavage site, termini, listed residues)"""
    t = R.tables().get('EXPASY_RULES', {})
    fx = set()
    if c['enzyme'] is not None:
        rule = t[c['enzyme']]
        exc = t.get('trypsin_exception') if c['enzyme'] == 'trypsin' else None
        ex = set(m.end() for m in re.finditer(exc, s)) if exc else set()
        for m in re.finditer(rule, s):
            if m.end() not in ex:
                fx.add(m.end() - 1)
    pats = c['pattern'].split(',')
    for i, ch in enumerate(s):
        if (i == 0 and c['nterm']) or (i == len(s) - 1 and c['cterm']) or ch in pats:
            fx.add(i)
    return fx

def split_output(c, recs, n):
    """-> (targets, decoys) according to the requested order, or None if the shape is wrong"""
    if len(recs) != 2 * n:
        return None
    if c['order'] == 'juxtaposed':
        return recs[0::2], recs[1::2]
    if c['order'] == 'target_first':
        return recs[:n], recs[n:]
    return recs[n:], recs[:n]

def check_property(c, targets, res):
    """list of (clause, detail) the implementation's output fails; [] = the statement holds on this run"""
    bad = []
    if c['method'] not in METHODS or c['order'] not in ORDERS:
        return [] if res['status'] == 'ValueError' or (c['method'] not in METHODS and not targets and c['order'] in ORDERS) \
            else [('rejects-unsupported-option', res['status'])]
    if res['status'] != 'ok':
        return [('completes', res['status'])]
    sp = split_output(c, res['records'], len(targets))
    if sp is None:
        return [('one-decoy-per-target', 'got %d records for %d targets' % (len(res['records']), len(targets)))]
    ts, ds = sp
    if sorted(map(tuple, ts)) != sorted(map(tuple, targets)):
        bad.append(('targets-unchanged/order-respected', ''))
    for t, d in zip(ts, ds):
        hdr = c['decoy_string'] + t[0] if c['position'] == 'prefix' else t[0] + c['decoy_string']
        if d[0] != hdr:
            bad.append(('decoy-header', '%r for %r' % (d[0], t[0])))
        if sorted(d[1]) != sorted(t[1]):
            bad.append(('rearrangement', '%s -> %s' % (t[1], d[1])))
            continue
        fx = spec_fixed(c, t[1])
        moved = [i for i in sorted(fx) if d[1][i] != t[1][i]]
        if moved:
            bad.append(('fixed-kept', '%s -> %s: positions %s moved' % (t[1], d[1], moved)))
        elif c['method'] == 'reverse':
            free = [i for i in range(len(t[1])) if i not in fx]
            if [d[1][i] for i in free] != [t[1][i] for i in reversed(free)]:
                bad.append(('reversal', '%s -> %s' % (t[1], d[1])))
    return bad

def dup_groups(targets):
    by = collections.defaultdict(set)
    for h, s in targets:
        by[s].add(h)
    return {s for s, hs in by.items() if len(hs) > 1}

# ----------------------------------------------------------------------------- comparison
def evaluate(ctx, cases):
    impl = I.run_cases('c20', cases, jobs=ctx.jobs, tag='c20')
    # B = the faithful model with the switches translated from the current source (Gen/DecoyCli.v):
    # on the unchanged tree shift 0 + the misspelt exception literal; after the fix identical to A
    bs, be, bk = O.call('c20_switches', [])
    keyA, keyB = True, (bk != 0)      # A: the specified key (sequence, full header), fixed; B: as translated
    reqs, where = [], []
    for ci, (c, r) in enumerate(zip(cases, impl)):
        if isinstance(r, dict) and '__exc__' in r:
            continue
        if c['kind'] == 'run':
            for oi, (ts, run) in enumerate(zip(c['orders'], r['runs'])):
                reqs.append(('c20_run', [cfg_val(c, 1, 1, keyA), ts, ranks_of(run['queries'], run['stream']), 1]))
                where.append((ci, oi, 'A'))
                reqs.append(('c20_run', [cfg_val(c, bs, be, keyB), ts, run['stream'], 0]))
                where.append((ci, oi, 'B'))
        elif c['kind'] == 'fixed':
            cc = dict(c, method='reverse', max_attempts=30, decoy_string='', position='prefix', order='juxtaposed')
            reqs.append(('c20_fixed', [cfg_val(cc, bs, be, keyB), c['seq']])); where.append((ci, 0, 'B'))
            reqs.append(('c20_fixed', [cfg_val(cc, 1, 1, keyA), c['seq']])); where.append((ci, 0, 'A'))
        elif c['kind'] == 'reverse':
            reqs.append(('c20_reverse', [c['seq'], c['fixed']])); where.append((ci, 0, 'U'))
        elif c['kind'] == 'shuffle':
            reqs.append(('c20_shuffle', [c['seq'], c['fixed'], r['shuffled']])); where.append((ci, 0, 'U'))
    model = O.call_parallel(reqs, jobs=8)
    M = {}
    for w, m in zip(where, model):
        M[w] = m
    viol, stats = [], collections.Counter()
    for ci, (c, r) in enumerate(zip(cases, impl)):
        if isinstance(r, dict) and '__exc__' in r:
            viol.append(dict(what='implementation raised %s on %s' % (r['__exc__'], json.dumps(c)[:300]),
                             replay_obj={'kind': 'case', 'case': c, 'impl': r}, no_input=False))
            continue
        if c['kind'] == 'fixed':
            a, b = M[(ci, 0, 'A')], M[(ci, 0, 'B')]
            spec = spec_fixed(c, c['seq'])
            inrange = set(i for i in r if 0 <= i < len(c['seq']))
            if r == a and set(a) >= spec:
                stats['fixed=A'] += 1
            elif not spec <= inrange:
                stats['fixed:D7'] += 1
                viol.append(dict(what='find_fixed_indices(%s, enzyme=%s) = %s does not contain the positions the statement requires to stay (termini, listed residues, cleavage residues) %s'
                                      % (c['seq'], c['enzyme'], r, sorted(spec - inrange)),
                                 replay_obj={'kind': 'case', 'case': c, 'impl': r, 'model_repaired': a, 'model_faithful': b},
                                 no_input=False, finding='D7' if (r == b and bs == 0) else None))
            elif r == b:
                stats['fixed=B(harmless here)'] += 1
            else:
                viol.append(dict(what='find_fixed_indices differs from both models: %s vs %s / %s' % (r, a, b),
                                 replay_obj={'kind': 'case', 'case': c, 'impl': r, 'model_repaired': a, 'model_faithful': b},
                                 no_input=False))
            continue
        if c['kind'] in ('reverse', 'shuffle'):
            got = r if c['kind'] == 'reverse' else r['seq']
            want = O.U(M[(ci, 0, 'U')])
            stats[c['kind'] + ('=model' if got == want else '!=model')] += 1
            if got != want:
                ok = sorted(got) == sorted(c['seq']) and all(got[i] == c['seq'][i] for i in set(c['fixed']) if i < len(c['seq']))
                viol.append(dict(what='%s_sequence(%s, %s): implementation %s vs model %s (permutation and fixed positions %s)'
                                      % (c['kind'], c['seq'], c['fixed'], got, want, 'hold' if ok else 'FAIL'),
                                 replay_obj={'kind': 'case', 'case': c, 'impl': r, 'model': want}, no_input=False))
            continue
        # ---- kind == run
        outs = r['runs']
        for run in outs:
            for q, x in zip(run['queries'], run['stream']):
                stats['sample-calls'] += 1
                if sorted(q) != sorted(x):
                    stats['sample-not-perm'] += 1
        for oi, (ts, run) in enumerate(zip(c['orders'], outs)):
            a, b = model_out(M[(ci, oi, 'A')]), model_out(M[(ci, oi, 'B')])
            same = lambda m: m['status'] == run['status'] and (run['status'] != 'ok' or (
                m['records'] == run['records'] and m['overlap'] == run['overlap']))
            failed = check_property(c, ts, run)
            a_usable = a['status'] != 'ok' or [len(q) for q in a['queries']] == [len(q) for q in run['queries']]
            eqA = same(a) and a_usable
            eqB = same(b) and (b['status'] != 'ok' or b['queries'] == run['queries'])
            if eqA and not failed:
                stats['run=A'] += 1
                continue
            rep = {'kind': 'case', 'case': dict(c, orders=[ts], rerun=False), 'impl': run, 'model_repaired': a,
                   'model_faithful': b, 'failed_clauses': failed}
            if failed:
                is_d7 = eqB and bs == 0 and all(cl == 'fixed-kept' or cl == 'reversal' for cl, _ in failed)
                stats['run:property-fails' + ('(D7)' if is_d7 else '')] += 1
                viol.append(dict(what='decoyFasta output violates the statement: %s ; options %s' % (
                                     '; '.join('%s %s' % f for f in failed[:3]),
                                     json.dumps({k: v for k, v in c.items() if k not in ('orders',)})[:200]),
                                 replay_obj=rep, no_input=False, finding='D7' if is_d7 else None, _size=sum(len(t[1]) for t in ts)))
            elif eqB:
                stats['run=B,property holds here'] += 1     # differs from A only where D7 did not bite
            else:
                stats['run:differs from both models'] += 1
                viol.append(dict(what='decoyFasta output differs from the proved model and from the faithful model although the '
                                      'statement holds on it', replay_obj=dict(rep, name='corr:C20/run'), no_input=True, _harmless=True))
        # order independence (same seed, two input orders), reproducibility (same order twice); the worker puts the
        # process-global generator into a different state before each of the three runs.  Without --seed a shuffle
        # is random by design: nothing to compare.
        stats['seed/' + ('none' if c.get('seed') is None else '0' if c['seed'] == 0 else 'negative' if c['seed'] < 0 else
                         'huge' if c['seed'] >= 2 ** 32 else 'other')] += 1
        if c.get('seed') is None and c['method'] == 'shuffle':
            stats['unseeded shuffle (no comparison)'] += 1
            continue
        if len(outs) == 2 and outs[0]['status'] == 'ok' and outs[1]['status'] == 'ok':
            s0 = sorted(map(tuple, outs[0]['records'])); s1 = sorted(map(tuple, outs[1]['records']))
            if s0 != s1:
                dups = dup_groups(c['orders'][0])
                diff = set(s0) ^ set(s1)
                tseq = {}
                # a differing decoy record is attributed to its target by header
                def owner_seq(h):
                    for th, tsq in c['orders'][0]:
                        if h in (th, c['decoy_string'] + th, th + c['decoy_string']):
                            yield tsq
                sig = bk == 0 and c['method'] == 'shuffle' and all(any(q in dups for q in owner_seq(h)) for h, _ in diff)
                stats['order-dependent' + ('(C20-dup-order)' if sig else '')] += 1
                viol.append(dict(what='record set depends on the input order (same seed %s): %d records differ; method %s; targets %s'
                                      % (c.get('seed'), len(diff), c['method'], json.dumps(c['orders'][0])[:200]),
                                 replay_obj={'kind': 'case', 'case': dict(c, rerun=False), 'impl': outs},
                                 no_input=False, finding='C20-dup-order' if sig else None,
                                 _size=sum(len(t[1]) for t in c['orders'][0])))
            else:
                stats['order-independent'] += 1
        if 'rerun' in r:
            if r['rerun'].get('records') != outs[0].get('records') or r['rerun']['status'] != outs[0]['status']:
                viol.append(dict(what='same --seed (%s), same input, different ambient random state before the run: different output' % c.get('seed'), no_input=False,
                                 replay_obj={'kind': 'case', 'case': c, 'impl': [outs[0], r['rerun']]}))
            else:
                stats['reproducible'] += 1
    return impl, viol, stats

def thin(viol):
    """at most 2 examples (the smallest) per finding id and 10 unattributed violations"""
    out, seen, plain = [], {}, 0
    harmless = [v for v in viol if v.get('_harmless')]
    for v in sorted((v for v in viol if not v.get('_harmless')), key=lambda v: v.get('_size', 0)):
        if v.get('finding'):
            key = (v['finding'], v['what'][:18])
            if seen.get(key, 0) >= 2:
                continue
            seen[key] = seen.get(key, 0) + 1
        else:
            if plain >= 10:
                continue
            plain += 1
        out.append(v)
    if harmless and plain == 0:
        out.append(harmless[0])
    for v in out:
        v.pop('_size', None); v.pop('_harmless', None)
        if v.get('finding') is None:
            v.pop('finding', None)
    return out

def load_corpus():
    import glob, os
    root = os.path.dirname(os.path.dirname(os.path.dirname(os.path.abspath(__file__))))
    cs = []
    for f in sorted(glob.glob(os.path.join(root, 'corpus', 'C20', '*.json'))):
        o = json.load(open(f))
        cs.append(o['case'] if 'case' in o else o)
    return cs

def run(ctx):
    rng = ctx.rng
    names = R.rule_names()
    n_run = 2500 if ctx.quick else 20000
    n_unit = 5000 if ctx.quick else 50000
    cases = load_corpus()
    ncorp = len(cases)
    cases += [gen_case(rng, names, i) for i in range(n_run)]
    cases += [gen_unit(rng, names, i) for i in range(n_unit)]
    impl, viol, stats = evaluate(ctx, cases)
    nontriv, dist = set(), collections.Counter()
    for c, r in zip(cases, impl):
        if c['kind'] != 'run':
            dist[c['kind']] += 1
            if len(c['seq']) >= 3:
                nontriv.add(json.dumps(c, sort_keys=True))
            continue
        dist['run/%s/%s/%s' % (c['method'], 'enzyme' if c['enzyme'] else 'noenzyme', c['order'])] += 1
        if dup_groups(c['orders'][0]):
            dist['run:duplicate-sequences'] += 1
        for k in c.get('dupkinds', []):
            dist['run:dup/' + {'a': 'other-first-token', 'b': 'same-first-token-other-tail', 'c': 'identical-header'}[k]] += 1
        if any(' ' in h or '\t' in h for h, _ in c['orders'][0]):
            dist['run:headers-with-whitespace'] += 1
        if isinstance(r, dict) and 'runs' in r and r['runs'][0].get('overlap'):
            dist['run:collision-retry-exhausted'] += 1
        if isinstance(r, dict) and 'runs' in r and len(r['runs'][0].get('stream', [])) > sum(1 for _ in c['orders'][0]):
            dist['run:retried'] += 1
        # non-trivial: at least one decoy differs from its target
        if isinstance(r, dict) and 'runs' in r and r['runs'][0].get('status') == 'ok':
            sp = split_output(c, r['runs'][0]['records'], len(c['orders'][0])) if c['order'] in ORDERS else None
            if sp and any(t[1] != d[1] for t, d in zip(*sp)):
                nontriv.add(json.dumps(c, sort_keys=True))
    return dict(evaluations=len(cases) + sum(2 for c in cases if c['kind'] == 'run'),
                distinct_nontrivial=len(nontriv),
                rule='run cases: generated FASTA (0-10 targets, enzyme-biased / exception-motif / low-complexity sequences incl. '
                     'lengths 0-6, duplicate sequences, permuted copies as collision bait) x method x enzyme (None, trypsin, any of '
                     'the %d rules) x termini x non-shuffle pattern x max attempts x decoy string/position x order x seed, each in two '
                     'input orders + one rerun; unit cases: find_fixed_indices / reverse_sequence / shuffle_sequence with arbitrary '
                     'fixed lists. non-trivial = some decoy differs from its target (run) or sequence length >= 3 (unit); distinct by '
                     'full case' % len(names),
                samples=[{k: v for k, v in cases[ncorp].items()}, cases[-1]],
                distribution=dict(dist), outcome=dict(stats), sort_key_in_source=O.call('c20_switches', [])[2],
                corpus_cases=ncorp, violations=thin(viol),
                assumptions=['random.sample returns a permutation of its argument (hypothesis of the theorems; every recorded call is '
                             'checked: %d calls, %d not a permutation)' % (stats.get('sample-calls', 0), stats.get('sample-not-perm', 0)),
                             'FASTA reading/writing by Biopython is outside the model; headers are generated without leading/trailing blanks',
                             'sequences are ASCII; unknown exception names (the misspelt trypsin_expection) never match'],
                trusted_base=['Mersenne Twister / random.seed not modelled: reproducibility is proved as "same sample stream => same '
                              'output" and tested by an implementation-only rerun with the same --seed (partial)',
                              'Biopython SeqIO.parse / FastaWriter', 'rank conversion of the recorded sample stream (harness/props/c20.py)'])

def replay(ctx, obj):
    c = obj['case']
    impl, viol, stats = evaluate(ctx, [c])
    return dict(violations=thin(viol))

def search_failing_input(ctx, broken):
    """A theorem of Props/C20.v no longer checks (e.g. cli_options_modelled after the CLI tables changed):
    look for a concrete input on which the statement fails.  First the option values the CLI accepts but the
    code does not dispatch on, then a small generated batch."""
    import os, sys, ast
    sys.path.insert(0, os.path.join(os.path.dirname(os.path.dirname(os.path.abspath(__file__))), 'translate'))
    import decoy_cli as T
    tree = ast.parse(open(os.path.join(I.REPO, 'moPepGen/cli/decoy_fasta.py')).read())
    base = dict(kind='run', enzyme=None, nterm=True, cterm=True, pattern='', max_attempts=30, decoy_string='DECOY_',
                position='prefix', seed=1, width=0, method='reverse', order='juxtaposed', orders=[[['T', 'ACDEK']]])
    cands = []
    for flag, key in (('--method', 'method'), ('--order', 'order')):
        for v in (T.choices_of(tree, flag).get('choices') or []):
            if isinstance(v, str) and v not in (METHODS if key == 'method' else ORDERS):
                cands.append(dict(base, **{key: v}))
    if cands:
        for c, r in zip(cands, I.run_cases('c20', cands, jobs=1, tag='c20s')):
            run = r['runs'][0] if isinstance(r, dict) and 'runs' in r else {'status': str(r)}
            if run.get('status') != 'ok' or len(run.get('records', [])) != 2:
                return {'kind': 'case', 'case': c, 'impl': run,
                        'what': 'option value accepted by the CLI but no decoy is written: %s' % json.dumps({k: c[k] for k in ('method', 'order')})}
    # sort-key candidates: same sequence under headers that differ (i) everywhere, (ii) only after the first
    # whitespace-delimited token, (iii) only in the kind of whitespace; shuffle, same seed, two input orders
    sk = []
    for hs in (['a', 'b'], ['P12345 sample=tumour', 'P12345 sample=normal'], ['P1 x', 'P1\tx'], ['P1 x', 'P1  x']):
        for seed in (1, 2, 3):
            ts = [[h, 'ACDEFGHIKLMN'] for h in hs]
            sk.append(dict(base, method='shuffle', nterm=False, cterm=False, seed=seed, order='target_first',
                           orders=[ts, list(reversed(ts))]))
    cases = sk + load_corpus() + [gen_case(ctx.rng, R.rule_names(), i) for i in range(200)]
    from harness.lib import py2coq_search
    if py2coq_search.is_code_obligation(broken):
        # code_<fn>_is_model (docs/py2coq.md): the unit streams call exactly the translated functions
        import random
        urng = random.Random(ctx.seed + 11)
        cases = [gen_unit(urng, R.rule_names(), i) for i in range(600)] + cases
    impl, viol, stats = evaluate(ctx, cases)
    for v in viol:
        if not v.get('finding') and not v.get('no_input'):
            return dict(v['replay_obj'], what=v['what'][:200])
    return None
